(* TablesC.v — C01, tables at the end of the build: every table of the returned database comes from a table blueprint, carries
   that blueprint's keys (schema.name, and the alias when there is one) and its columns are named as the blueprint declares, in
   order; conversely every table blueprint has its table in the database.  (The invariants JTC / AllBp of BuildDocs.v /
   BuildSpell.v, proved there up to the reference phase, carried through it.) *)
From PyDBML Require Import PyStr Py Heap Classes Database Tools PP Actions Build Entry MonadFacts RuleFacts ContainerInv ContainerFull TableInv BuildInv BuildLinks BuildRules BuildDocs BuildRefs BuildSpell.
Import ListNotations.

Theorem build_database_tables s allow sq dq h0 h1 dd :
  WW h0 -> (forall t tb, h_table h0 t = Some tb -> NoDup (names_of tb)) -> Forall good_table_bp (ps_tables s) ->
  build_database s allow sq dq h0 = (h1, Ok dd) ->
  (forall db t, h_database h1 dd = Some db -> In t (d_tables db) ->
     exists bp, In bp (ps_tables s) /\ keys_eq (bp_keys bp) h1 t /\ cols_named (bp_colnames bp) h1 t) /\
  (forall bp, In bp (ps_tables s) -> BpIn bp dd h1).
Proof.
  intros HW Hgood Hg H.
  destruct (Q_before_refs s allow sq dq h0 h1 dd HW Hgood Hg H) as (he & HQ & Hrun).
  assert (Hdd : dd = length h0) by (destruct (build_database_runs _ _ _ _ _ _ _ H) as (? & ? & ? & ? & ? & E & _); exact E). subst dd.
  assert (K : keeps (Q (flat_map bp_keys (ps_tables s)) (ps_tables s) (length h0)) (iterM (rstep (length h0)) (ps_refs s))).
  { apply keeps_iterM_in. intros bp _. unfold rstep.
    exact (keepsQ_nontable _ _ _ (build_reference (length h0)) bp KRef (gR_build_reference _ bp) (post_build_reference _ bp) ltac:(discriminate)). }
  pose proof (K _ _ _ HQ Hrun) as ((_ & _ & HT) & HA). split; [exact HT|exact HA].
Qed.

Theorem parser_parse_tables source allow sq dq h0 h1 d :
  WW h0 -> (forall t tb, h_table h0 t = Some tb -> NoDup (names_of tb)) ->
  (forall st, blueprints_of source allow h0 = (h0, Ok st) -> Forall good_table_bp (ps_tables st)) ->
  parser_parse source allow sq dq h0 = (h1, Ok d) ->
  exists st, blueprints_of source allow h0 = (h0, Ok st) /\
    (forall db t, h_database h1 d = Some db -> In t (d_tables db) ->
       exists bp, In bp (ps_tables st) /\ keys_eq (bp_keys bp) h1 t /\ cols_named (bp_colnames bp) h1 t) /\
    (forall bp, In bp (ps_tables st) -> BpIn bp d h1).
Proof.
  intros HW Hgood Hbp H. unfold parser_parse in H. apply bindM_inv in H as [[e [_ H]]|[st [hx [H1 H2]]]]; [discriminate H|].
  pose proof (ro_blueprints_of _ _ _ _ _ H1) as ->.
  exists st. split; [exact H1|]. exact (build_database_tables _ _ _ _ _ _ _ HW Hgood (Hbp st H1) H2).
Qed.
