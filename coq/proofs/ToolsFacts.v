(* ToolsFacts.v — lemmas about the text helpers (model/Tools.v). *)
From PyDBML Require Import PyStr Py Tools.
From Coq Require Import Lia.
Import ListNotations.

Lemma mem_app c a b : mem c (a ++ b) = mem c a || mem c b.
Proof. induction a as [|x a IH]; cbn; [reflexivity|]. rewrite IH, orb_assoc. reflexivity. Qed.

Lemma mem_In c s : mem c s = true <-> In c s.
Proof.
  induction s as [|x s IH]; cbn; [split; [discriminate|tauto]|].
  rewrite orb_true_iff, IH, N.eqb_eq. split; intros [H|H]; auto.
Qed.

Lemma mem_false_notin c s : mem c s = false <-> ~ In c s.
Proof. rewrite <- mem_In. destruct (mem c s); split; congruence. Qed.

(* replacing every c by a text without c leaves no c *)
Lemma replace_c_removes c new s : mem c new = false -> mem c (replace_c c new s) = false.
Proof.
  intros Hn. induction s as [|x s IH]; cbn; [reflexivity|].
  destruct (N.eqb x c) eqn:E.
  - rewrite mem_app, Hn, IH. reflexivity.
  - cbn. rewrite IH. rewrite N.eqb_sym, E. reflexivity.
Qed.

(* C13 (SQL clause): the text put between single quotes in COMMENT ON never contains one *)
Lemma prepare_text_for_sql_no_quote t : mem cSQ (prepare_text_for_sql t) = false.
Proof. unfold prepare_text_for_sql. apply replace_c_removes. reflexivity. Qed.

(* ---- comment: every produced line carries the prefix ---- *)
Lemma split_on_nonempty c s : split_on c s <> [].
Proof. destruct s as [|x r]; cbn; [discriminate|]. destruct (N.eqb x c); [discriminate|].
  destruct (split_on c r); discriminate. Qed.

Lemma split_on_no_sep c s : Forall (fun l => mem c l = false) (split_on c s).
Proof.
  induction s as [|x r IH]; cbn.
  - constructor; [reflexivity|constructor].
  - destruct (N.eqb x c) eqn:E.
    + constructor; [reflexivity|exact IH].
    + destruct (split_on c r) as [|l ls]; [repeat constructor; cbn; rewrite N.eqb_sym, E; reflexivity|].
      inversion IH as [|? ? Hl Hls]; subst. constructor; [|exact Hls].
      cbn. rewrite N.eqb_sym, E. exact Hl.
Qed.

Lemma split_on_join c s : join [c] (split_on c s) = s.
Proof.
  induction s as [|x r IH]; cbn; [reflexivity|].
  destruct (N.eqb x c) eqn:E.
  - apply N.eqb_eq in E. subst x.
    destruct (split_on c r) as [|l ls] eqn:S; [exfalso; eapply split_on_nonempty; eauto|].
    change (join [c] ([] :: l :: ls)) with ([] ++ [c] ++ join [c] (l :: ls)).
    rewrite IH. reflexivity.
  - destruct (split_on c r) as [|l ls] eqn:S; [exfalso; eapply split_on_nonempty; eauto|].
    destruct ls; cbn in *; rewrite <- IH; reflexivity.
Qed.

(* split of a join of separator-free pieces gives the pieces back *)
Lemma split_on_of_join c ls :
  ls <> [] -> Forall (fun l => mem c l = false) ls -> split_on c (join [c] ls) = ls.
Proof.
  induction ls as [|l ls IH]; [congruence|]. intros _ HF.
  inversion HF as [|? ? Hl Hls]; subst.
  assert (Hpre : forall tl, split_on c (l ++ c :: tl) = l :: split_on c tl).
  { clear - Hl. induction l as [|x l IH]; intros tl; cbn.
    - rewrite N.eqb_refl. reflexivity.
    - cbn in Hl. apply orb_false_iff in Hl as [Hx Hl]. rewrite N.eqb_sym, Hx.
      rewrite IH by exact Hl. reflexivity. }
  destruct ls as [|l2 ls].
  - cbn. clear - Hl. induction l as [|x l IH]; cbn; [reflexivity|].
    cbn in Hl. apply orb_false_iff in Hl as [Hx Hl]. rewrite N.eqb_sym, Hx, IH by exact Hl. reflexivity.
  - change (join [c] (l :: l2 :: ls)) with (l ++ [c] ++ join [c] (l2 :: ls)).
    cbn [app]. rewrite Hpre. f_equal. apply IH; [discriminate|exact Hls].
Qed.

(* The lines of [comment v comb] (its text minus the final newline) are exactly the lines
   of v, each prefixed with comb and a blank: nothing of v can start a line of its own. *)
Lemma comment_lines v comb :
  mem cLF comb = false ->
  exists body, comment v comb = body ++ [cLF] /\
    split_on cLF body = map (fun cl => comb ++ cSP :: cl) (split_on cLF v).
Proof.
  intros Hc. unfold comment. eexists; split; [reflexivity|].
  apply split_on_of_join.
  - intro H. apply map_eq_nil in H. eapply split_on_nonempty; eauto.
  - apply Forall_forall. intros l Hin. apply in_map_iff in Hin as [cl [<- Hcl]].
    rewrite mem_app, Hc. cbn.
    pose proof (split_on_no_sep cLF v) as HF. rewrite Forall_forall in HF. exact (HF _ Hcl).
Qed.
