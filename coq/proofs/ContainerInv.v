(* ContainerInv.v — C09: the list / name-index / back-pointer invariant of a Database's tables, preserved by
   every add_table and delete_table (successful or rejected), by induction over arbitrary histories;
   under the invariant delete_table never takes the KeyError path of defect D6. *)
From PyDBML Require Import PyStr Py Heap Classes Database MonadFacts RuleFacts.
From Coq Require Import Lia.
Import ListNotations.

(* ====================== part 1 ====================== *)

(* ---- heap frame lemmas ---- *)
Lemma nth_replace_same {A} n (v : A) l : n < length l -> nth_error (replace_nth n v l) n = Some v.
Proof. revert n. induction l as [|x l IH]; intros [|n] H; cbn in *; try lia; [reflexivity|apply IH; lia]. Qed.

Lemma nth_replace_other {A} n m (v : A) l : n <> m -> nth_error (replace_nth n v l) m = nth_error l m.
Proof.
  revert n m. induction l as [|x l IH]; intros [|n] [|m] H; cbn; try reflexivity; try congruence. apply IH. congruence.
Qed.

Lemma nth_some_lt {A} (l : list A) n x : nth_error l n = Some x -> n < length l.
Proof. intros H. apply nth_error_Some. congruence. Qed.

Lemma h_table_lt h t tb : h_table h t = Some tb -> t < length h.
Proof. unfold h_table. destruct (nth_error h t) eqn:E; [|discriminate]. intros _. eapply nth_some_lt; eauto. Qed.
Lemma h_database_lt h t tb : h_database h t = Some tb -> t < length h.
Proof. unfold h_database. destruct (nth_error h t) eqn:E; [|discriminate]. intros _. eapply nth_some_lt; eauto. Qed.

Lemma h_table_store_table h o x t : o < length h ->
  h_table (replace_nth o (OTable x) h) t = if Nat.eqb o t then Some x else h_table h t.
Proof.
  intros Hl. unfold h_table. destruct (Nat.eqb o t) eqn:E.
  - apply Nat.eqb_eq in E. subst t. rewrite nth_replace_same by exact Hl. reflexivity.
  - apply Nat.eqb_neq in E. rewrite nth_replace_other by exact E. reflexivity.
Qed.

Lemma h_table_store_db h d x t : h_database h d <> None ->
  h_table (replace_nth d (ODatabase x) h) t = h_table h t.
Proof.
  intros Hd. unfold h_table. destruct (Nat.eq_dec d t) as [->|Hn].
  - unfold h_database in Hd. destruct (nth_error h t) as [[]|] eqn:E; try congruence.
    rewrite nth_replace_same by (eapply nth_some_lt; eauto). reflexivity.
  - rewrite nth_replace_other by exact Hn. reflexivity.
Qed.

Lemma h_database_store_db h d x : d < length h -> h_database (replace_nth d (ODatabase x) h) d = Some x.
Proof. intros H. unfold h_database. rewrite nth_replace_same by exact H. reflexivity. Qed.

Lemma h_database_store_table h o x d : h_table h o <> None ->
  h_database (replace_nth o (OTable x) h) d = h_database h d.
Proof.
  intros Ho. unfold h_database. destruct (Nat.eq_dec o d) as [->|Hn].
  - unfold h_table in Ho. destruct (nth_error h d) as [[]|] eqn:E; try congruence.
    rewrite nth_replace_same by (eapply nth_some_lt; eauto). reflexivity.
  - rewrite nth_replace_other by exact Hn. reflexivity.
Qed.

Lemma length_replace_nth {A} n (v : A) l : length (replace_nth n v l) = length l.
Proof. revert n. induction l as [|x l IH]; intros [|n]; cbn; try reflexivity; f_equal; apply IH. Qed.

(* ---- dictionaries ---- *)
Lemma str_eqb_refl (s : pystr) : str_eqb s s = true.
Proof. induction s as [|x s IH]; [reflexivity|]. cbn. rewrite N.eqb_refl. exact IH. Qed.

Lemma str_eqb_eq (a b : pystr) : str_eqb a b = true <-> a = b.
Proof.
  revert b. induction a as [|x a IH]; intros [|y b]; cbn; split; intros H; try reflexivity; try discriminate.
  - apply andb_true_iff in H as [H1 H2]. apply N.eqb_eq in H1. apply IH in H2. subst. reflexivity.
  - inversion H; subst. rewrite N.eqb_refl. apply IH. reflexivity.
Qed.

Lemma str_eqb_neq (a b : pystr) : a <> b -> str_eqb a b = false.
Proof. intros H. destruct (str_eqb a b) eqn:E; [apply str_eqb_eq in E; congruence|reflexivity]. Qed.

Lemma dict_get_set_same {V} (k : pystr) (v : V) d : dict_get k (dict_set k v d) = Some v.
Proof.
  induction d as [|[k' v'] d IH]; cbn; [rewrite str_eqb_refl; reflexivity|].
  destruct (str_eqb k k') eqn:E; cbn; rewrite E; [reflexivity|exact IH].
Qed.

Lemma dict_get_set_other {V} (k k2 : pystr) (v : V) d : k2 <> k -> dict_get k2 (dict_set k v d) = dict_get k2 d.
Proof.
  intros Hn. induction d as [|[k' v'] d IH]; cbn.
  - rewrite str_eqb_neq by exact Hn. reflexivity.
  - destruct (str_eqb k k') eqn:E; cbn.
    + apply str_eqb_eq in E. subst k'. rewrite str_eqb_neq by exact Hn. reflexivity.
    + destruct (str_eqb k2 k'); [reflexivity|exact IH].
Qed.

Lemma dict_get_remove_same {V} (k : pystr) (d : list (pystr * V)) :
  (forall k1 k2 v1 v2 a b c, d = a ++ (k1, v1) :: b ++ (k2, v2) :: c -> k1 <> k2) -> dict_get k (dict_remove k d) = None.
Proof.
  induction d as [|[k' v'] d IH]; intros Hu; [reflexivity|]. cbn.
  destruct (str_eqb k k') eqn:E.
  - apply str_eqb_eq in E. subst k'.
    (* k does not occur in d *)
    clear IH. induction d as [|[k2 v2] d IH2]; [reflexivity|]. cbn.
    destruct (str_eqb k k2) eqn:E2.
    + apply str_eqb_eq in E2. subst k2. exfalso. apply (Hu k k v' v2 [] [] d); reflexivity.
    + apply IH2. intros k1 k3 v1 v3 a b c Heq.
      destruct a as [|x a].
      * cbn in Heq. inversion Heq; subst. apply (Hu k1 k3 v1 v3 [] ((k2, v2) :: b) c). reflexivity.
      * cbn in Heq. inversion Heq; subst. apply (Hu k1 k3 v1 v3 ((k, v') :: (k2, v2) :: a) b c). reflexivity.
  - cbn. rewrite E. apply IH. intros k1 k2 v1 v2 a b c Heq. apply (Hu k1 k2 v1 v2 ((k', v') :: a) b c). cbn. f_equal. exact Heq.
Qed.

Lemma dict_get_remove_other {V} (k k2 : pystr) (d : list (pystr * V)) : k2 <> k -> dict_get k2 (dict_remove k d) = dict_get k2 d.
Proof.
  intros Hn. induction d as [|[k' v'] d IH]; [reflexivity|]. cbn.
  destruct (str_eqb k k') eqn:E.
  - apply str_eqb_eq in E. subst k'. rewrite str_eqb_neq by exact Hn. reflexivity.
  - cbn. destruct (str_eqb k2 k'); [reflexivity|exact IH].
Qed.

(* ====================== part 2 ====================== *)

Definition names_of (tb : table) : list pystr :=
  table_full_name tb :: (if truthy (t_alias tb) then [fstr (t_alias tb)] else []).

(* the part of the container state C09 speaks about for tables: list, name index, back-pointers *)
Record InvT (h : heap) (d : oid) (db : database) : Prop := {
  it_db : h_database h d = Some db;
  it_nodup : NoDup (d_tables db);
  it_keys : NoDup (map fst (d_table_dict db));
  it_good : forall t tb, h_table h t = Some tb -> NoDup (names_of tb);
  it_fwd : forall t, In t (d_tables db) ->
             exists tb, h_table h t = Some tb /\ t_database tb = Some d /\
                        forall k, In k (names_of tb) -> dict_get k (d_table_dict db) = Some t;
  it_bwd : forall k t, dict_get k (d_table_dict db) = Some t ->
             In t (d_tables db) /\ exists tb, h_table h t = Some tb /\ In k (names_of tb) }.

(* ---- dictionaries with unique keys ---- *)
Lemma dict_get_none_notin {V} (k : pystr) (d : list (pystr * V)) : dict_get k d = None <-> ~ In k (map fst d).
Proof.
  induction d as [|[k' v] d IH]; cbn; [tauto|]. destruct (str_eqb k k') eqn:E.
  - apply str_eqb_eq in E. subst. split; [discriminate|]. intros H. exfalso. apply H. left. reflexivity.
  - rewrite IH. split; [intros H [H1|H1]; [subst; rewrite str_eqb_refl in E; discriminate|tauto]|tauto].
Qed.

Lemma dict_set_keys {V} (k : pystr) (v : V) d :
  map fst (dict_set k v d) = if dict_has k d then map fst d else map fst d ++ [k].
Proof.
  unfold dict_has. induction d as [|[k' v'] d IH]; cbn; [reflexivity|].
  destruct (str_eqb k k') eqn:E; cbn; [reflexivity|]. rewrite IH. destruct (dict_get k d); reflexivity.
Qed.

Lemma NoDup_snoc {A} (l : list A) x : NoDup l -> ~ In x l -> NoDup (l ++ [x]).
Proof.
  induction l as [|y l IH]; cbn; intros H Hn; [constructor; [intros []|constructor]|].
  inversion H; subst. constructor.
  - intros Hin. apply in_app_or in Hin as [Hin|[<-|[]]]; [contradiction|]. apply Hn. left. reflexivity.
  - apply IH; [exact H3|]. intros Hin. apply Hn. right. exact Hin.
Qed.

Lemma dict_set_nodup {V} (k : pystr) (v : V) d : NoDup (map fst d) -> NoDup (map fst (dict_set k v d)).
Proof.
  intros H. rewrite dict_set_keys. unfold dict_has. destruct (dict_get k d) eqn:E; [exact H|].
  apply dict_get_none_notin in E. apply NoDup_snoc; assumption.
Qed.

Lemma dict_remove_keys_incl {V} (k : pystr) (d : list (pystr * V)) x : In x (map fst (dict_remove k d)) -> In x (map fst d).
Proof.
  induction d as [|[k' v] d IH]; cbn; [tauto|]. destruct (str_eqb k k'); cbn; [tauto|]. intros [H|H]; [tauto|right; apply IH; exact H].
Qed.

Lemma dict_remove_nodup {V} (k : pystr) (d : list (pystr * V)) : NoDup (map fst d) -> NoDup (map fst (dict_remove k d)).
Proof.
  induction d as [|[k' v] d IH]; cbn; intros H; [constructor|]. inversion H; subst.
  destruct (str_eqb k k'); cbn; [exact H3|]. constructor; [|apply IH; exact H3].
  intros Hin. apply H2. eapply dict_remove_keys_incl; eauto.
Qed.

Lemma dict_get_remove_same' {V} (k : pystr) (d : list (pystr * V)) : NoDup (map fst d) -> dict_get k (dict_remove k d) = None.
Proof.
  induction d as [|[k' v] d IH]; cbn; intros H; [reflexivity|]. inversion H; subst.
  destruct (str_eqb k k') eqn:E.
  - apply str_eqb_eq in E. subst k'. apply dict_get_none_notin. exact H2.
  - cbn. rewrite E. apply IH. exact H3.
Qed.

(* ---- table_eqb: equal tables have equal names ---- *)
Lemma ostr_eqb_eq (a b : option pystr) : ostr_eqb a b = true -> a = b.
Proof. destruct a, b; cbn; intros H; try discriminate; [apply str_eqb_eq in H; subst|]; reflexivity. Qed.

Lemma table_eqb_names h a b ta tb : h_table h a = Some ta -> h_table h b = Some tb -> table_eqb h a b = true ->
  names_of ta = names_of tb.
Proof.
  intros Ha Hb. unfold table_eqb. destruct (Nat.eqb a b) eqn:E.
  - apply Nat.eqb_eq in E. subst b. rewrite Ha in Hb. inversion Hb; subst. reflexivity.
  - cbn [orb]. rewrite Ha, Hb. intros H.
    apply andb_true_iff in H as [H _]. apply andb_true_iff in H as [H _]. apply andb_true_iff in H as [H _].
    apply andb_true_iff in H as [H _]. apply andb_true_iff in H as [H _]. apply andb_true_iff in H as [H Hal].
    apply andb_true_iff in H as [H _]. apply andb_true_iff in H as [H _]. apply andb_true_iff in H as [Hn Hs].
    apply ostr_eqb_eq in Hn. apply ostr_eqb_eq in Hs. apply ostr_eqb_eq in Hal.
    unfold names_of, table_full_name. rewrite Hn, Hs, Hal. reflexivity.
Qed.

Lemma list_has_false_notin h o l : list_has (table_eqb h) o l = false -> ~ In o l.
Proof.
  unfold list_has. intros H Hin. assert (existsb (table_eqb h o) l = true); [|congruence].
  apply existsb_exists. exists o. split; [exact Hin|]. unfold table_eqb. rewrite Nat.eqb_refl. reflexivity.
Qed.

Lemma index_of_spec {A} (p : A -> bool) l n : index_of p l = Some n -> exists x, nth_error l n = Some x /\ p x = true.
Proof.
  revert n. induction l as [|x l IH]; intros n H; [discriminate|]. cbn in H. destruct (p x) eqn:E.
  - inversion H; subst. exists x. auto.
  - destruct (index_of p l) as [m|]; [|discriminate]. inversion H; subst. apply IH. reflexivity.
Qed.

Lemma In_remove_nth {A} (l : list A) n x y : NoDup l -> nth_error l n = Some y ->
  (In x (remove_nth n l) <-> In x l /\ x <> y).
Proof.
  revert n. induction l as [|a l IH]; intros n Hnd Hn; [destruct n; discriminate|].
  inversion Hnd; subst. destruct n as [|n]; cbn in *.
  - inversion Hn; subst. split; [intros H; split; [right; exact H|intros ->; contradiction]|intros [[->|H] Hne]; [congruence|exact H]].
  - rewrite (IH n H2 Hn). split.
    + intros [->|[H Hne]]; [split; [left; reflexivity|intros ->; apply H1; eapply nth_error_In; eauto]|split; [right; exact H|exact Hne]].
    + intros [[->|H] Hne]; [left; reflexivity|right; split; assumption].
Qed.

Lemma NoDup_remove_nth {A} (l : list A) n : NoDup l -> NoDup (remove_nth n l).
Proof.
  revert n. induction l as [|a l IH]; intros n H; [destruct n; constructor|]. inversion H; subst.
  destruct n; cbn; [exact H3|]. constructor; [|apply IH; exact H3].
  intros Hin. apply H2. clear - Hin. revert n Hin. induction l as [|b l IH]; intros n Hin; [destruct n; destruct Hin|].
  destruct n; cbn in Hin; [right; exact Hin|]. destruct Hin as [->|Hin]; [left; reflexivity|right; eapply IH; eauto].
Qed.

(* ====================== part 3 ====================== *)

Lemma lookup_ok h o ob : nth_error h o = Some ob -> lookup o h = (h, Ok ob).
Proof. unfold lookup. intros ->. reflexivity. Qed.

Lemma set_db_table h o t v : h_table h o = Some t ->
  set_obj_database o v h = (replace_nth o (OTable (set_t_database v t)) h, Ok tt).
Proof.
  unfold h_table. destruct (nth_error h o) as [[]|] eqn:E; try discriminate. intros H. inversion H; subst.
  unfold set_obj_database, bindM. rewrite (lookup_ok _ _ _ E). reflexivity.
Qed.

Lemma upd_db_ok h d db f : h_database h d = Some db -> upd_db d f h = (replace_nth d (ODatabase (f db)) h, Ok tt).
Proof. intros H. unfold upd_db, bindM. rewrite (get_database_ok _ _ _ H). reflexivity. Qed.

Definition add_table_dict (t : table) (o : oid) (td : list (pystr * oid)) : list (pystr * oid) :=
  let td1 := dict_set (table_full_name t) o td in
  if truthy (t_alias t) then dict_set (fstr (t_alias t)) o td1 else td1.

Lemma db_add_table_success h d db o t :
  h_database h d = Some db -> h_table h o = Some t ->
  list_has (table_eqb h) o (d_tables db) = false ->
  dict_has (table_full_name t) (d_table_dict db) = false ->
  (truthy (t_alias t) && dict_has (fstr (t_alias t)) (d_table_dict db)) = false ->
  db_add_table d o h =
    (replace_nth d (ODatabase (db_with_tables (d_tables db ++ [o]) (add_table_dict t o (d_table_dict db)) db))
                 (replace_nth o (OTable (set_t_database (Some d) t)) h), Ok tt).
Proof.
  intros Hd Ht H1 H2 H3. unfold db_add_table, bindM.
  rewrite (get_database_ok _ _ _ Hd), (get_table_ok _ _ _ Ht). cbv beta iota. unfold get_heap. cbv beta iota.
  rewrite H1, H2, H3. rewrite (set_db_table _ _ _ _ Ht). cbv beta iota.
  assert (Hd' : h_database (replace_nth o (OTable (set_t_database (Some d) t)) h) d = Some db).
  { rewrite h_database_store_table; [exact Hd|congruence]. }
  rewrite (upd_db_ok _ _ _ _ Hd'). reflexivity.
Qed.

Lemma names_set_db v t : names_of (set_t_database v t) = names_of t.
Proof. reflexivity. Qed.

Lemma dict_has_false {V} (k : pystr) (d : list (pystr * V)) : dict_has k d = false -> dict_get k d = None.
Proof. unfold dict_has. destruct (dict_get k d); [discriminate|reflexivity]. Qed.

(* lookups in the name index after add_table *)
Lemma add_table_dict_get_new t o td k : In k (names_of t) -> dict_get k (add_table_dict t o td) = Some o.
Proof.
  unfold add_table_dict, names_of. destruct (truthy (t_alias t)) eqn:E.
  - intros [<-|[<-|[]]].
    + destruct (list_eq_dec N.eq_dec (table_full_name t) (fstr (t_alias t))) as [Heq|Hne].
      * rewrite Heq. apply dict_get_set_same.
      * rewrite dict_get_set_other by exact Hne. apply dict_get_set_same.
    + apply dict_get_set_same.
  - intros [<-|[]]. apply dict_get_set_same.
Qed.

Lemma add_table_dict_get_old t o td k : ~ In k (names_of t) -> dict_get k (add_table_dict t o td) = dict_get k td.
Proof.
  unfold add_table_dict, names_of. intros Hn. destruct (truthy (t_alias t)) eqn:E.
  - rewrite dict_get_set_other by (intros ->; apply Hn; right; left; reflexivity).
    rewrite dict_get_set_other by (intros ->; apply Hn; left; reflexivity). reflexivity.
  - rewrite dict_get_set_other by (intros ->; apply Hn; left; reflexivity). reflexivity.
Qed.

Lemma add_table_dict_nodup t o td : NoDup (map fst td) -> NoDup (map fst (add_table_dict t o td)).
Proof. intros H. unfold add_table_dict. destruct (truthy (t_alias t)); repeat apply dict_set_nodup; exact H. Qed.

Theorem add_table_preserves h d db o t :
  InvT h d db -> h_table h o = Some t ->
  list_has (table_eqb h) o (d_tables db) = false ->
  dict_has (table_full_name t) (d_table_dict db) = false ->
  (truthy (t_alias t) && dict_has (fstr (t_alias t)) (d_table_dict db)) = false ->
  let db' := db_with_tables (d_tables db ++ [o]) (add_table_dict t o (d_table_dict db)) db in
  let h' := replace_nth d (ODatabase db') (replace_nth o (OTable (set_t_database (Some d) t)) h) in
  InvT h' d db'.
Proof.
  intros I Ht H1 H2 H3 db' h'. destruct I as [Idb Ind Ik Ig If Ib].
  assert (Hlo : o < length h) by (eapply h_table_lt; eauto).
  assert (Hld : d < length h) by (eapply h_database_lt; eauto).
  assert (Hno : ~ In o (d_tables db)) by (eapply list_has_false_notin; eauto).
  set (h1 := replace_nth o (OTable (set_t_database (Some d) t)) h) in *.
  assert (Hdb1 : h_database h1 d <> None) by (unfold h1; rewrite h_database_store_table; congruence).
  assert (HT : forall x, h_table h' x = if Nat.eqb o x then Some (set_t_database (Some d) t) else h_table h x).
  { intros x. unfold h'. rewrite h_table_store_db by exact Hdb1. unfold h1. apply h_table_store_table. exact Hlo. }
  (* names of the new table are not keys of the old index *)
  assert (Hfresh : forall k, In k (names_of t) -> dict_get k (d_table_dict db) = None).
  { intros k Hk. unfold names_of in Hk. destruct Hk as [<-|Hk]; [apply dict_has_false; exact H2|].
    destruct (truthy (t_alias t)) eqn:E; [|destruct Hk]. destruct Hk as [<-|[]]. cbn in H3. apply dict_has_false. exact H3. }
  constructor.
  - unfold h'. apply h_database_store_db. unfold h1. rewrite length_replace_nth. exact Hld.
  - cbn. apply NoDup_snoc; assumption.
  - cbn. apply add_table_dict_nodup. exact Ik.
  - intros x tb Hx. rewrite HT in Hx. destruct (Nat.eqb o x); [inversion Hx; subst; rewrite names_set_db; eapply Ig; eauto|eapply Ig; eauto].
  - intros x Hx. cbn in Hx. apply in_app_or in Hx as [Hx|[<-|[]]].
    + destruct (If x Hx) as [tb [Htb [Hdbp Hnames]]]. exists tb.
      assert (Nat.eqb o x = false) by (apply Nat.eqb_neq; intros ->; contradiction).
      rewrite HT, H. split; [exact Htb|]. split; [exact Hdbp|].
      intros k Hk. cbn. rewrite add_table_dict_get_old; [apply Hnames; exact Hk|].
      intros Hin. specialize (Hnames k Hk). rewrite (Hfresh k Hin) in Hnames. discriminate Hnames.
    + exists (set_t_database (Some d) t). rewrite HT, Nat.eqb_refl. split; [reflexivity|]. split; [reflexivity|].
      intros k Hk. cbn. apply add_table_dict_get_new. exact Hk.
  - intros k x Hg. cbn in Hg.
    destruct (in_dec (list_eq_dec N.eq_dec) k (names_of t)) as [Hin|Hnin].
    + rewrite add_table_dict_get_new in Hg by exact Hin. inversion Hg; subst x.
      split; [cbn; apply in_or_app; right; left; reflexivity|].
      exists (set_t_database (Some d) t). rewrite HT, Nat.eqb_refl. split; [reflexivity|exact Hin].
    + rewrite add_table_dict_get_old in Hg by exact Hnin. destruct (Ib k x Hg) as [Hx [tb [Htb Hk]]].
      split; [cbn; apply in_or_app; left; exact Hx|]. exists tb.
      assert (Nat.eqb o x = false) by (apply Nat.eqb_neq; intros ->; contradiction).
      rewrite HT, H. auto.
Qed.

(* ====================== part 4 ====================== *)

Lemma replace_replace_same {A} n (v w : A) l : replace_nth n v (replace_nth n w l) = replace_nth n v l.
Proof. revert n. induction l as [|x l IH]; intros [|n]; cbn; try reflexivity. f_equal. apply IH. Qed.

Lemma replace_comm {A} n m (v w : A) l : n <> m -> replace_nth n v (replace_nth m w l) = replace_nth m w (replace_nth n v l).
Proof.
  revert n m. induction l as [|x l IH]; intros [|n] [|m] H; cbn; try reflexivity; try congruence. f_equal. apply IH. congruence.
Qed.

Definition del_table_dict (t : table) (td : list (pystr * oid)) : list (pystr * oid) :=
  let td1 := dict_remove (table_full_name t) td in
  if truthy (t_alias t) then dict_remove (fstr (t_alias t)) td1 else td1.

Lemma del_table_dict_get_removed t td k : NoDup (map fst td) -> In k (names_of t) -> dict_get k (del_table_dict t td) = None.
Proof.
  intros Hnd. unfold del_table_dict, names_of. destruct (truthy (t_alias t)) eqn:E.
  - intros [<-|[<-|[]]].
    + destruct (list_eq_dec N.eq_dec (table_full_name t) (fstr (t_alias t))) as [Heq|Hne].
      * rewrite Heq. apply dict_get_remove_same'. apply dict_remove_nodup. exact Hnd.
      * rewrite dict_get_remove_other by exact Hne. apply dict_get_remove_same'. exact Hnd.
    + apply dict_get_remove_same'. apply dict_remove_nodup. exact Hnd.
  - intros [<-|[]]. apply dict_get_remove_same'. exact Hnd.
Qed.

Lemma del_table_dict_get_other t td k : ~ In k (names_of t) -> dict_get k (del_table_dict t td) = dict_get k td.
Proof.
  unfold del_table_dict, names_of. intros Hn. destruct (truthy (t_alias t)) eqn:E.
  - rewrite dict_get_remove_other by (intros ->; apply Hn; right; left; reflexivity).
    rewrite dict_get_remove_other by (intros ->; apply Hn; left; reflexivity). reflexivity.
  - rewrite dict_get_remove_other by (intros ->; apply Hn; left; reflexivity). reflexivity.
Qed.

Lemma del_table_dict_nodup t td : NoDup (map fst td) -> NoDup (map fst (del_table_dict t td)).
Proof. intros H. unfold del_table_dict. destruct (truthy (t_alias t)); repeat apply dict_remove_nodup; exact H. Qed.

Lemma list_index_spec h o l n : list_index (table_eqb h) o l = Some n ->
  exists p, nth_error l n = Some p /\ table_eqb h o p = true.
Proof. unfold list_index. apply index_of_spec. Qed.

Lemma names_of_inj a b : names_of a = names_of b ->
  table_full_name a = table_full_name b /\ truthy (t_alias a) = truthy (t_alias b)
  /\ (truthy (t_alias a) = true -> fstr (t_alias a) = fstr (t_alias b)).
Proof.
  unfold names_of. destruct (truthy (t_alias a)) eqn:Ea, (truthy (t_alias b)) eqn:Eb; intros H; inversion H; subst; auto.
  repeat split; auto. discriminate.
Qed.

(* the state after a successful delete_table *)
Definition del_db (db : database) (n : nat) (ptb : table) : database :=
  db_with_tables (remove_nth n (d_tables db)) (del_table_dict ptb (d_table_dict db)) db.
Definition del_heap (h : heap) (d p : oid) (db' : database) (ptb : table) : heap :=
  replace_nth d (ODatabase db') (replace_nth p (OTable (set_t_database None ptb)) h).

Lemma delete_table_success h d db o t n p ptb :
  InvT h d db -> h_table h o = Some t ->
  list_index (table_eqb h) o (d_tables db) = Some n -> nth_error (d_tables db) n = Some p ->
  h_table h p = Some ptb -> names_of t = names_of ptb ->
  db_delete_table d o h = (del_heap h d p (del_db db n ptb) ptb, Ok p).
Proof.
  intros I Ht Ei Hp Hptb Hnm. pose proof I as [Idb Ind Ik Ig If Ib].
  assert (Hpin : In p (d_tables db)) by (eapply nth_error_In; eauto).
  destruct (If p Hpin) as [ptb0 [Hptb0 [Hpdb Hpnames]]]. rewrite Hptb in Hptb0. inversion Hptb0; subst ptb0. clear Hptb0.
  assert (Hld : d < length h) by (eapply h_database_lt; eauto).
  assert (Hlp : p < length h) by (eapply h_table_lt; eauto).
  assert (Hpd : p <> d).
  { intros ->. unfold h_table in Hptb. unfold h_database in Idb. destruct (nth_error h d) as [[]|]; discriminate. }
  unfold db_delete_table, bindM. rewrite (get_database_ok _ _ _ Idb), (get_table_ok _ _ _ Ht).
  cbv beta iota. unfold get_heap. cbv beta iota. rewrite Ei, Hp.
  set (dbA := db_with_tables (remove_nth n (d_tables db)) (d_table_dict db) db).
  rewrite (upd_db_ok _ _ _ _ Idb). cbv beta iota. fold dbA.
  set (hA := replace_nth d (ODatabase dbA) h).
  assert (HptbA : h_table hA p = Some ptb) by (unfold hA; rewrite h_table_store_db; [exact Hptb|congruence]).
  rewrite (set_db_table _ _ _ _ HptbA). cbv beta iota.
  set (hB := replace_nth p (OTable (set_t_database None ptb)) hA).
  assert (HlpA : p < length hA) by (unfold hA; rewrite length_replace_nth; exact Hlp).
  assert (HtB : exists t', h_table hB o = Some t' /\ names_of t' = names_of ptb).
  { unfold hB. rewrite h_table_store_table by exact HlpA. destruct (Nat.eqb p o) eqn:E.
    - eexists. split; [reflexivity|]. apply names_set_db.
    - unfold hA. rewrite h_table_store_db by congruence. eauto. }
  destruct HtB as [t' [Ht' Hn']]. rewrite (get_table_ok _ _ _ Ht'). cbv beta iota.
  assert (HdB : h_database hB d = Some dbA).
  { unfold hB. rewrite h_database_store_table by congruence. unfold hA. apply h_database_store_db. exact Hld. }
  rewrite (get_database_ok _ _ _ HdB). cbv beta iota.
  destruct (names_of_inj _ _ Hn') as [Hfn [Htr Hal]].
  assert (Hg1 : dict_get (table_full_name t') (d_table_dict dbA) = Some p).
  { rewrite Hfn. apply Hpnames. left. reflexivity. }
  rewrite Hg1.
  set (dbC := db_with_tables (d_tables dbA) (dict_remove (table_full_name t') (d_table_dict dbA)) dbA).
  rewrite (upd_db_ok _ _ _ _ HdB). cbv beta iota. fold dbC.
  set (hC := replace_nth d (ODatabase dbC) hB).
  assert (HhB : hB = replace_nth d (ODatabase dbA) (replace_nth p (OTable (set_t_database None ptb)) h)).
  { unfold hB, hA. apply replace_comm. exact Hpd. }
  destruct (truthy (t_alias t')) eqn:Eal.
  - assert (HdC : h_database hC d = Some dbC).
    { unfold hC. apply h_database_store_db. unfold hB. rewrite length_replace_nth. unfold hA. rewrite length_replace_nth. exact Hld. }
    rewrite (get_database_ok _ _ _ HdC). cbv beta iota.
    assert (Hne : fstr (t_alias t') <> table_full_name t').
    { pose proof (Ig p ptb Hptb) as Hgood. unfold names_of in Hgood.
      assert (Etb : truthy (t_alias ptb) = true) by congruence. rewrite Etb in Hgood.
      inversion Hgood as [|? ? Hnotin _]; subst. rewrite (Hal eq_refl), Hfn. intros Heq. apply Hnotin. left. exact Heq. }
    assert (Hg2 : dict_get (fstr (t_alias t')) (d_table_dict dbC) = Some p).
    { cbn. rewrite dict_get_remove_other by exact Hne. rewrite (Hal eq_refl). apply Hpnames.
      unfold names_of. assert (Etb : truthy (t_alias ptb) = true) by congruence. rewrite Etb. right. left. reflexivity. }
    rewrite Hg2. rewrite (upd_db_ok _ _ _ _ HdC). cbv beta iota.
    unfold ret. f_equal. unfold del_heap, hC. rewrite HhB, !replace_replace_same. f_equal. f_equal.
    assert (Etb : truthy (t_alias ptb) = true) by congruence.
    unfold del_db, del_table_dict, dbC, dbA. cbn. rewrite Etb, Hfn, (Hal eq_refl). reflexivity.
  - unfold ret. f_equal. unfold del_heap, hC. rewrite HhB, !replace_replace_same. f_equal. f_equal.
    assert (Etb : truthy (t_alias ptb) = false) by congruence.
    unfold del_db, del_table_dict, dbC, dbA. cbn. rewrite Etb, Hfn. reflexivity.
Qed.

(* ====================== part 5 ====================== *)

Theorem delete_table_preserves h d db n p ptb :
  InvT h d db -> nth_error (d_tables db) n = Some p -> h_table h p = Some ptb ->
  let db' := del_db db n ptb in
  let h' := del_heap h d p db' ptb in
  InvT h' d db' /\ h_table h' p = Some (set_t_database None ptb) /\ ~ In p (d_tables db').
Proof.
  intros I Hp Hptb db' h'. pose proof I as [Idb Ind Ik Ig If Ib].
  assert (Hpin : In p (d_tables db)) by (eapply nth_error_In; eauto).
  destruct (If p Hpin) as [ptb0 [Hptb0 [Hpdb Hpnames]]]. rewrite Hptb in Hptb0. inversion Hptb0; subst ptb0. clear Hptb0.
  assert (Hld : d < length h) by (eapply h_database_lt; eauto).
  assert (Hlp : p < length h) by (eapply h_table_lt; eauto).
  set (h1 := replace_nth p (OTable (set_t_database None ptb)) h) in *.
  assert (Hdb1 : h_database h1 d <> None) by (unfold h1; rewrite h_database_store_table; congruence).
  assert (HT : forall x, h_table h' x = if Nat.eqb p x then Some (set_t_database None ptb) else h_table h x).
  { intros x. unfold h', del_heap. fold h1. rewrite h_table_store_db by exact Hdb1. unfold h1. apply h_table_store_table. exact Hlp. }
  assert (Hrem : forall x, In x (d_tables db') <-> In x (d_tables db) /\ x <> p).
  { intros x. unfold db', del_db. cbn. apply In_remove_nth; assumption. }
  (* a name of another contained table is not a name of the removed one *)
  assert (Hdisj : forall x tb k, In x (d_tables db) -> x <> p -> h_table h x = Some tb -> In k (names_of tb) -> ~ In k (names_of ptb)).
  { intros x tb k Hx Hne Htb Hk Hk2. destruct (If x Hx) as [tb0 [Htb0 [_ Hn0]]]. rewrite Htb in Htb0. inversion Htb0; subst tb0.
    specialize (Hn0 k Hk). specialize (Hpnames k Hk2). congruence. }
  split; [|split].
  - constructor.
    + unfold h', del_heap. apply h_database_store_db. rewrite length_replace_nth. exact Hld.
    + unfold db', del_db. cbn. apply NoDup_remove_nth. exact Ind.
    + unfold db', del_db. cbn. apply del_table_dict_nodup. exact Ik.
    + intros x tb Hx. rewrite HT in Hx. destruct (Nat.eqb p x); [inversion Hx; subst; rewrite names_set_db; eapply Ig; eauto|eapply Ig; eauto].
    + intros x Hx. apply Hrem in Hx as [Hx Hne]. destruct (If x Hx) as [tb [Htb [Hdbp Hnames]]]. exists tb.
      assert (Nat.eqb p x = false) by (apply Nat.eqb_neq; congruence). rewrite HT, H.
      split; [exact Htb|]. split; [exact Hdbp|]. intros k Hk. unfold db', del_db. cbn.
      rewrite del_table_dict_get_other; [apply Hnames; exact Hk|]. eapply Hdisj; eauto.
    + intros k x Hg. unfold db', del_db in Hg. cbn in Hg.
      destruct (in_dec (list_eq_dec N.eq_dec) k (names_of ptb)) as [Hin|Hnin].
      * rewrite del_table_dict_get_removed in Hg by assumption. discriminate Hg.
      * rewrite del_table_dict_get_other in Hg by exact Hnin. destruct (Ib k x Hg) as [Hx [tb [Htb Hk]]].
        assert (Hne : x <> p). { intros ->. rewrite Hptb in Htb. inversion Htb; subst. contradiction. }
        split; [apply Hrem; split; assumption|]. exists tb.
        assert (Nat.eqb p x = false) by (apply Nat.eqb_neq; congruence). rewrite HT, H. auto.
  - rewrite HT, Nat.eqb_refl. reflexivity.
  - intros Hin. apply Hrem in Hin as [_ Hne]. congruence.
Qed.

(* under the invariant delete_table either is rejected with the validation error (and changes nothing)
   or succeeds: the KeyError path of defect D6 is unreachable without renames *)
Theorem delete_table_total_under_invariant h d db o t :
  InvT h d db -> h_table h o = Some t ->
  db_delete_table d o h = (h, Raise EDatabaseValidation)
  \/ exists n p ptb, nth_error (d_tables db) n = Some p /\ h_table h p = Some ptb /\ table_eqb h o p = true /\
       db_delete_table d o h = (del_heap h d p (del_db db n ptb) ptb, Ok p).
Proof.
  intros I Ht. pose proof I as [Idb Ind Ik Ig If Ib].
  destruct (list_index (table_eqb h) o (d_tables db)) as [n|] eqn:Ei.
  - right. destruct (list_index_spec _ _ _ _ Ei) as [p [Hp Heq]].
    assert (Hpin : In p (d_tables db)) by (eapply nth_error_In; eauto).
    destruct (If p Hpin) as [ptb [Hptb _]]. exists n, p, ptb. repeat split; try assumption.
    eapply delete_table_success; eauto. eapply table_eqb_names; eauto.
  - left. unfold db_delete_table, bindM. rewrite (get_database_ok _ _ _ Idb), (get_table_ok _ _ _ Ht).
    cbv beta iota. unfold get_heap. cbv beta iota. rewrite Ei. reflexivity.
Qed.

(* ====================== part 6 ====================== *)

(* histories of add_table / delete_table on one database, over any universe of table objects *)
Inductive top := TAdd (o : oid) | TDel (o : oid).
Definition top_arg (op : top) : oid := match op with TAdd o | TDel o => o end.
Definition tstep (d : oid) (h : heap) (op : top) : heap :=
  match op with
  | TAdd o => fst (db_add_table d o h)
  | TDel o => fst (db_delete_table d o h)
  end.

Definition is_table (h : heap) (o : oid) : Prop := h_table h o <> None.

Lemma add_table_step h d db o t :
  InvT h d db -> h_table h o = Some t ->
  (db_add_table d o h = (h, Raise EDatabaseValidation))
  \/ (exists db' h', db_add_table d o h = (h', Ok tt) /\ InvT h' d db' /\ (forall x, is_table h x <-> is_table h' x)).
Proof.
  intros I Ht. pose proof I as [Idb _ _ _ _ _].
  destruct (list_has (table_eqb h) o (d_tables db)) eqn:E1.
  { left. unfold db_add_table, bindM. rewrite (get_database_ok _ _ _ Idb), (get_table_ok _ _ _ Ht).
    cbv beta iota. unfold get_heap. cbv beta iota. rewrite E1. reflexivity. }
  destruct (dict_has (table_full_name t) (d_table_dict db)) eqn:E2.
  { left. eapply add_table_name_clash; eauto. }
  destruct (truthy (t_alias t) && dict_has (fstr (t_alias t)) (d_table_dict db)) eqn:E3.
  { left. apply andb_true_iff in E3 as [Ea Eb]. eapply add_table_name_clash; eauto. }
  right. eexists. eexists. split; [apply db_add_table_success; eassumption|].
  split; [apply add_table_preserves; assumption|].
  intros x. unfold is_table.
  assert (Hlo : o < length h) by (eapply h_table_lt; eauto).
  rewrite h_table_store_db.
  - rewrite h_table_store_table by exact Hlo. destruct (Nat.eqb o x) eqn:E; [apply Nat.eqb_eq in E; subst x; split; congruence|tauto].
  - rewrite h_database_store_table; congruence.
Qed.

Lemma delete_table_step h d db o t :
  InvT h d db -> h_table h o = Some t ->
  (db_delete_table d o h = (h, Raise EDatabaseValidation))
  \/ (exists db' h' p, db_delete_table d o h = (h', Ok p) /\ InvT h' d db' /\ (forall x, is_table h x <-> is_table h' x)
        /\ (exists ptb, h_table h' p = Some ptb /\ t_database ptb = None) /\ ~ In p (d_tables db')).
Proof.
  intros I Ht. destruct (delete_table_total_under_invariant h d db o t I Ht) as [H|[n [p [ptb [Hp [Hptb [Heq Hrun]]]]]]]; [left; exact H|].
  right. destruct (delete_table_preserves h d db n p ptb I Hp Hptb) as [I' [Hpt Hnot]].
  eexists. eexists. exists p. split; [exact Hrun|]. split; [exact I'|]. split; [|split; [eexists; split; [exact Hpt|reflexivity]|exact Hnot]].
  intros x. unfold is_table, del_heap. pose proof I as [Idb _ _ _ _ _].
  assert (Hlp : p < length h) by (eapply h_table_lt; eauto).
  rewrite h_table_store_db.
  - rewrite h_table_store_table by exact Hlp. destruct (Nat.eqb p x) eqn:E; [apply Nat.eqb_eq in E; subst x; split; congruence|tauto].
  - rewrite h_database_store_table; congruence.
Qed.

(* C09, tables: after ANY sequence of add_table / delete_table calls (successful or rejected) on a state
   satisfying the invariant, the invariant holds again: list and name index describe the same set under
   the tables' names, members point back to the database, no table is listed twice *)
Theorem table_invariant_history d : forall ops h db,
  InvT h d db -> Forall (fun op => is_table h (top_arg op)) ops ->
  exists db', InvT (fold_left (tstep d) ops h) d db'.
Proof.
  induction ops as [|op ops IH]; intros h db I Hall; [exists db; exact I|].
  inversion Hall as [|? ? Harg Hrest]; subst. cbn [fold_left].
  unfold is_table in Harg. destruct (h_table h (top_arg op)) as [t|] eqn:Ht; [|congruence].
  destruct op as [o|o]; cbn [tstep top_arg] in *.
  - destruct (add_table_step h d db o t I Ht) as [H|[db' [h' [H [I' Hpres]]]]].
    + rewrite H. cbn [fst]. eapply IH; eauto.
    + rewrite H. cbn [fst]. eapply IH; [exact I'|]. eapply Forall_impl; [|exact Hrest]. intros a Ha. apply Hpres. exact Ha.
  - destruct (delete_table_step h d db o t I Ht) as [H|[db' [h' [p [H [I' [Hpres _]]]]]]].
    + rewrite H. cbn [fst]. eapply IH; eauto.
    + rewrite H. cbn [fst]. eapply IH; [exact I'|]. eapply Forall_impl; [|exact Hrest]. intros a Ha. apply Hpres. exact Ha.
Qed.

(* the invariant holds for a fresh database, whatever else the heap contains (non-vacuity and base case) *)
Lemma fresh_database_invariant h sq dq al :
  (forall t tb, h_table h t = Some tb -> NoDup (names_of tb)) ->
  let d := length h in
  let db := mkDatabase [] [] [] [] [] [] None al sq dq in
  InvT (h ++ [ODatabase db]) d db.
Proof.
  intros Hgood d db.
  assert (Hn : forall x, x < length h -> nth_error (h ++ [ODatabase db]) x = nth_error h x) by (intros; apply nth_error_app1; assumption).
  constructor.
  - unfold h_database, d. rewrite nth_error_app2 by lia. rewrite Nat.sub_diag. reflexivity.
  - constructor.
  - constructor.
  - intros t tb Ht. unfold h_table in Ht. destruct (Nat.lt_ge_cases t (length h)) as [Hl|Hl].
    + rewrite Hn in Ht by exact Hl. apply (Hgood t tb). exact Ht.
    + rewrite nth_error_app2 in Ht by exact Hl. destruct (t - length h) as [|[|k]]; cbn in Ht; discriminate.
  - intros t [].
  - intros k t H. discriminate H.
Qed.
