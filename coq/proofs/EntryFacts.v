(* EntryFacts.v — C12 (entry points) and C07(a): the whole input is consumed. *)
From PyDBML Require Import PyStr Py Heap Classes Database Tools PP Actions Build Entry GenClasses GenGrammar.
Import ListNotations.

(* number of leading byte-order marks <= 1 *)
Definition at_most_one_bom (s : pystr) : bool :=
  match s with
  | a :: b :: _ => negb (N.eqb a cBOM && N.eqb b cBOM)
  | _ => true
  end.

Lemma remove_bom_idem_one s : at_most_one_bom s = true -> remove_bom (remove_bom s) = remove_bom s.
Proof.
  destruct s as [|a [|b r]]; cbn [remove_bom at_most_one_bom]; intros H; try reflexivity.
  - destruct (N.eqb a cBOM) eqn:Ea; [reflexivity|]. cbn [remove_bom]. rewrite Ea. reflexivity.
  - destruct (N.eqb a cBOM) eqn:Ea; cbn in H.
    + destruct (N.eqb b cBOM) eqn:Eb; [discriminate H|]. cbn [remove_bom]. rewrite Eb. reflexivity.
    + cbn [remove_bom]. rewrite Ea. reflexivity.
Qed.

Section Routes.
  Variable fs : pystr -> option pystr.

  (* every route that takes options is PyDBML.parse on the text as read *)
  Lemma routes_with_options p s allow sq db :
    fs p = Some s -> at_most_one_bom s = true ->
    pydbml_new fs (SStr s) allow sq db = pydbml_parse s allow sq db
    /\ pydbml_new fs (SPath p) allow sq db = pydbml_parse s allow sq db
    /\ pydbml_new fs (SFile s) allow sq db = pydbml_parse s allow sq db.
  Proof.
    intros Hp Hb. unfold pydbml_new, pydbml_parse. rewrite Hp, (remove_bom_idem_one s Hb). repeat split; reflexivity.
  Qed.

  (* parse_file is the constructor with the default options *)
  Lemma parse_file_routes p s :
    fs p = Some s -> at_most_one_bom s = true ->
    pydbml_parse_file fs (SPath p) = pydbml_new fs (SStr s) false 0 1
    /\ pydbml_parse_file fs (SStr p) = pydbml_new fs (SStr s) false 0 1
    /\ pydbml_parse_file fs (SFile s) = pydbml_new fs (SStr s) false 0 1.
  Proof.
    intros Hp Hb. unfold pydbml_parse_file, pydbml_new, pydbml_parse. rewrite Hp, (remove_bom_idem_one s Hb). repeat split; reflexivity.
  Qed.

  (* a leading byte-order mark is ignored *)
  Lemma bom_ignored s allow sq db :
    match s with c :: _ => N.eqb c cBOM = false | [] => True end ->
    pydbml_parse (cBOM :: s) allow sq db = pydbml_parse s allow sq db.
  Proof.
    intros H. unfold pydbml_parse. cbn [remove_bom]. rewrite N.eqb_refl.
    destruct s as [|c r]; [reflexivity|]. cbn [remove_bom]. rewrite H. reflexivity.
  Qed.

  Lemma other_source_type allow sq db h : pydbml_new fs SOther allow sq db h = (h, Raise ETypeError).
  Proof. reflexivity. Qed.
End Routes.

(* ---- C07 (a): a database is returned only if the top-level match, followed by optional
   whitespace, reaches the end of the (tab-expanded) text ---- *)
Lemma parse_string_all env act src fuel top ws p r eff :
  parse_string env act src fuel top ws true = POk p r eff -> p_rest p = [].
Proof.
  unfold parse_string. destruct (run env act src fuel true top (pos_start src) true) as [p0 r0 e0| | | |]; try discriminate.
  destruct (p_rest (skip_ws ws _ _)) eqn:E; [|discriminate]. intros H. inversion H; subst. exact E.
Qed.

Lemma parse_all_is_on : gen_parse_all_off = true /\ gen_parse_all_on = true.
Proof. split; reflexivity. Qed.

Lemma parser_parse_consumes_everything source allow sq db h h' d :
  parser_parse source allow sq db h = (h', Ok d) ->
  exists p r eff,
    parse_string gen_env act (expandtabs source) (parse_fuel (expandtabs source))
                 (if allow then gen_top_on else gen_top_off) gen_default_whitespace true = POk p r eff
    /\ p_rest p = [].
Proof.
  unfold parser_parse, blueprints_of, bindM. destruct parse_all_is_on as [Hoff Hon].
  replace (if allow then gen_parse_all_on else gen_parse_all_off) with true by (destruct allow; congruence).
  destruct (parse_string gen_env act (expandtabs source) _ _ _ true) as [p r eff| | | |] eqn:E; try (cbn; discriminate).
  intros _. exists p, r, eff. split; [reflexivity|]. eapply parse_string_all; eauto.
Qed.

(* the top-level grammar ends with StringEnd in both option settings *)
Definition ends_with_string_end (e : pexpr) : bool :=
  match e_core e with
  | PAnd items => match rev items with
                  | IElem (PE PStringEnd _) :: _ => true
                  | _ => false
                  end
  | _ => false
  end.
Lemma top_ends_with_string_end : ends_with_string_end gen_top_off = true /\ ends_with_string_end gen_top_on = true.
Proof. split; reflexivity. Qed.
