(* IndexesC.v — C01, indexes followed from their blueprints to the returned database: each table of the parsed database lists —
   one per index blueprint of its table blueprint, in order — index objects with exactly the declared name, unique / pk flags,
   type and comment, pointing back to the table, whose subjects are, in order, the table's own column with the declared name or
   an expression object with the declared text. *)
From PyDBML Require Import PyStr Py Heap Classes Database Tools PP Actions Build Entry MonadFacts RuleFacts ContainerInv ContainerFull TableInv BuildInv BuildLinks BuildRules BuildDocs BuildRaises Frame Counts Sticky ColumnsC.
From Coq Require Import Lia.
Import ListNotations.

(* ---- the frame with the table under construction as the one exception below it ---- *)
Section TFRAME.
  Variables n t0 : nat.
  Lemma tk_upd_table f : tri n t0 (@T unit) (upd_table t0 f).
  Proof. unfold upd_table. eapply tri_bind; [tri_ro_tac|intros x _]. apply tri_store_k; [right; reflexivity|exact I]. Qed.
  Lemma tk_table_add_index i : n <= i -> tri n t0 (@T unit) (table_add_index t0 i).
  Proof.
    intros Hi. unfold table_add_index. eapply tri_bind; [tri_ro_tac|intros ob _]. destruct ob; try apply tri_raise.
    destruct (i_subjects _); [|apply tri_raise]. eapply tri_bind; [tri_ro_tac|intros h0 _].
    match goal with |- tri _ _ _ (if ?b then _ else _) => destruct b end; [|apply tri_raise].
    eapply tri_bind; [apply t_upd_index; exact Hi|intros _ _]. apply tk_upd_table.
  Qed.
  Lemma tk_subject_of s : tri n t0 (@T subject) (subject_of t0 s).
  Proof.
    unfold subject_of. destruct s; try apply tri_stuck.
    - eapply tri_bind; [tri_ro_tac|intros tb _]. eapply tri_bind; [tri_ro_tac|intros h0 _].
      match goal with |- tri _ _ _ (match ?x with _ => _ end) => destruct x end; [apply tri_ret; exact I|apply tri_raise].
    - repeat (match goal with |- tri _ _ _ (match ?x with _ => _ end) => destruct x end; try apply tri_stuck).
      all: eapply tri_bind; [apply t_new_expr|intros x _]; apply tri_ret; exact I.
  Qed.
  Lemma tk_idx_step ib : tri n t0 (@T unit) (idx_step t0 ib).
  Proof.
    unfold idx_step. eapply tri_bind; [apply t_build_index|intros i Hi].
    eapply tri_bind; [apply (tri_mapMM n t0 (@T subject)); intros s; apply tk_subject_of|intros subs _].
    eapply tri_bind; [apply t_upd_index; exact Hi|intros _ _]. apply tk_table_add_index. exact Hi.
  Qed.
  Lemma tk_idx_loop l : tri n t0 (@T unit) (iterM (idx_step t0) l).
  Proof. apply tri_iterM. intros ib. apply tk_idx_step. Qed.
End TFRAME.

(* later index steps of the same table leave everything but the table itself and new objects alone *)
Lemma idx_loop_frame t0 l h h' r : t0 < length h -> (exists tb, nth_error h t0 = Some (OTable tb)) ->
  iterM (idx_step t0) l h = (h', r) -> forall x, x < length h -> x <> t0 -> nth_error h' x = nth_error h x.
Proof.
  intros Lt (tb & Ht) H.
  assert (HJ : FJ (length h) t0 h).
  { split; [apply Nat.le_refl|]. intros i ob [Hi|Hi] Hn; [apply nth_some_lt in Hn; lia|]. subst i. rewrite Ht in Hn. inversion Hn. exact I. }
  destruct (tk_idx_loop (length h) t0 l _ _ _ HJ H) as (F & _). exact F.
Qed.

(* ---- inner objects (columns, indexes, notes, expressions, enum items) are not written by Database.add ---- *)
Definition inner (ob : obj) : Prop := match ob with OColumn _ | OIndex _ | ONote _ | OExpr _ | OEnumItem _ => True | _ => False end.
Definition Rin (h h' : heap) : Prop := forall x ob, inner ob -> nth_error h x = Some ob -> nth_error h' x = Some ob.
Lemma Rin_refl h : Rin h h. Proof. intros x ob _ H. exact H. Qed.
Lemma Rin_trans a b c : Rin a b -> Rin b c -> Rin a c. Proof. unfold Rin. eauto. Qed.
Lemma Rin_store_other h i v : (forall ob, nth_error h i = Some ob -> ~ inner ob) -> Rin h (replace_nth i v h).
Proof. intros Hn x ob Hi H. destruct (Nat.eq_dec i x) as [->|Ne]; [exfalso; eapply Hn; eauto|]. rewrite nth_replace_other by exact Ne. exact H. Qed.
Ltac rin_store Hrun Heq :=
  unfold bindM, lookup in Hrun;
  match type of Hrun with context [nth_error ?h ?i] => destruct (nth_error h i) as [ob|] eqn:Heq end;
  [|inversion Hrun; subst; apply Rin_refl].
Lemma gin_set_obj_database o v : guar Rin (set_obj_database o v).
Proof. intros h h' r H. unfold set_obj_database in H. rin_store H E. destruct ob; inversion H; subst; try apply Rin_refl; apply Rin_store_other; intros ob0 Hob; rewrite E in Hob; inversion Hob; subst; intros []. Qed.
Lemma gin_upd_db i f : guar Rin (upd_db i f).
Proof. intros h h' r H. unfold upd_db, get_database in H. rin_store H E. destruct ob; inversion H; subst; try apply Rin_refl. apply Rin_store_other. intros ob0 Hob. rewrite E in Hob. inversion Hob; subst. intros []. Qed.
Ltac gin :=
  repeat first [ apply gin_set_obj_database | apply gin_upd_db
               | apply (g_ro _ Rin_refl); solve [ro_any]
               | apply (g_bind _ Rin_trans); [|intros ?]
               | match goal with |- guar _ (match ?x with _ => _ end) => destruct x end
               | match goal with |- guar _ (if ?x then _ else _) => destruct x end ].
Lemma gin_db_add d o : guar Rin (db_add d o).
Proof.
  unfold db_add. apply (g_bind _ Rin_trans); [apply (g_ro _ Rin_refl), ro_lookup|intros ob].
  destruct ob; try (apply (g_ro _ Rin_refl), ro_raise).
  - unfold db_add_table. gin.
  - unfold db_add_reference. gin.
  - unfold db_add_enum. gin.
  - unfold db_add_sticky_note. gin.
  - unfold db_add_project, db_delete_project. gin.
  - unfold db_add_table_group. gin.
Qed.

(* ---- what an index blueprint declares, and what holds it ---- *)
Definition subj_holds (h : heap) (t : oid) (s : pyv) (sb : subject) : Prop :=
  match s with
  | PVStr nm => exists c cc, sb = SubCol c /\ nth_error h c = Some (OColumn cc) /\ c_name cc = Some nm /\ c_table cc = Some t
  | PVBlue 3 xd => exists x tx, sb = SubExpr x /\ dget (K "text") xd = Some (PVStr tx) /\ nth_error h x = Some (OExpr (mkExpr tx))
  | _ => False
  end.
Definition idx_holds (h : heap) (t : oid) (i : oid) (ib : pyv) : Prop :=
  exists ix idd subs, ib = PVBlue 6 idd /\ nth_error h i = Some (OIndex ix) /\
    i_name ix = or_none (fstr_of idd "name") /\ i_unique ix = fbool_of idd "unique" /\ i_type ix = fstr_of idd "type" /\
    i_pk ix = fbool_of idd "pk" /\ i_comment ix = fstr_of idd "comment" /\ i_table ix = Some t /\
    i_subjects ix = Some subs /\ Forall2 (subj_holds h t) (flist_of idd "subject_names") subs.

Lemma snp_keeps k p h h' r x ob : set_note_parent k p h = (h', r) -> (forall nn, ob <> ONote nn) -> nth_error h x = Some ob -> nth_error h' x = Some ob.
Proof.
  intros H Hn Hx. unfold set_note_parent, get_note, bindM, lookup in H. destruct (nth_error h k) as [o|] eqn:E; [|inversion H; subst; exact Hx].
  destruct o; inversion H; subst; try exact Hx. rewrite nth_replace_other; [exact Hx|]. intros ->. rewrite E in Hx. inversion Hx. eapply Hn; eauto.
Qed.

Lemma new_index_post_full s nm u ty pk nt c h h' i : new_index s nm u ty pk nt c h = (h', Ok i) ->
  exists n, nth_error h' i = Some (OIndex (mkIndex s None (or_none nm) u ty pk n c)) /\ length h <= i.
Proof.
  intros H. unfold new_index in H. apply bindM_inv in H as [[e [_ H]]|[n [h1 [H1 H]]]]; [discriminate H|].
  pose proof (Rext_len _ _ (gR_new_note_from _ _ _ _ H1)) as L1.
  unfold bindM at 1 in H. unfold alloc in H. cbv beta iota in H.
  apply bindM_inv in H as [[e [_ H]]|[u0 [h3 [H3 H]]]]; [discriminate H|]. inversion H; subst. exists n. split; [|exact L1].
  eapply (snp_keeps _ _ _ _ _ _ _ H3); [intros nn; discriminate|]. rewrite nth_error_app2 by lia. rewrite Nat.sub_diag. reflexivity.
Qed.

Lemma build_index_post_full ib h h' i : build_index ib h = (h', Ok i) ->
  exists idd n, ib = PVBlue 6 idd /\ length h <= i /\
    nth_error h' i = Some (OIndex (mkIndex (Some []) None (or_none (fstr_of idd "name")) (fbool_of idd "unique") (fstr_of idd "type") (fbool_of idd "pk") n (fstr_of idd "comment"))).
Proof.
  intros H. destruct ib as [| | | | | | |tag idd]; try (cbn in H; discriminate H).
  assert (T6 : tag = 6%N \/ build_index (PVBlue tag idd) h = (h, Raise (EStuck 408))).
  { destruct tag as [|p]; [right; reflexivity|]. destruct p as [q|q|]; [right; destruct q; reflexivity| |right; reflexivity].
    destruct q as [r0|r0|]; [|right; destruct r0; reflexivity|right; reflexivity]. destruct r0; [right; reflexivity|right; reflexivity|left; reflexivity]. }
  destruct T6 as [->|T6]; [|rewrite T6 in H; discriminate H].
  unfold build_index in H. apply bindM_inv in H as [[e [_ H]]|[nt [h1 [H1 H]]]]; [discriminate H|].
  unfold lift in H1. destruct (note_text_of idd "note"); inversion H1; subst.
  destruct (new_index_post_full _ _ _ _ _ _ _ _ _ _ H) as (n & Hn & L). exists idd, n. auto.
Qed.

(* one subject: the table's own column with that name, or a new expression with that text; only allocations *)
Definition subj_pre (h : heap) (t : oid) (s : pyv) (sb : subject) : Prop :=
  match s with
  | PVStr nm => exists c cc, sb = SubCol c /\ nth_error h c = Some (OColumn cc) /\ c_name cc = Some nm
  | PVBlue 3 xd => exists x tx, sb = SubExpr x /\ dget (K "text") xd = Some (PVStr tx) /\ nth_error h x = Some (OExpr (mkExpr tx))
  | _ => False
  end.
Lemma subject_of_post t s h h' sb : subject_of t s h = (h', Ok sb) -> (exists ext, h' = h ++ ext) /\ subj_pre h' t s sb.
Proof.
  intros H. unfold subject_of in H. destruct s as [nm| | | | | | |tag xd]; try discriminate H.
  - apply bindM_inv in H as [[e [_ H]]|[tb [h1 [H1 H]]]]; [discriminate H|]. pose proof (ro_get_table _ _ _ _ H1) as ->.
    unfold bindM, get_heap in H. cbv beta iota in H.
    match type of H with (match find ?f ?l with _ => _ end) _ = _ => destruct (find f l) as [c|] eqn:Ef; [|discriminate H] end.
    inversion H; subst. split; [exists []; rewrite app_nil_r; reflexivity|].
    apply find_some in Ef as [_ Ef]. unfold h_column in Ef. destruct (nth_error h' c) as [[]|] eqn:Ec; try discriminate Ef.
    exists c, c0. split; [reflexivity|]. split; [exact Ec|]. apply ostr_eqb_eq. exact Ef.
  - destruct (N.eq_dec tag 3) as [->|Nk].
    + destruct (dget (K "text") xd) as [[tx| | | | | | |]|] eqn:Ed; try discriminate H.
      unfold bindM, new_expr, alloc in H. inversion H; subst. split; [eexists; reflexivity|].
      exists (length h), tx. split; [reflexivity|]. split; [exact Ed|]. rewrite nth_error_app2 by lia. rewrite Nat.sub_diag. reflexivity.
    + exfalso. destruct tag as [|pp]; [discriminate H|]. destruct pp as [q|q|]; [destruct q; try discriminate H; congruence|destruct q; discriminate H|discriminate H].
Qed.

Lemma subj_pre_ext h ext t s sb : subj_pre h t s sb -> subj_pre (h ++ ext) t s sb.
Proof.
  destruct s as [nm| | | | | | |tag xd]; cbn; try tauto.
  - intros (c & cc & A & B & C). exists c, cc. split; [exact A|]. split; [|exact C]. rewrite nth_error_app1 by (eapply nth_some_lt; exact B). exact B.
  - destruct tag as [|pp]; try tauto. destruct pp as [q|q|]; try tauto. destruct q; try tauto.
    intros (x & tx & A & B & C). exists x, tx. split; [exact A|]. split; [exact B|]. rewrite nth_error_app1 by (eapply nth_some_lt; exact C). exact C.
Qed.

Lemma subjects_post t : forall l h h' subs, mapMM (subject_of t) l h = (h', Ok subs) ->
  (exists ext, h' = h ++ ext) /\ Forall2 (subj_pre h' t) l subs.
Proof.
  induction l as [|s l IH]; intros h h' subs H; cbn [mapMM] in H.
  - inversion H; subst. split; [exists []; rewrite app_nil_r; reflexivity|constructor].
  - apply bindM_inv in H as [[e [_ H]]|[sb [h1 [H1 H]]]]; [discriminate H|].
    apply bindM_inv in H as [[e [_ H]]|[sbs [h2 [H2 H]]]]; [discriminate H|]. inversion H; subst. clear H.
    destruct (subject_of_post _ _ _ _ _ H1) as [(e1 & ->) P1]. destruct (IH _ _ _ H2) as [(e2 & ->) F2].
    split; [exists (e1 ++ e2); rewrite app_assoc; reflexivity|]. constructor; [apply subj_pre_ext; exact P1|exact F2].
Qed.

Lemma idx_step_frame t0 ib h h' r : (exists tb, nth_error h t0 = Some (OTable tb)) ->
  idx_step t0 ib h = (h', r) -> forall x, x < length h -> x <> t0 -> nth_error h' x = nth_error h x.
Proof.
  intros (tb & Ht) H.
  assert (HJ : FJ (length h) t0 h).
  { split; [apply Nat.le_refl|]. intros i ob [Hi|Hi] Hn; [apply nth_some_lt in Hn; lia|]. subst i. rewrite Ht in Hn. inversion Hn. exact I. }
  destruct (tk_idx_step (length h) t0 ib _ _ _ HJ H) as (F & _). exact F.
Qed.

(* the check of Table.add_index: every column subject belongs to the table *)
Lemma check_subjects h t : forall names subs, Forall2 (subj_pre h t) names subs ->
  forallb (fun s => match s with SubCol c => match h_column h c with Some cc => ooid_eqb (c_table cc) (Some t) | None => false end | _ => true end) subs = true ->
  Forall2 (subj_holds h t) names subs.
Proof.
  intros names subs F. induction F as [|s sb names subs P _ IH]; intros Hc; [constructor|].
  cbn [forallb] in Hc. apply andb_true_iff in Hc as [H1 H2]. constructor; [|apply IH; exact H2].
  destruct s as [nm| | | | | | |tag xd]; cbn in P |- *; try contradiction.
  - destruct P as (c & cc & -> & Hn & Hnm). exists c, cc. split; [reflexivity|]. split; [exact Hn|]. split; [exact Hnm|].
    unfold h_column in H1. rewrite Hn in H1. unfold ooid_eqb, opt_eqb in H1. destruct (c_table cc) as [tc|]; [|discriminate H1]. apply Nat.eqb_eq in H1. congruence.
  - destruct tag as [|pp]; try contradiction. destruct pp as [q|q|]; try contradiction. destruct q; try contradiction. exact P.
Qed.

Definition colexpr (ob : obj) : Prop := match ob with OColumn _ | OExpr _ => True | _ => False end.
Lemma subj_holds_keep h h' t names subs : (forall x ob, colexpr ob -> nth_error h x = Some ob -> nth_error h' x = Some ob) ->
  Forall2 (subj_holds h t) names subs -> Forall2 (subj_holds h' t) names subs.
Proof.
  intros K F. eapply Forall2_impl_s; [|exact F]. intros s sb P.
  destruct s as [nm| | | | | | |tag xd]; cbn in P |- *; try contradiction.
  - destruct P as (c & cc & A & B & C & D). exists c, cc. split; [exact A|]. split; [apply (K c (OColumn cc) I B)|]. split; assumption.
  - destruct tag as [|pp]; try contradiction. destruct pp as [q|q|]; try contradiction. destruct q; try contradiction.
    destruct P as (x & tx & A & B & C). exists x, tx. split; [exact A|]. split; [exact B|]. apply (K x (OExpr (mkExpr tx)) I C).
Qed.

Lemma idx_step_fixes t ib h h' tb : nth_error h t = Some (OTable tb) -> idx_step t ib h = (h', Ok tt) ->
  exists i, idx_holds h' t i ib /\ length h <= i /\
    (exists tb', nth_error h' t = Some (OTable tb') /\ t_indexes tb' = t_indexes tb ++ [i] /\ t_columns tb' = t_columns tb).
Proof.
  intros Ht H. unfold idx_step in H.
  apply bindM_inv in H as [[e [_ H]]|[i [h1 [H1 H]]]]; [discriminate H|].
  destruct (build_index_post_full _ _ _ _ H1) as (idd & n & -> & Li & Hi1).
  pose proof (gR_build_index _ _ _ _ H1) as R1.
  assert (Ht0 : h_table h t = Some tb) by (unfold h_table; rewrite Ht; reflexivity).
  destruct (Rext_table_fwd _ _ _ _ R1 Ht0) as (tb1 & Ht1 & Ec1 & Ei1 & _). apply h_table_nth in Ht1.
  apply bindM_inv in H as [[e [_ H]]|[subs [h2 [H2 H]]]]; [discriminate H|].
  destruct (subjects_post t _ _ _ _ H2) as [(ext & ->) F2].
  assert (Hi2 : nth_error (h1 ++ ext) i = Some (OIndex (mkIndex (Some []) None (or_none (fstr_of idd "name")) (fbool_of idd "unique") (fstr_of idd "type") (fbool_of idd "pk") n (fstr_of idd "comment"))))
    by (rewrite nth_error_app1 by (eapply nth_some_lt; exact Hi1); exact Hi1).
  assert (Ht2 : nth_error (h1 ++ ext) t = Some (OTable tb1)) by (rewrite nth_error_app1 by (eapply nth_some_lt; exact Ht1); exact Ht1).
  set (h2 := h1 ++ ext) in *.
  apply bindM_inv in H as [[e [_ H]]|[u3 [h3 [H3 H]]]]; [discriminate H|].
  unfold upd_index, get_index, bindM, lookup in H3. rewrite Hi2 in H3. cbv beta iota in H3. unfold ret, store in H3. inversion H3; subst h3 u3. clear H3.
  unfold set_subjects in H. cbn [i_table i_name i_unique i_type i_pk i_note i_comment] in H.
  set (ix3 := mkIndex (Some subs) None (or_none (fstr_of idd "name")) (fbool_of idd "unique") (fstr_of idd "type") (fbool_of idd "pk") n (fstr_of idd "comment")) in *.
  assert (Nit : i <> t) by (intros ->; rewrite Ht2 in Hi2; discriminate Hi2).
  set (h3 := replace_nth i (OIndex ix3) h2) in *.
  assert (Hi3 : nth_error h3 i = Some (OIndex ix3)) by (unfold h3; apply nth_replace_same; eapply nth_some_lt; exact Hi2).
  assert (Ht3 : nth_error h3 t = Some (OTable tb1)) by (unfold h3; rewrite nth_replace_other by exact Nit; exact Ht2).
  assert (K23 : forall x ob, inner ob -> nth_error h2 x = Some ob -> x <> i -> nth_error h3 x = Some ob).
  { intros x ob _ Hx Nx. unfold h3. rewrite nth_replace_other by congruence. exact Hx. }
  unfold table_add_index in H. unfold bindM at 1 in H. unfold lookup in H. rewrite Hi3 in H. cbv beta iota in H. cbn [i_subjects ix3] in H.
  unfold bindM at 1 in H. unfold get_heap in H. cbv beta iota in H.
  match type of H with (if ?b then _ else _) _ = _ => destruct b eqn:Echk; [|discriminate H] end.
  unfold upd_index, get_index in H. unfold bindM at 1 2 3 in H. unfold lookup in H. rewrite Hi3 in H. cbv beta iota in H. unfold ret, store in H. cbv beta iota in H.
  unfold upd_table, get_table, bindM, lookup in H. rewrite nth_replace_other in H by exact Nit. rewrite Ht3 in H. cbv beta iota in H. unfold ret, store in H. inversion H; subst h'. clear H.
  exists i. split; [|split; [exact Li|]].
  - (* the subjects, checked in h3 *)
    assert (F3 : Forall2 (subj_pre h3 t) (flist_of idd "subject_names") subs).
    { eapply Forall2_impl_s; [|exact F2]. intros s sb P. destruct s as [nm| | | | | | |tag xd]; cbn in P |- *; try contradiction.
      - destruct P as (c & cc & A & B & C). exists c, cc. split; [exact A|]. split; [|exact C]. apply (K23 c (OColumn cc) I B). intros ->. rewrite Hi2 in B. discriminate B.
      - destruct tag as [|pp]; try contradiction. destruct pp as [q|q|]; try contradiction. destruct q; try contradiction.
        destruct P as (x & tx & A & B & C). exists x, tx. split; [exact A|]. split; [exact B|]. apply (K23 x (OExpr (mkExpr tx)) I C). intros ->. rewrite Hi2 in C. discriminate C. }
    pose proof (check_subjects h3 t _ _ F3 Echk) as F3'.
    exists (set_i_table (Some t) ix3), idd, subs. split; [reflexivity|]. split.
    { rewrite nth_replace_other by congruence. apply nth_replace_same. eapply nth_some_lt; exact Hi3. }
    cbn. repeat split; try reflexivity.
    eapply subj_holds_keep; [|exact F3']. intros x ob Hin Hx.
    assert (x <> i) by (intros ->; rewrite Hi3 in Hx; inversion Hx; subst; destruct Hin).
    assert (x <> t) by (intros ->; rewrite Ht3 in Hx; inversion Hx; subst; destruct Hin).
    rewrite nth_replace_other by congruence. rewrite nth_replace_other by congruence. exact Hx.
  - eexists. split; [apply nth_replace_same; rewrite length_replace_nth; eapply nth_some_lt; exact Ht3|]. cbn [t_indexes t_columns set_indexes]. rewrite Ei1, Ec1. split; reflexivity.
Qed.

(* ---- the indexes of a table under construction ---- *)
Definition idxs_full (ibs : list pyv) (h : heap) (t : oid) : Prop :=
  exists tb, nth_error h t = Some (OTable tb) /\ Forall2 (idx_holds h t) (t_indexes tb) ibs.

Lemma idx_holds_frame h h' t tb i ib : nth_error h t = Some (OTable tb) ->
  (forall x, x < length h -> x <> t -> nth_error h' x = nth_error h x) -> idx_holds h t i ib -> idx_holds h' t i ib.
Proof.
  intros Ht Fr (ix & idd & subs & A & B & C). destruct C as (C1 & C2 & C3 & C4 & C5 & C6 & C7 & F).
  assert (K : forall x ob, colexpr ob -> nth_error h x = Some ob -> nth_error h' x = Some ob).
  { intros x ob Hc Hx. rewrite Fr; [exact Hx|eapply nth_some_lt; exact Hx|]. intros ->. rewrite Ht in Hx. inversion Hx; subst. destruct Hc. }
  exists ix, idd, subs. split; [exact A|]. split.
  { rewrite Fr; [exact B|eapply nth_some_lt; exact B|]. intros ->. rewrite Ht in B. discriminate B. }
  repeat split; try assumption. eapply subj_holds_keep; [exact K|exact F].
Qed.

Lemma idx_loop_full2 t : forall idxs done h h', idxs_full done h t -> iterM (idx_step t) idxs h = (h', Ok tt) -> idxs_full (done ++ idxs) h' t.
Proof.
  induction idxs as [|ib idxs IH]; intros done h h' Hf H.
  - cbn in H. inversion H; subst. rewrite app_nil_r. exact Hf.
  - cbn [iterM] in H. apply bindM_inv in H as [[e [_ H]]|[[] [h1 [H1 H]]]]; [discriminate H|].
    destruct Hf as (tb & Ht & F).
    destruct (idx_step_fixes t ib h h1 tb Ht H1) as (i & Hi & Li & tb' & Ht' & Ei & Ec).
    pose proof (idx_step_frame t ib h h1 _ (ex_intro _ tb Ht) H1) as Fr.
    replace (done ++ ib :: idxs) with ((done ++ [ib]) ++ idxs) by (rewrite <- app_assoc; reflexivity).
    apply (IH _ h1 h'); [|exact H]. exists tb'. split; [exact Ht'|]. rewrite Ei. apply Forall2_app.
    + eapply Forall2_impl_s; [|exact F]. intros i0 ib0 Hh. eapply idx_holds_frame; [exact Ht|exact Fr|exact Hh].
    + constructor; [exact Hi|constructor].
Qed.

Lemma table_add_column_idx t c h h' u tb : nth_error h t = Some (OTable tb) -> table_add_column t c h = (h', Ok u) ->
  exists tb', nth_error h' t = Some (OTable tb') /\ t_indexes tb' = t_indexes tb.
Proof.
  intros Ht H. unfold table_add_column in H. unfold bindM at 1 in H. unfold lookup in H.
  destruct (nth_error h c) as [ob|] eqn:Hc; [|discriminate H]. cbv beta iota in H. destruct ob; try discriminate H.
  assert (Ntc : t <> c) by (intros ->; rewrite Ht in Hc; discriminate Hc).
  unfold upd_column, get_column in H. unfold bindM at 1 2 3 in H. unfold lookup in H. rewrite Hc in H. cbv beta iota in H.
  unfold ret, store in H. cbv beta iota in H.
  unfold upd_table, get_table, bindM, lookup in H. rewrite nth_replace_other in H by congruence. rewrite Ht in H. cbv beta iota in H.
  unfold ret, store in H. injection H as <- _.
  eexists. split; [apply nth_replace_same; rewrite length_replace_nth; eapply nth_some_lt; exact Ht|reflexivity].
Qed.

(* the column loop does not touch the index list *)
Lemma cols_loop_idx d t0 : forall cols h h' u tb, nth_error h t0 = Some (OTable tb) ->
  iterM (fun cb => do! c <- build_column d cb ;; table_add_column t0 c) cols h = (h', Ok u) ->
  exists tb', nth_error h' t0 = Some (OTable tb') /\ t_indexes tb' = t_indexes tb.
Proof.
  induction cols as [|cb cols IH]; intros h h' u tb Ht H.
  - cbn in H. inversion H; subst. eauto.
  - cbn [iterM] in H. apply bindM_inv in H as [[e [_ H]]|[[] [hb [Hb H]]]]; [discriminate H|].
    apply bindM_inv in Hb as [[e [_ Hb]]|[c [ha [Ha Hb]]]]; [discriminate Hb|].
    assert (Ht0 : h_table h t0 = Some tb) by (unfold h_table; rewrite Ht; reflexivity).
    destruct (Rext_table_fwd _ _ _ _ (gR_build_column _ _ _ _ _ Ha) Ht0) as (tb1 & Ht1 & _ & Ei1 & _). apply h_table_nth in Ht1.
    destruct (table_add_column_idx _ _ _ _ _ _ Ht1 Hb) as (tb2 & Eb & Ei2).
    destruct (IH _ _ _ _ Eb H) as (tb' & A & B). exists tb'. split; [exact A|congruence].
Qed.

Lemma build_table_idx_full d dd h h' t : build_table d (PVBlue 7 dd) h = (h', Ok t) -> idxs_full (flist_of dd "indexes") h' t.
Proof.
  intros H. rewrite build_table_eq in H.
  apply bindM_inv in H as [[e [_ H]]|[nt [h1 [H1 H]]]]; [discriminate H|]. unfold lift in H1. destruct (note_text_of dd "note"); inversion H1; subst. clear H1.
  apply bindM_inv in H as [[e [_ H]]|[t0 [h2 [H2 H]]]]; [discriminate H|].
  assert (T0 : exists tb0, nth_error h2 t0 = Some (OTable tb0) /\ t_indexes tb0 = []).
  { pose proof (new_table_empty_post _ _ _ _ _ _ _ _ _ _ _ H2) as Ht. unfold new_table in H2. cbn [iterM] in H2.
    apply bindM_inv in H2 as [[e [_ H2]]|[n [hn [Hn H2]]]]; [discriminate H2|].
    unfold bindM at 1 in H2. unfold alloc in H2. cbv beta iota in H2.
    apply bindM_inv in H2 as [[e [_ H2]]|[u1 [hx [Hx H2]]]]; [discriminate H2|]. unfold ret in Hx. injection Hx as E1 _. subst hx.
    apply bindM_inv in H2 as [[e [_ H2]]|[u2 [hy [Hy H2]]]]; [discriminate H2|]. unfold ret in Hy. injection Hy as E2 _. subst hy.
    apply bindM_inv in H2 as [[e [_ H2]]|[u3 [hz [Hz H2]]]]; [discriminate H2|]. unfold ret in H2. injection H2 as E3 E4. subst.
    eexists. split; [eapply (snp_keeps _ _ _ _ _ _ _ Hz); [intros nn; discriminate|]; rewrite nth_error_app2 by lia; rewrite Nat.sub_diag; reflexivity|reflexivity]. }
  destruct T0 as (tb0 & Ht0 & Ei0).
  unfold build_table_body in H.
  apply bindM_inv in H as [[e [_ H]]|[[] [h3 [H3 H]]]]; [discriminate H|].
  apply bindM_inv in H as [[e [_ H]]|[[] [h4 [H4 H]]]]; [discriminate H|].
  unfold ret in H. injection H as <- <-.
  destruct (cols_loop_idx d t0 _ _ _ _ _ Ht0 H3) as (tb3 & Ht3 & Ei3).
  assert (I3 : idxs_full [] h3 t0) by (exists tb3; split; [exact Ht3|rewrite Ei3, Ei0; constructor]).
  exact (idx_loop_full2 t0 _ [] _ _ I3 H4).
Qed.

(* the step "build the table, add it", for the indexes *)
Lemma tstep_idx d dd h h' : step d (PVBlue 7 dd) h = (h', Ok tt) ->
  exists t, (idxs_full (flist_of dd "indexes") h' t /\ length h <= t /\ t < length h') /\ exists h1, build_table d (PVBlue 7 dd) h = (h1, Ok t).
Proof.
  intros H. unfold step in H. apply bindM_inv in H as [[e [_ H]]|[t [h1 [H1 H2]]]]; [discriminate H|]. cut (idxs_full (flist_of dd "indexes") h' t /\ length h <= t /\ t < length h'); [intros X; exists t; split; [exact X|exists h1; exact H1]|].
  pose proof (build_table_idx_full _ _ _ _ _ H1) as (tb & Ht & F). destruct (build_table_full _ _ _ _ _ H1) as [_ Lt].
  pose proof (gin_db_add d t _ _ _ H2) as Rc. pose proof (gc_db_add d t _ _ _ H2 t) as Sc. rewrite Ht in Sc. cbn in Sc.
  destruct (nth_error h' t) as [ob|] eqn:Eb; [|discriminate Sc]. cbn in Sc. inversion Sc as [Sc']. apply cview_table in Sc' as (tb2 & -> & _ & Ei2).
  split; [|split; [exact Lt|eapply nth_some_lt; exact Eb]].
  exists tb2. split; [exact Eb|]. rewrite Ei2. eapply Forall2_impl_s; [|exact F].
  intros i ib (ix & idd & subs & A & B & C). destruct C as (C1 & C2 & C3 & C4 & C5 & C6 & C7 & FF).
  exists ix, idd, subs. split; [exact A|]. split; [apply (Rc i (OIndex ix) I B)|]. repeat split; try assumption.
  eapply subj_holds_keep; [|exact FF]. intros x ob Hc Hx. apply (Rc x ob); [destruct ob; try destruct Hc; exact I|exact Hx].
Qed.

Definition table_idx_holds (h : heap) (bp : pyv) (t : oid) : Prop :=
  exists dd, bp = PVBlue 7 dd /\ idxs_full (flist_of dd "indexes") h t.

Lemma idxs_full_frame ibs h hfin t d : (forall x, x < length h -> x <> d -> nth_error hfin x = nth_error h x) ->
  (exists db, nth_error h d = Some (ODatabase db)) -> idxs_full ibs h t -> idxs_full ibs hfin t.
Proof.
  intros Fr (db & Hd) (tb & Ht & F).
  assert (K : forall x ob, (forall y, ob <> ODatabase y) -> nth_error h x = Some ob -> nth_error hfin x = Some ob).
  { intros x ob Hn Hx. rewrite Fr; [exact Hx|eapply nth_some_lt; exact Hx|]. intros ->. rewrite Hd in Hx. inversion Hx. eapply Hn; eauto. }
  exists tb. split; [apply K; [intros y; discriminate|exact Ht]|]. eapply Forall2_impl_s; [|exact F].
  intros i ib (ix & idd & subs & A & B & C). destruct C as (C1 & C2 & C3 & C4 & C5 & C6 & C7 & FF).
  exists ix, idd, subs. split; [exact A|]. split; [apply K; [intros y; discriminate|exact B]|]. repeat split; try assumption.
  eapply subj_holds_keep; [|exact FF]. intros x ob Hc Hx. apply K; [intros y ->; destruct Hc|exact Hx].
Qed.

Lemma index_phase_final d refs groups proj stickies : forall l h hfin v db,
  Forall good_table_bp l -> h_database h d = Some db -> d_project db = None ->
  build_rest (mkPState l refs [] groups proj stickies) d h = (hfin, Ok v) ->
  exists ts hb dbb, iterM (step d) l h = (hb, Ok tt) /\ h_database hb d = Some dbb /\ d_tables dbb = d_tables db ++ ts /\
    Forall2 (table_idx_holds hfin) l ts.
Proof.
  induction l as [|bp l IH]; intros h hfin v db Hg Hdb Hp H.
  - exists [], h, db. rewrite app_nil_r. split; [reflexivity|]. split; [exact Hdb|]. split; [reflexivity|constructor].
  - inversion Hg as [|? ? Hgb Hgl]; subst.
    rewrite build_rest_tables in H. cbn [iterM] in H. unfold bindM at 1 in H. unfold bindM at 1 in H.
    destruct (step d bp h) as [h1 [[]|x]] eqn:E1; [|discriminate H].
    change (build_rest (mkPState l refs [] groups proj stickies) d h1 = (hfin, Ok v)) in H.
    destruct (step_ok_is_table _ _ _ _ E1) as (dd & ->).
    destruct (tstep_fixes d dd h h1 db Hgb Hdb E1) as (t & _ & _ & _ & db1 & Hdb1 & Htl & Hp1 & hx & Bx).
    destruct (tstep_idx d dd h h1 E1) as (t' & (IF & Lt' & Lth') & hy & By).
    assert (t' = t) by (rewrite Bx in By; inversion By; reflexivity).
    subst t'.
    assert (Hdn : exists dbx, nth_error h1 d = Some (ODatabase dbx)).
    { unfold h_database in Hdb1. destruct (nth_error h1 d) as [[]|]; try discriminate Hdb1. eauto. }
    assert (Hdl : d < length h1) by (destruct Hdn as (dbx & Hx); eapply nth_some_lt; exact Hx).
    assert (Hfr : forall x, x < length h1 -> x <> d -> nth_error hfin x = nth_error h1 x).
    { apply (build_steps_write_only_to_the_database_and_new_objects (mkPState l refs [] groups proj stickies) d h1 hfin (Ok v)); [exact Hdl| |exact H].
      intros x Hx. rewrite Hdb1 in Hx. inversion Hx; subst. rewrite Hp1. exact Hp. }
    destruct (IH h1 hfin v db1 Hgl Hdb1 ltac:(rewrite Hp1; exact Hp) H) as (ts & hb & dbb & Hit & Hdbb & Hts & F).
    exists (t :: ts), hb, dbb. split; [cbn [iterM]; unfold bindM; rewrite E1; exact Hit|]. split; [exact Hdbb|].
    split; [rewrite Hts, Htl, <- app_assoc; reflexivity|].
    constructor; [|exact F]. exists dd. split; [reflexivity|]. exact (idxs_full_frame _ h1 hfin t d Hfr Hdn IF).
Qed.

Theorem build_database_indexes s allow sq dq h0 h1 dd :
  WW h0 -> (forall t tb, h_table h0 t = Some tb -> NoDup (names_of tb)) -> Forall good_table_bp (ps_tables s) ->
  build_database s allow sq dq h0 = (h1, Ok dd) ->
  exists db, h_database h1 dd = Some db /\ Forall2 (table_idx_holds h1) (ps_tables s) (d_tables db).
Proof.
  intros HW Hgood Hg H. set (d := length h0).
  destruct (build_database_runs _ _ _ _ _ _ _ H) as (ha & hb & hc & hd & he & -> & A1 & B1 & C1 & D1 & E1 & F1). fold d in A1, B1, C1, D1, E1, F1 |- *.
  set (db0 := mkDatabase [] [] [] [] [] [] None allow sq dq) in *.
  destruct (JTC_initial [] [] h0 allow sq dq HW Hgood) as [HJ0 _]. fold d in HJ0. fold db0 in HJ0.
  assert (Hdb0 : h_database (h0 ++ [ODatabase db0]) d = Some db0).
  { unfold h_database, d. rewrite nth_error_app2 by lia. rewrite Nat.sub_diag. reflexivity. }
  (* enums *)
  destruct (phase_grows d KEnum (estep d) build_enum (ps_enums s)) with (h := h0 ++ [ODatabase db0]) (h' := ha) (db := db0) as [HJa (dba & osa & Hdba & La & Lena & Oa & Fa)]; [|exact HJ0|exact Hdb0|exact A1|].
  { intros bp h h' _ HJ Hst. apply (add_built_grows d (build_enum bp) KEnum h h' HJ); [|apply gdb_of_Rext, gR_build_enum|apply post_build_enum|discriminate|exact Hst].
    intros h1' r Hb. eapply J_Rext; [eapply gR_build_enum; exact Hb|exact HJ]. }
  (* tables *)
  rewrite Forall_forall in Hg.
  destruct (phase_grows d KTable (step d) (build_table d) (ps_tables s)) with (h := ha) (h' := hb) (db := dba) as [HJb (dbb & osb & Hdbb & Lb & Lenb & Ob & Fb)]; [|exact HJa|exact Hdba|exact B1|].
  { intros bp h h' Hin HJ Hst. apply (add_built_grows d (build_table d bp) KTable h h' HJ); [|apply gdb_build_table, Hg, Hin| |discriminate|exact Hst].
    - intros h1' r Hb. exact (proj1 (build_table_keeps_J d bp h h1' r (Hg bp Hin) HJ Hb)).
    - intros hx hy t Hb. apply kind_of_tbl. eapply post_build_table_tbl; exact Hb. }
  (* groups *)
  destruct (phase_grows d KGroup (gstep d) (build_group d) (ps_groups s)) with (h := hb) (h' := hc) (db := dbb) as [HJc (dbc & osc & Hdbc & Lc & Lenc & Oc & Fc)]; [|exact HJb|exact Hdbb|exact C1|].
  { intros bp h h' _ HJ Hst. apply (add_built_grows d (build_group d bp) KGroup h h' HJ); [|apply gdb_of_Rext, gR_build_group|apply post_build_group|discriminate|exact Hst].
    intros h1' r Hb. eapply J_Rext; [eapply gR_build_group; exact Hb|exact HJ]. }
  (* sticky notes *)
  destruct (phase_grows d KSticky (sstep d) build_sticky (ps_stickies s)) with (h := hc) (h' := hd) (db := dbc) as [HJd (dbd & osd & Hdbd & Ld & Lend & Od & Fd)]; [|exact HJc|exact Hdbc|exact D1|].
  { intros bp h h' _ HJ Hst. apply (add_built_grows d (build_sticky bp) KSticky h h' HJ); [|apply gdb_of_Rext, gR_build_sticky|apply post_build_sticky|discriminate|exact Hst].
    intros h1' r Hb. eapply J_Rext; [eapply gR_build_sticky; exact Hb|exact HJ]. }
  (* project *)
  assert (P : J d he /\ exists dbe, h_database he d = Some dbe /\ (forall k', k' <> KProject -> klist k' dbe = klist k' dbd) /\
                                 (d_project dbe = None <-> ps_project s = None /\ d_project dbd = None)).
  { unfold pstep in E1. destruct (ps_project s) as [bp|].
    - apply bindM_inv in E1 as [[e [_ E1]]|[x [hp [X1 X2]]]]; [discriminate E1|].
      assert (HJ1 : J d hp) by (eapply J_Rext; [eapply gR_build_project; exact X1|exact HJd]).
      split; [exact (proj1 (pres_db_add d x _ _ _ HJ1 Logic.I X2))|].
      destruct (J_InvDB _ _ HJ1) as (db1 & ID1 & Hdb1). pose proof (gdb_of_Rext d _ (gR_build_project bp) _ _ _ X1 dbd Hdbd) as Hdb1'. rewrite Hdb1 in Hdb1'. inversion Hdb1'; subst db1.
      destruct (db_add_step hp d dbd x ID1) as [[e R]|(db' & h2 & ob & k0 & Hrun & ID' & Ho & Hk & _ & _ & Hl2 & [Hoth _] & _)].
      { rewrite R in X2. discriminate X2. }
      rewrite Hrun in X2. inversion X2; subst h2.
      destruct (post_build_project _ _ _ _ X1) as (ob' & Hn & Hk'). rewrite Ho in Hn. inversion Hn; subst ob'. rewrite Hk in Hk'. inversion Hk'; subst k0.
      exists db'. split; [destruct ID' as [[A _ _ _ _ _] _ _]; exact A|]. split; [exact Hoth|].
      pose proof (Hl2 eq_refl) as L2. cbn in L2. split; [intros Hn0; rewrite Hn0 in L2; discriminate L2|intros [Hn0 _]; discriminate Hn0].
    - inversion E1; subst. split; [exact HJd|]. exists dbd. split; [exact Hdbd|]. split; [reflexivity|]. tauto. }
  destruct P as [HJe (dbe & Hdbe & Oe & Pe)].
  (* references *)
  destruct (phase_grows d KRef (rstep d) (build_reference d) (ps_refs s)) with (h := he) (h' := h1) (db := dbe) as [HJf (dbf & osf & Hdbf & Lf & Lenf & Of & Ff)]; [|exact HJe|exact Hdbe|exact F1|].
  { intros bp h h' _ HJ Hst. apply (add_built_grows d (build_reference d bp) KRef h h' HJ); [|apply gdb_of_Rext, gR_build_reference|apply post_build_reference|discriminate|exact Hst].
    intros h1' r Hb. eapply J_Rext; [eapply gR_build_reference; exact Hb|exact HJ]. }
  (* the table phase again, table by table, with the frame theorem *)
  assert (Run : build_rest (mkPState (ps_tables s) (ps_refs s) [] (ps_groups s) (ps_project s) (ps_stickies s)) d ha = (h1, Ok d)).
  { change (bindM (iterM (estep d) []) (fun _ => bindM (iterM (step d) (ps_tables s)) (fun _ => bindM (iterM (gstep d) (ps_groups s)) (fun _ =>
              bindM (iterM (sstep d) (ps_stickies s)) (fun _ => bindM (pstep d (ps_project s)) (fun _ => bindM (iterM (rstep d) (ps_refs s)) (fun _ => ret d)))))) ha = (h1, Ok d)).
    cbn [iterM]. unfold bindM at 1. unfold ret at 1. unfold bindM at 1. rewrite B1. unfold bindM at 1. rewrite C1. unfold bindM at 1. rewrite D1.
    unfold bindM at 1. rewrite E1. unfold bindM at 1. rewrite F1. reflexivity. }
  assert (Hpa : d_project dba = None).
  { apply kp_none. rewrite (Oa KProject ltac:(discriminate)). reflexivity. }
  assert (Hg' : Forall good_table_bp (ps_tables s)) by (apply Forall_forall; exact Hg).
  destruct (index_phase_final d (ps_refs s) (ps_groups s) (ps_project s) (ps_stickies s) (ps_tables s) ha h1 d dba Hg' Hdba Hpa Run) as (ts & hb' & dbb' & Hit & Hdbb' & Hts & FT).
  rewrite B1 in Hit. inversion Hit; subst hb'. rewrite Hdbb in Hdbb'. inversion Hdbb'; subst dbb'.
  exists dbf. split; [exact Hdbf|].
  assert (Tb : d_tables dbf = ts).
  { change (klist KTable dbf = ts). rewrite (Of KTable ltac:(discriminate)), (Oe KTable ltac:(discriminate)), (Od KTable ltac:(discriminate)), (Oc KTable ltac:(discriminate)).
    change (d_tables dbb = ts). rewrite Hts. change (klist KTable dba ++ ts = ts). rewrite (Oa KTable ltac:(discriminate)). reflexivity. }
  rewrite Tb. exact FT.
Qed.

Theorem parser_parse_indexes source allow sq dq h0 h1 d :
  WW h0 -> (forall t tb, h_table h0 t = Some tb -> NoDup (names_of tb)) ->
  (forall st, blueprints_of source allow h0 = (h0, Ok st) -> Forall good_table_bp (ps_tables st)) ->
  parser_parse source allow sq dq h0 = (h1, Ok d) ->
  exists st db, blueprints_of source allow h0 = (h0, Ok st) /\ h_database h1 d = Some db /\ Forall2 (table_idx_holds h1) (ps_tables st) (d_tables db).
Proof.
  intros HW Hgood Hbp H. unfold parser_parse in H. apply bindM_inv in H as [[e [_ H]]|[st [hx [H1 H2]]]]; [discriminate H|].
  pose proof (ro_blueprints_of _ _ _ _ _ H1) as ->.
  destruct (build_database_indexes _ _ _ _ _ _ _ HW Hgood (Hbp st H1) H2) as (db & Hdb & C).
  exists st, db. split; [exact H1|]. split; [exact Hdb|exact C].
Qed.
