(* RefsC.v — C01, references followed from their blueprints to the returned database: the references of the parsed database are —
   one per reference blueprint, in the order parse_blueprint registered them — objects with exactly the declared kind, name,
   comment and update / delete actions, whose two sides are the column lists the blueprint's table and column names resolve to
   (by alias, then by schema.name; columns by name in the located table) — resolved in the FINAL database as well. *)
From PyDBML Require Import PyStr Py Heap Classes Database Tools PP Actions Build Entry MonadFacts RuleFacts ContainerInv ContainerFull TableInv BuildInv BuildLinks BuildRules BuildDocs BuildRefs BuildRaises Frame Counts Sticky.
From Coq Require Import Lia.
Import ListNotations.

Definition ref_holds (h : heap) (d : oid) (bp : pyv) (r : oid) : Prop :=
  exists dd c1 c2 rr, bp = PVBlue 4 dd /\ Res d dd h c1 c2 /\ h_reference h r = Some rr /\ refdata_of rr = data_of dd c1 c2.

Lemma J_WW d h : J d h -> WW h. Proof. intros (db & _ & W). exact W. Qed.

Lemma rstep_ok_is_ref d bp h h' : rstep d bp h = (h', Ok tt) -> exists dd, bp = PVBlue 4 dd.
Proof.
  intros H. unfold rstep in H. apply bindM_inv in H as [[e [_ H]]|[t [h1 [H1 _]]]]; [discriminate H|].
  destruct bp as [| | | | | | |tag dd]; try (cbn in H1; discriminate H1).
  assert (T4 : tag = 4%N \/ build_reference d (PVBlue tag dd) h = (h, Raise (EStuck 419))).
  { destruct tag as [|p]; [right; reflexivity|]. destruct p as [q|q|]; [right; destruct q; reflexivity| |right; reflexivity].
    destruct q as [r0|r0|]; [right; reflexivity| |right; reflexivity]. destruct r0; [right; reflexivity|right; reflexivity|left; reflexivity]. }
  destruct T4 as [->|T4]; [eexists; reflexivity|rewrite T4 in H1; discriminate H1].
Qed.

Lemma ref_holds_stable d h h' bp r : WW h -> stable d h h' -> ref_holds h d bp r -> ref_holds h' d bp r.
Proof.
  intros HW S (dd & c1 & c2 & rr & A & B & C & D). pose proof S as (_ & _ & RR). destruct (RR _ _ C) as (rr' & C' & E).
  exists dd, c1, c2, rr'. split; [exact A|]. split; [exact (Res_stable _ _ _ _ _ _ HW S B)|]. split; [exact C'|congruence].
Qed.

Lemma ref_phase d : forall l h hfin db, J d h -> h_database h d = Some db -> iterM (rstep d) l h = (hfin, Ok tt) ->
  exists rs dbf, h_database hfin d = Some dbf /\ d_refs dbf = d_refs db ++ rs /\ Forall2 (ref_holds hfin d) l rs.
Proof.
  induction l as [|bp l IH]; intros h hfin db HJ Hdb H.
  - cbn in H. inversion H; subst. exists [], db. rewrite app_nil_r. split; [exact Hdb|]. split; [reflexivity|constructor].
  - cbn [iterM] in H. apply bindM_inv in H as [[e [_ H]]|[[] [h1 [H1 H2]]]]; [discriminate H|].
    destruct (rstep_ok_is_ref _ _ _ _ H1) as (dd & ->).
    destruct (rstep_stable d _ _ _ _ HJ H1) as [HJ1 S1].
    (* the list grows by the built object *)
    destruct (add_built_grows d (build_reference d (PVBlue 4 dd)) KRef h h1 HJ) as [_ G]; [| | |discriminate|exact H1|].
    { intros hx r Hb. eapply J_Rext; [eapply gR_build_reference; exact Hb|exact HJ]. }
    { apply gdb_of_Rext, gR_build_reference. }
    { apply post_build_reference. }
    destruct (G db Hdb) as (db1 & o & Hdb1 & L1 & _ & (hx & Bx)).
    destruct (build_reference_shape d dd h hx o Bx) as (c1 & c2 & HR & -> & ->).
    (* the object after Database.add *)
    assert (Hadd : db_add d (length h) (h ++ [OReference (mkReference None (fstr_of dd "type") (Some c1) (Some c2) (or_none (fstr_of dd "name")) (fstr_of dd "comment") (fstr_of dd "on_update") (fstr_of dd "on_delete") (fbool_of dd "inline"))]) = (h1, Ok tt)).
    { unfold rstep in H1. unfold bindM in H1. rewrite Bx in H1. exact H1. }
    assert (Hr0 : h_reference (h ++ [OReference (mkReference None (fstr_of dd "type") (Some c1) (Some c2) (or_none (fstr_of dd "name")) (fstr_of dd "comment") (fstr_of dd "on_update") (fstr_of dd "on_delete") (fbool_of dd "inline"))]) (length h)
                  = Some (mkReference None (fstr_of dd "type") (Some c1) (Some c2) (or_none (fstr_of dd "name")) (fstr_of dd "comment") (fstr_of dd "on_update") (fstr_of dd "on_delete") (fbool_of dd "inline"))).
    { unfold h_reference. rewrite nth_error_app2 by lia. rewrite Nat.sub_diag. reflexivity. }
    destruct (gr_db_add d (length h) _ _ _ Hadd _ _ Hr0) as (rr & Hrr & Err).
    assert (RH1 : ref_holds h1 d (PVBlue 4 dd) (length h)).
    { exists dd, c1, c2, rr. split; [reflexivity|]. split; [exact (Res_stable _ _ _ _ _ _ (J_WW _ _ HJ) S1 HR)|]. split; [exact Hrr|]. rewrite Err. reflexivity. }
    destruct (rsteps_stable d l _ _ _ HJ1 H2) as [_ S2].
    destruct (IH h1 hfin db1 HJ1 Hdb1 H2) as (rs & dbf & Hdbf & Lf & F).
    exists (length h :: rs), dbf. split; [exact Hdbf|]. split; [rewrite Lf; change (d_refs db1) with (klist KRef db1); rewrite L1; cbn [klist]; rewrite <- app_assoc; reflexivity|].
    constructor; [exact (ref_holds_stable d h1 hfin _ _ (J_WW _ _ HJ1) S2 RH1)|exact F].
Qed.

Theorem build_database_references s allow sq dq h0 h1 dd :
  WW h0 -> (forall t tb, h_table h0 t = Some tb -> NoDup (names_of tb)) -> Forall good_table_bp (ps_tables s) ->
  build_database s allow sq dq h0 = (h1, Ok dd) ->
  exists db, h_database h1 dd = Some db /\ Forall2 (ref_holds h1 dd) (ps_refs s) (d_refs db).
Proof.
  intros HW Hgood Hg H. set (d := length h0).
  destruct (build_database_runs _ _ _ _ _ _ _ H) as (ha & hb & hc & hd & he & -> & A1 & B1 & C1 & D1 & E1 & F1). fold d in A1, B1, C1, D1, E1, F1 |- *.
  set (db0 := mkDatabase [] [] [] [] [] [] None allow sq dq) in *.
  destruct (JTC_initial [] [] h0 allow sq dq HW Hgood) as [HJ0 _]. fold d in HJ0. fold db0 in HJ0.
  assert (Hdb0 : h_database (h0 ++ [ODatabase db0]) d = Some db0).
  { unfold h_database, d. rewrite nth_error_app2 by lia. rewrite Nat.sub_diag. reflexivity. }
  (* enums *)
  destruct (phase_grows d KEnum (estep d) build_enum (ps_enums s)) with (h := h0 ++ [ODatabase db0]) (h' := ha) (db := db0) as [HJa (dba & osa & Hdba & La & Lena & Oa & Fa)]; [|exact HJ0|exact Hdb0|exact A1|].
  { intros bp h h' _ HJ Hst. apply (add_built_grows d (build_enum bp) KEnum h h' HJ); [|apply gdb_of_Rext, gR_build_enum|apply post_build_enum|discriminate|exact Hst].
    intros h1' r Hb. eapply J_Rext; [eapply gR_build_enum; exact Hb|exact HJ]. }
  (* tables *)
  rewrite Forall_forall in Hg.
  destruct (phase_grows d KTable (step d) (build_table d) (ps_tables s)) with (h := ha) (h' := hb) (db := dba) as [HJb (dbb & osb & Hdbb & Lb & Lenb & Ob & Fb)]; [|exact HJa|exact Hdba|exact B1|].
  { intros bp h h' Hin HJ Hst. apply (add_built_grows d (build_table d bp) KTable h h' HJ); [|apply gdb_build_table, Hg, Hin| |discriminate|exact Hst].
    - intros h1' r Hb. exact (proj1 (build_table_keeps_J d bp h h1' r (Hg bp Hin) HJ Hb)).
    - intros hx hy t Hb. apply kind_of_tbl. eapply post_build_table_tbl; exact Hb. }
  (* groups *)
  destruct (phase_grows d KGroup (gstep d) (build_group d) (ps_groups s)) with (h := hb) (h' := hc) (db := dbb) as [HJc (dbc & osc & Hdbc & Lc & Lenc & Oc & Fc)]; [|exact HJb|exact Hdbb|exact C1|].
  { intros bp h h' _ HJ Hst. apply (add_built_grows d (build_group d bp) KGroup h h' HJ); [|apply gdb_of_Rext, gR_build_group|apply post_build_group|discriminate|exact Hst].
    intros h1' r Hb. eapply J_Rext; [eapply gR_build_group; exact Hb|exact HJ]. }
  (* sticky notes *)
  destruct (phase_grows d KSticky (sstep d) build_sticky (ps_stickies s)) with (h := hc) (h' := hd) (db := dbc) as [HJd (dbd & osd & Hdbd & Ld & Lend & Od & Fd)]; [|exact HJc|exact Hdbc|exact D1|].
  { intros bp h h' _ HJ Hst. apply (add_built_grows d (build_sticky bp) KSticky h h' HJ); [|apply gdb_of_Rext, gR_build_sticky|apply post_build_sticky|discriminate|exact Hst].
    intros h1' r Hb. eapply J_Rext; [eapply gR_build_sticky; exact Hb|exact HJ]. }
  (* project *)
  assert (P : J d he /\ exists dbe, h_database he d = Some dbe /\ (forall k', k' <> KProject -> klist k' dbe = klist k' dbd) /\
                                 (d_project dbe = None <-> ps_project s = None /\ d_project dbd = None)).
  { unfold pstep in E1. destruct (ps_project s) as [bp|].
    - apply bindM_inv in E1 as [[e [_ E1]]|[x [hp [X1 X2]]]]; [discriminate E1|].
      assert (HJ1 : J d hp) by (eapply J_Rext; [eapply gR_build_project; exact X1|exact HJd]).
      split; [exact (proj1 (pres_db_add d x _ _ _ HJ1 Logic.I X2))|].
      destruct (J_InvDB _ _ HJ1) as (db1 & ID1 & Hdb1). pose proof (gdb_of_Rext d _ (gR_build_project bp) _ _ _ X1 dbd Hdbd) as Hdb1'. rewrite Hdb1 in Hdb1'. inversion Hdb1'; subst db1.
      destruct (db_add_step hp d dbd x ID1) as [[e R]|(db' & h2 & ob & k0 & Hrun & ID' & Ho & Hk & _ & _ & Hl2 & [Hoth _] & _)].
      { rewrite R in X2. discriminate X2. }
      rewrite Hrun in X2. inversion X2; subst h2.
      destruct (post_build_project _ _ _ _ X1) as (ob' & Hn & Hk'). rewrite Ho in Hn. inversion Hn; subst ob'. rewrite Hk in Hk'. inversion Hk'; subst k0.
      exists db'. split; [destruct ID' as [[A _ _ _ _ _] _ _]; exact A|]. split; [exact Hoth|].
      pose proof (Hl2 eq_refl) as L2. cbn in L2. split; [intros Hn0; rewrite Hn0 in L2; discriminate L2|intros [Hn0 _]; discriminate Hn0].
    - inversion E1; subst. split; [exact HJd|]. exists dbd. split; [exact Hdbd|]. split; [reflexivity|]. tauto. }
  destruct P as [HJe (dbe & Hdbe & Oe & Pe)].
  (* references *)
  destruct (phase_grows d KRef (rstep d) (build_reference d) (ps_refs s)) with (h := he) (h' := h1) (db := dbe) as [HJf (dbf & osf & Hdbf & Lf & Lenf & Of & Ff)]; [|exact HJe|exact Hdbe|exact F1|].
  { intros bp h h' _ HJ Hst. apply (add_built_grows d (build_reference d bp) KRef h h' HJ); [|apply gdb_of_Rext, gR_build_reference|apply post_build_reference|discriminate|exact Hst].
    intros h1' r Hb. eapply J_Rext; [eapply gR_build_reference; exact Hb|exact HJ]. }
  destruct (ref_phase d (ps_refs s) he h1 dbe HJe Hdbe F1) as (rs & dbf' & Hdbf' & Lr & FR).
  rewrite Hdbf in Hdbf'. inversion Hdbf'; subst dbf'.
  exists dbf. split; [exact Hdbf|].
  assert (Er : d_refs dbe = []).
  { change (klist KRef dbe = []). rewrite (Oe KRef ltac:(discriminate)), (Od KRef ltac:(discriminate)), (Oc KRef ltac:(discriminate)), (Ob KRef ltac:(discriminate)), (Oa KRef ltac:(discriminate)). reflexivity. }
  rewrite Lr, Er. exact FR.
Qed.

Theorem parser_parse_references source allow sq dq h0 h1 d :
  WW h0 -> (forall t tb, h_table h0 t = Some tb -> NoDup (names_of tb)) ->
  (forall st, blueprints_of source allow h0 = (h0, Ok st) -> Forall good_table_bp (ps_tables st)) ->
  parser_parse source allow sq dq h0 = (h1, Ok d) ->
  exists st db, blueprints_of source allow h0 = (h0, Ok st) /\ h_database h1 d = Some db /\ Forall2 (ref_holds h1 d) (ps_refs st) (d_refs db).
Proof.
  intros HW Hgood Hbp H. unfold parser_parse in H. apply bindM_inv in H as [[e [_ H]]|[st [hx [H1 H2]]]]; [discriminate H|].
  pose proof (ro_blueprints_of _ _ _ _ _ H1) as ->.
  destruct (build_database_references _ _ _ _ _ _ _ HW Hgood (Hbp st H1) H2) as (db & Hdb & C).
  exists st, db. split; [exact H1|]. split; [exact Hdb|exact C].
Qed.
