(* Sticky.v — C01, one kind of element followed from its blueprint to the returned database: for every parser state on which
   build_database succeeds, the sticky notes of the database are — one per sticky-note blueprint, in order — objects that hold
   exactly the blueprint's name and its text after note normalisation, and point back to the database.  The object is fixed by the
   step that builds and adds it; the frame theorem taken in the middle of the build (Frame.v) keeps it until the end. *)
From PyDBML Require Import PyStr Py Heap Classes Database Tools PP Actions Build Entry MonadFacts RuleFacts ContainerInv ContainerFull TableInv BuildInv BuildLinks BuildRules BuildDocs BuildRaises Frame Counts.
From Coq Require Import Lia.
Import ListNotations.

Lemma Forall2_impl_s {A B} (R S : A -> B -> Prop) l l' : (forall a b, R a b -> S a b) -> Forall2 R l l' -> Forall2 S l l'.
Proof. intros H F. induction F; constructor; auto. Qed.

(* what a sticky-note blueprint declares *)
Definition declares_sticky (bp : pyv) (nm tx : pystr) : Prop :=
  exists d t, bp = PVBlue 2 d /\ fstr_of d "name" = Some nm /\ fstr_of d "text" = Some t /\ preformat t = Ok tx.

Lemma build_sticky_exact bp h h' o : build_sticky bp h = (h', Ok o) ->
  exists nm tx, declares_sticky bp nm tx /\ h' = h ++ [OSticky (mkSticky nm tx None)] /\ o = length h.
Proof.
  intros H. destruct bp as [| | | | | | |tag d]; try (cbn in H; discriminate H).
  assert (T2 : tag = 2%N \/ build_sticky (PVBlue tag d) h = (h, Raise (EStuck 416))).
  { destruct tag as [|p]; [right; reflexivity|]. destruct p as [q|q|]; [right; destruct q; reflexivity| |right; reflexivity].
    destruct q as [r0|r0|]; [right; reflexivity|right; reflexivity|left; reflexivity]. }
  destruct T2 as [->|T2]; [|rewrite T2 in H; discriminate H].
  unfold build_sticky in H. destruct (fstr_of d "name") as [nm|] eqn:En; [|discriminate H]. destruct (fstr_of d "text") as [t|] eqn:Et; [|discriminate H].
  unfold bindM, lift in H. destruct (preformat t) as [tx|x] eqn:Ep; [|discriminate H]. unfold new_sticky, alloc in H. inversion H; subst.
  exists nm, tx. split; [exists d, t; auto|]. auto.
Qed.

Lemma nth_app_len {A} (h r : list A) x : nth_error (h ++ x :: r) (length h) = Some x.
Proof. rewrite nth_error_app2 by lia. rewrite Nat.sub_diag. reflexivity. Qed.

Lemma replace_app_len {A} (h r : list A) x v : replace_nth (length h) v (h ++ x :: r) = h ++ v :: r.
Proof. induction h as [|a h IH]; cbn; [reflexivity|]. rewrite IH. reflexivity. Qed.

(* the step "build the sticky note, add it": the object, afterwards *)
Lemma sstep_fixes_the_object d bp h h' : d < length h -> sstep d bp h = (h', Ok tt) ->
  exists nm tx, declares_sticky bp nm tx /\ nth_error h' (length h) = Some (OSticky (mkSticky nm tx (Some d))) /\ length h < length h' /\
                h_database h' d = option_map (fun db => db_with_sticky (d_sticky_notes db ++ [length h]) db) (h_database h d).
Proof.
  intros Hd H. unfold sstep in H. apply bindM_inv in H as [[e [_ H]]|[o [h1 [H1 H2]]]]; [discriminate H|].
  destruct (build_sticky_exact _ _ _ _ H1) as (nm & tx & Hdec & -> & ->). exists nm, tx. split; [exact Hdec|].
  unfold db_add in H2. unfold bindM at 1 in H2. unfold lookup in H2. rewrite nth_app_len in H2. cbv beta iota in H2.
  unfold db_add_sticky_note in H2. unfold bindM at 1 in H2. unfold get_sticky, bindM, lookup in H2. rewrite nth_app_len in H2. cbv beta iota in H2. unfold ret in H2. cbv beta iota in H2.
  unfold set_obj_database, bindM, lookup in H2. rewrite nth_app_len in H2. cbv beta iota in H2. unfold store in H2.
  rewrite replace_app_len in H2. cbn [sn_name sn_text] in H2.
  unfold upd_db, get_database, bindM, lookup in H2.
  rewrite nth_error_app1 in H2 by exact Hd.
  unfold h_database. destruct (nth_error h d) as [obd|] eqn:End; [|discriminate H2].
  destruct obd; try discriminate H2. cbv beta iota in H2. unfold ret, store in H2. inversion H2; subst. clear H2.
  assert (Hne : d <> length h) by lia.
  rewrite nth_replace_other by exact Hne. rewrite nth_app_len. split; [reflexivity|]. split; [rewrite length_replace_nth, app_length; cbn; lia|].
  rewrite nth_replace_same by (rewrite app_length; lia). reflexivity.
Qed.

(* what remains of build_database once the enums, tables and groups are done: the sticky notes, then the tail *)
Definition tail_of (d : oid) (proj : option pyv) (refs : list pyv) : M oid :=
  do!! (match proj with Some bp => do! p <- build_project bp ;; db_add d p | None => ret tt end) ;;
  do!! iterM (fun bp => do! r <- build_reference d bp ;; db_add d r) refs ;;
  ret d.
Lemma build_rest_stickies d proj refs l h :
  build_rest (mkPState [] refs [] [] proj l) d h = bindM (iterM (sstep d) l) (fun _ => tail_of d proj refs) h.
Proof. reflexivity. Qed.

Lemma sticky_phase_final d proj refs : forall l h hfin v db,
  d < length h -> h_database h d = Some db -> d_project db = None ->
  build_rest (mkPState [] refs [] [] proj l) d h = (hfin, Ok v) ->
  exists os hd dbd, iterM (sstep d) l h = (hd, Ok tt) /\ h_database hd d = Some dbd /\ d_sticky_notes dbd = d_sticky_notes db ++ os /\
    Forall2 (fun bp o => exists nm tx, declares_sticky bp nm tx /\ nth_error hfin o = Some (OSticky (mkSticky nm tx (Some d)))) l os.
Proof.
  induction l as [|bp l IH]; intros h hfin v db Hd Hdb Hp H.
  - exists [], h, db. rewrite app_nil_r. split; [reflexivity|]. split; [exact Hdb|]. split; [reflexivity|constructor].
  - pose proof H as H0. rewrite build_rest_stickies in H. cbn [iterM] in H. unfold bindM at 1 in H. unfold bindM at 1 in H.
    destruct (sstep d bp h) as [h1 [[]|e]] eqn:E1; [|discriminate H].
    change (build_rest (mkPState [] refs [] [] proj l) d h1 = (hfin, Ok v)) in H.
    destruct (sstep_fixes_the_object d bp h h1 Hd E1) as (nm & tx & Hdec & Ho & Hl & Hdb1). rewrite Hdb in Hdb1. cbn [option_map] in Hdb1.
    assert (Hfr : nth_error hfin (length h) = nth_error h1 (length h)).
    { apply (build_steps_write_only_to_the_database_and_new_objects (mkPState [] refs [] [] proj l) d h1 hfin (Ok v)); [lia| |exact H|exact Hl|lia].
      intros x Hx. rewrite Hdb1 in Hx. inversion Hx; subst. cbn. exact Hp. }
    destruct (IH h1 hfin v _ ltac:(lia) Hdb1 Hp H) as (os & hd & dbd & Hit & Hdbd & Hst & F).
    exists (length h :: os), hd, dbd. split; [cbn [iterM]; unfold bindM; rewrite E1; exact Hit|]. split; [exact Hdbd|].
    split; [rewrite Hst; cbn [d_sticky_notes db_with_sticky]; rewrite <- app_assoc; reflexivity|].
    constructor; [exists nm, tx; split; [exact Hdec|rewrite Hfr; exact Ho]|exact F].
Qed.

Theorem build_database_sticky_notes s allow sq dq h0 h1 dd :
  WW h0 -> (forall t tb, h_table h0 t = Some tb -> NoDup (names_of tb)) -> Forall good_table_bp (ps_tables s) ->
  build_database s allow sq dq h0 = (h1, Ok dd) ->
  exists db, h_database h1 dd = Some db /\
    Forall2 (fun bp o => exists nm tx, declares_sticky bp nm tx /\ h_sticky h1 o = Some (mkSticky nm tx (Some dd)))
            (ps_stickies s) (d_sticky_notes db).
Proof.
  intros HW Hgood Hg H. set (d := length h0).
  destruct (build_database_runs _ _ _ _ _ _ _ H) as (ha & hb & hc & hd & he & -> & A1 & B1 & C1 & D1 & E1 & F1). fold d in A1, B1, C1, D1, E1, F1 |- *.
  set (db0 := mkDatabase [] [] [] [] [] [] None allow sq dq) in *.
  destruct (JTC_initial [] [] h0 allow sq dq HW Hgood) as [HJ0 _]. fold d in HJ0. fold db0 in HJ0.
  assert (Hdb0 : h_database (h0 ++ [ODatabase db0]) d = Some db0).
  { unfold h_database, d. rewrite nth_error_app2 by lia. rewrite Nat.sub_diag. reflexivity. }
  (* enums *)
  destruct (phase_grows d KEnum (estep d) build_enum (ps_enums s)) with (h := h0 ++ [ODatabase db0]) (h' := ha) (db := db0) as [HJa (dba & osa & Hdba & La & Lena & Oa & Fa)]; [|exact HJ0|exact Hdb0|exact A1|].
  { intros bp h h' _ HJ Hst. apply (add_built_grows d (build_enum bp) KEnum h h' HJ); [|apply gdb_of_Rext, gR_build_enum|apply post_build_enum|discriminate|exact Hst].
    intros h1' r Hb. eapply J_Rext; [eapply gR_build_enum; exact Hb|exact HJ]. }
  (* tables *)
  rewrite Forall_forall in Hg.
  destruct (phase_grows d KTable (step d) (build_table d) (ps_tables s)) with (h := ha) (h' := hb) (db := dba) as [HJb (dbb & osb & Hdbb & Lb & Lenb & Ob & Fb)]; [|exact HJa|exact Hdba|exact B1|].
  { intros bp h h' Hin HJ Hst. apply (add_built_grows d (build_table d bp) KTable h h' HJ); [|apply gdb_build_table, Hg, Hin| |discriminate|exact Hst].
    - intros h1' r Hb. exact (proj1 (build_table_keeps_J d bp h h1' r (Hg bp Hin) HJ Hb)).
    - intros hx hy t Hb. apply kind_of_tbl. eapply post_build_table_tbl; exact Hb. }
  (* groups *)
  destruct (phase_grows d KGroup (gstep d) (build_group d) (ps_groups s)) with (h := hb) (h' := hc) (db := dbb) as [HJc (dbc & osc & Hdbc & Lc & Lenc & Oc & Fc)]; [|exact HJb|exact Hdbb|exact C1|].
  { intros bp h h' _ HJ Hst. apply (add_built_grows d (build_group d bp) KGroup h h' HJ); [|apply gdb_of_Rext, gR_build_group|apply post_build_group|discriminate|exact Hst].
    intros h1' r Hb. eapply J_Rext; [eapply gR_build_group; exact Hb|exact HJ]. }
  (* sticky notes *)
  destruct (phase_grows d KSticky (sstep d) build_sticky (ps_stickies s)) with (h := hc) (h' := hd) (db := dbc) as [HJd (dbd & osd & Hdbd & Ld & Lend & Od & Fd)]; [|exact HJc|exact Hdbc|exact D1|].
  { intros bp h h' _ HJ Hst. apply (add_built_grows d (build_sticky bp) KSticky h h' HJ); [|apply gdb_of_Rext, gR_build_sticky|apply post_build_sticky|discriminate|exact Hst].
    intros h1' r Hb. eapply J_Rext; [eapply gR_build_sticky; exact Hb|exact HJ]. }
  (* project *)
  assert (P : J d he /\ exists dbe, h_database he d = Some dbe /\ (forall k', k' <> KProject -> klist k' dbe = klist k' dbd) /\
                                 (d_project dbe = None <-> ps_project s = None /\ d_project dbd = None)).
  { unfold pstep in E1. destruct (ps_project s) as [bp|].
    - apply bindM_inv in E1 as [[e [_ E1]]|[x [hp [X1 X2]]]]; [discriminate E1|].
      assert (HJ1 : J d hp) by (eapply J_Rext; [eapply gR_build_project; exact X1|exact HJd]).
      split; [exact (proj1 (pres_db_add d x _ _ _ HJ1 Logic.I X2))|].
      destruct (J_InvDB _ _ HJ1) as (db1 & ID1 & Hdb1). pose proof (gdb_of_Rext d _ (gR_build_project bp) _ _ _ X1 dbd Hdbd) as Hdb1'. rewrite Hdb1 in Hdb1'. inversion Hdb1'; subst db1.
      destruct (db_add_step hp d dbd x ID1) as [[e R]|(db' & h2 & ob & k0 & Hrun & ID' & Ho & Hk & _ & _ & Hl2 & [Hoth _] & _)].
      { rewrite R in X2. discriminate X2. }
      rewrite Hrun in X2. inversion X2; subst h2.
      destruct (post_build_project _ _ _ _ X1) as (ob' & Hn & Hk'). rewrite Ho in Hn. inversion Hn; subst ob'. rewrite Hk in Hk'. inversion Hk'; subst k0.
      exists db'. split; [destruct ID' as [[A _ _ _ _ _] _ _]; exact A|]. split; [exact Hoth|].
      pose proof (Hl2 eq_refl) as L2. cbn in L2. split; [intros Hn0; rewrite Hn0 in L2; discriminate L2|intros [Hn0 _]; discriminate Hn0].
    - inversion E1; subst. split; [exact HJd|]. exists dbd. split; [exact Hdbd|]. split; [reflexivity|]. tauto. }
  destruct P as [HJe (dbe & Hdbe & Oe & Pe)].
  (* references *)
  destruct (phase_grows d KRef (rstep d) (build_reference d) (ps_refs s)) with (h := he) (h' := h1) (db := dbe) as [HJf (dbf & osf & Hdbf & Lf & Lenf & Of & Ff)]; [|exact HJe|exact Hdbe|exact F1|].
  { intros bp h h' _ HJ Hst. apply (add_built_grows d (build_reference d bp) KRef h h' HJ); [|apply gdb_of_Rext, gR_build_reference|apply post_build_reference|discriminate|exact Hst].
    intros h1' r Hb. eapply J_Rext; [eapply gR_build_reference; exact Hb|exact HJ]. }
  (* the sticky-note phase again, object by object, with the frame theorem *)
  assert (Run : build_rest (mkPState [] (ps_refs s) [] [] (ps_project s) (ps_stickies s)) d hc = (h1, Ok d)).
  { rewrite build_rest_stickies. unfold bindM. rewrite D1. unfold tail_of. unfold pstep in E1. unfold bindM at 1. rewrite E1.
    unfold bindM at 1. unfold rstep in F1. rewrite F1. reflexivity. }
  assert (Hdl : d < length hc).
  { unfold h_database in Hdbc. destruct (nth_error hc d) eqn:En; [|discriminate Hdbc]. eapply nth_some_lt; exact En. }
  assert (Hpc : d_project dbc = None).
  { apply kp_none. rewrite (Oc KProject ltac:(discriminate)), (Ob KProject ltac:(discriminate)), (Oa KProject ltac:(discriminate)). reflexivity. }
  destruct (sticky_phase_final d (ps_project s) (ps_refs s) (ps_stickies s) hc h1 d dbc Hdl Hdbc Hpc Run) as (os & hd' & dbd' & Hit & Hdbd' & Hst & FS).
  rewrite D1 in Hit. inversion Hit; subst hd'. rewrite Hdbd in Hdbd'. inversion Hdbd'; subst dbd'.
  exists dbf. split; [exact Hdbf|].
  assert (St : d_sticky_notes dbf = os).
  { change (klist KSticky dbf = os). rewrite (Of KSticky ltac:(discriminate)), (Oe KSticky ltac:(discriminate)).
    change (d_sticky_notes dbd = os). rewrite Hst.
    change (klist KSticky dbc ++ os = os). rewrite (Oc KSticky ltac:(discriminate)), (Ob KSticky ltac:(discriminate)), (Oa KSticky ltac:(discriminate)). reflexivity. }
  rewrite St. eapply Forall2_impl_s; [|exact FS]. intros bp o (nm & tx & Hdec & Hn). exists nm, tx. split; [exact Hdec|]. unfold h_sticky. rewrite Hn. reflexivity.
Qed.

Theorem parser_parse_sticky_notes source allow sq dq h0 h1 d :
  WW h0 -> (forall t tb, h_table h0 t = Some tb -> NoDup (names_of tb)) ->
  (forall st, blueprints_of source allow h0 = (h0, Ok st) -> Forall good_table_bp (ps_tables st)) ->
  parser_parse source allow sq dq h0 = (h1, Ok d) ->
  exists st db, blueprints_of source allow h0 = (h0, Ok st) /\ h_database h1 d = Some db /\
    Forall2 (fun bp o => exists nm tx, declares_sticky bp nm tx /\ h_sticky h1 o = Some (mkSticky nm tx (Some d)))
            (ps_stickies st) (d_sticky_notes db).
Proof.
  intros HW Hgood Hbp H. unfold parser_parse in H. apply bindM_inv in H as [[e [_ H]]|[st [hx [H1 H2]]]]; [discriminate H|].
  pose proof (ro_blueprints_of _ _ _ _ _ H1) as ->.
  destruct (build_database_sticky_notes _ _ _ _ _ _ _ HW Hgood (Hbp st H1) H2) as (db & Hdb & C).
  exists st, db. split; [exact H1|]. split; [exact Hdb|exact C].
Qed.
