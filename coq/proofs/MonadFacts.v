(* MonadFacts.v — compositional reasoning about the heap monad: read-only computations,
   computations that never raise a given exception, atomicity with respect to an exception. *)
From PyDBML Require Import PyStr Py Heap.
Import ListNotations.

Definition readonly {A} (m : M A) : Prop := forall h h' r, m h = (h', r) -> h' = h.
Definition never {A} (ex : exc) (m : M A) : Prop := forall h h', m h <> (h', Raise ex).
(* if [ex] is raised, the heap is exactly what it was *)
Definition atomic_on {A} (ex : exc) (m : M A) : Prop := forall h h', m h = (h', Raise ex) -> h' = h.

Lemma bindM_inv {A B} (m : M A) (f : A -> M B) h h' r :
  bindM m f h = (h', r) ->
  (exists e, m h = (h', Raise e) /\ r = Raise e) \/ (exists a h1, m h = (h1, Ok a) /\ f a h1 = (h', r)).
Proof.
  unfold bindM. destruct (m h) as [h1 [a|e]]; intros H.
  - right. eauto.
  - left. inversion H; subst. eauto.
Qed.

Lemma ro_ret {A} (a : A) : readonly (ret a). Proof. intros h h' r H. inversion H; auto. Qed.
Lemma ro_raise {A} e : readonly (@raise A e). Proof. intros h h' r H. inversion H; auto. Qed.
Lemma ro_stuck {A} n : readonly (@stuck A n). Proof. intros h h' r H. inversion H; auto. Qed.
Lemma ro_lookup i : readonly (lookup i).
Proof. intros h h' r H. unfold lookup in H. destruct (nth_error h i); inversion H; auto. Qed.
Lemma ro_get_heap : readonly get_heap. Proof. intros h h' r H. inversion H; auto. Qed.
Lemma ro_lift {A} (x : res A) : readonly (lift x). Proof. intros h h' r H. inversion H; auto. Qed.
Lemma ro_bind {A B} (m : M A) (f : A -> M B) : readonly m -> (forall a, readonly (f a)) -> readonly (bindM m f).
Proof.
  intros Hm Hf h h' r H. apply bindM_inv in H as [[e [H1 _]]|[a [h1 [H1 H2]]]].
  - eapply Hm; eauto.
  - apply Hm in H1. subst. eapply Hf; eauto.
Qed.

Ltac ro :=
  repeat first [ apply ro_ret | apply ro_raise | apply ro_stuck | apply ro_lookup | apply ro_get_heap | apply ro_lift
               | apply ro_bind; [|intros ?]
               | match goal with |- readonly (match ?x with _ => _ end) => destruct x end
               | match goal with |- readonly (if ?x then _ else _) => destruct x end ].

Lemma ro_get_table i : readonly (get_table i). Proof. unfold get_table. ro. Qed.
Lemma ro_get_column i : readonly (get_column i). Proof. unfold get_column. ro. Qed.
Lemma ro_get_index i : readonly (get_index i). Proof. unfold get_index. ro. Qed.
Lemma ro_get_database i : readonly (get_database i). Proof. unfold get_database. ro. Qed.
Lemma ro_get_reference i : readonly (get_reference i). Proof. unfold get_reference. ro. Qed.
Lemma ro_get_enum i : readonly (get_enum i). Proof. unfold get_enum. ro. Qed.
Lemma ro_get_group i : readonly (get_group i). Proof. unfold get_group. ro. Qed.
Lemma ro_get_project i : readonly (get_project i). Proof. unfold get_project. ro. Qed.
Lemma ro_get_sticky i : readonly (get_sticky i). Proof. unfold get_sticky. ro. Qed.
Lemma ro_get_note i : readonly (get_note i). Proof. unfold get_note. ro. Qed.

Ltac ro_any :=
  first [ apply ro_get_table | apply ro_get_column | apply ro_get_index | apply ro_get_database
        | apply ro_get_reference | apply ro_get_enum | apply ro_get_group | apply ro_get_project
        | apply ro_get_sticky | apply ro_get_note | solve [ro] ].

(* ---- never ---- *)
Lemma nv_store ex i o : never ex (store i o). Proof. intros h h' H. inversion H. Qed.
Lemma nv_ret {A} ex (a : A) : never ex (ret a). Proof. intros h h' H. inversion H. Qed.
Lemma nv_raise {A} ex e : e <> ex -> never ex (@raise A e).
Proof. intros Hn h h' H. inversion H. congruence. Qed.
Lemma nv_stuck {A} ex n : EStuck n <> ex -> never ex (@stuck A n).
Proof. intros Hn h h' H. inversion H. congruence. Qed.
Lemma nv_lookup ex i : EStuck 1 <> ex -> never ex (lookup i).
Proof. intros Hn h h' H. unfold lookup in H. destruct (nth_error h i); inversion H. congruence. Qed.
Lemma nv_get_heap ex : never ex get_heap. Proof. intros h h' H. inversion H. Qed.
Lemma nv_bind {A B} ex (m : M A) (f : A -> M B) : never ex m -> (forall a, never ex (f a)) -> never ex (bindM m f).
Proof.
  intros Hm Hf h h' H. apply bindM_inv in H as [[e' [H1 He]]|[a [h1 [H1 H2]]]].
  - inversion He; subst. eapply Hm; eauto.
  - eapply Hf; eauto.
Qed.

Ltac nv :=
  repeat first [ apply nv_store | apply nv_ret | apply nv_get_heap
               | apply nv_raise; discriminate | apply nv_stuck; discriminate | apply nv_lookup; discriminate
               | apply nv_bind; [|intros ?]
               | match goal with |- never _ (match ?x with _ => _ end) => destruct x end
               | match goal with |- never _ (if ?x then _ else _) => destruct x end ].

(* ---- atomic_on ---- *)
Lemma at_ro {A} ex (m : M A) : readonly m -> atomic_on ex m.
Proof. intros H h h' E. eapply H; eauto. Qed.
Lemma at_never {A} ex (m : M A) : never ex m -> atomic_on ex m.
Proof. intros H h h' E. exfalso. eapply H; eauto. Qed.
Lemma at_bind_ro {A B} ex (m : M A) (f : A -> M B) :
  readonly m -> (forall a, atomic_on ex (f a)) -> atomic_on ex (bindM m f).
Proof.
  intros Hm Hf h h' H. apply bindM_inv in H as [[e' [H1 He]]|[a [h1 [H1 H2]]]].
  - eapply Hm; eauto.
  - apply Hm in H1. subst. eapply Hf; eauto.
Qed.

Lemma at_bind_nv {A B} ex (m : M A) (f : A -> M B) :
  atomic_on ex m -> (forall a, never ex (f a)) -> atomic_on ex (bindM m f).
Proof.
  intros Hm Hf h h' H. apply bindM_inv in H as [[e' [H1 He]]|[a [h1 [H1 H2]]]].
  - inversion He; subst. eapply Hm; eauto.
  - exfalso. eapply Hf; eauto.
Qed.
