(* LiveLinks.v — C10: the renderers reach names through live links.  Each lemma characterises a piece of rendered text as a
   function of the CURRENT records of the linked objects (columns of an index or a reference, the table of a column, the
   enum of a column type, the tables of a group, the owner of a note); the corollaries say what the next rendering shows
   after a rename (Script.set_attr stores exactly the record the corollaries speak about). *)
From PyDBML Require Import PyStr Py Heap Classes Tools RenderSQL RenderDBML Script ContainerInv ApiFacts.
From Coq Require Import Lia.
Import ListNotations.

Definition with_cname (nm : option pystr) (x : column) : column :=
  mkColumn nm (c_type x) (c_unique x) (c_not_null x) (c_pk x) (c_autoinc x) (c_comment x) (c_note x) (c_properties x) (c_default x) (c_table x).
Definition with_tname (nm sc : option pystr) (x : table) : table :=
  mkTable (t_database x) nm sc (t_columns x) (t_indexes x) (t_alias x) (t_note x) (t_header_color x) (t_comment x) (t_abstract x) (t_properties x).
Definition with_ename (nm sc : option pystr) (x : enum) : enum :=
  mkEnum (e_database x) nm sc (e_comment x) (e_items x).

(* what the script operation `obj.name = v` stores *)
Lemma set_attr_column_name s o x v n : nth_error (st_heap s) o = Some (OColumn x) -> ostr_of v = Some n ->
  set_attr s o 1 v = Some (store o (OColumn (with_cname n x))).
Proof. intros H E. unfold set_attr. rewrite H. cbn. rewrite E. reflexivity. Qed.
Lemma set_attr_table_name s o x v n : nth_error (st_heap s) o = Some (OTable x) -> ostr_of v = Some n ->
  set_attr s o 1 v = Some (store o (OTable (with_tname n (t_schema x) x))).
Proof. intros H E. unfold set_attr. rewrite H. cbn. rewrite E. reflexivity. Qed.
Lemma set_attr_table_schema s o x v n : nth_error (st_heap s) o = Some (OTable x) -> ostr_of v = Some n ->
  set_attr s o 2 v = Some (store o (OTable (with_tname (t_name x) n x))).
Proof. intros H E. unfold set_attr. rewrite H. cbn. rewrite E. reflexivity. Qed.
Lemma set_attr_enum_name s o x v n : nth_error (st_heap s) o = Some (OEnum x) -> ostr_of v = Some n ->
  set_attr s o 1 v = Some (store o (OEnum (with_ename n (e_schema x) x))).
Proof. intros H E. unfold set_attr. rewrite H. cbn. rewrite E. reflexivity. Qed.

Lemma h_column_stored h c x : c < length h -> h_column (replace_nth c (OColumn x) h) c = Some x.
Proof. intros L. unfold h_column. rewrite nth_replace_same by exact L. reflexivity. Qed.
Lemma h_table_stored h c x : c < length h -> h_table (replace_nth c (OTable x) h) c = Some x.
Proof. intros L. unfold h_table. rewrite nth_replace_same by exact L. reflexivity. Qed.
Lemma h_enum_stored h c x : c < length h -> h_enum (replace_nth c (OEnum x) h) c = Some x.
Proof. intros L. unfold h_enum. rewrite nth_replace_same by exact L. reflexivity. Qed.

(* ---- mapM over linked objects = map over their current records ---- *)
Lemma mapM_current {A B} (get : oid -> option A) (f : oid -> res B) (g : A -> B) ids recs :
  (forall i a, get i = Some a -> f i = Ok (g a)) ->
  Forall2 (fun i a => get i = Some a) ids recs -> mapM f ids = Ok (map g recs).
Proof.
  intros Hf F. induction F as [|i a ids recs Hi _ IH]; [reflexivity|]. cbn. rewrite (Hf _ _ Hi). cbn. rewrite IH. reflexivity.
Qed.

Lemma ok_inj {A} (a b : A) : @Ok A a = Ok b -> a = b. Proof. congruence. Qed.
Lemma app4 {A} (a b c d r : list A) : (a ++ b ++ c ++ d) ++ r = a ++ b ++ c ++ d ++ r.
Proof. rewrite <- !app_assoc. reflexivity. Qed.
Lemma app5 {A} (z a b c d r : list A) : (z ++ a ++ b ++ c ++ d) ++ r = z ++ a ++ b ++ c ++ d ++ r.
Proof. rewrite <- !app_assoc. reflexivity. Qed.

(* ---- SQL ---- *)
Theorem sql_col_names_current h cols ccs : Forall2 (fun c cc => h_column h c = Some cc) cols ccs ->
  col_names h cols = Ok (join (s2l ", ") (map (fun cc => q2 (fstr (c_name cc))) ccs)).
Proof.
  intros F. unfold col_names. erewrite (mapM_current (h_column h) _ (fun cc => q2 (fstr (c_name cc)))); [reflexivity| |exact F].
  intros i a E. rewrite E. reflexivity.
Qed.

Theorem sql_ref_table_current h c rest cc t tb : h_column h c = Some cc -> c_table cc = Some t -> h_table h t = Some tb ->
  first_table_full_name h (c :: rest) = Ok (full_name_for_sql (t_schema tb) (t_name tb)).
Proof. intros H1 H2 H3. cbn. rewrite H1, H2, H3. reflexivity. Qed.

Theorem sql_index_subject_current h c cc : h_column h c = Some cc -> sql_subject h (SubCol c) = Ok (q2 (fstr (c_name cc))).
Proof. intros H. cbn. rewrite H. reflexivity. Qed.

(* a (non-pk) index statement names its table as the table is called now *)
Theorem sql_index_table_current h i t tb s : i_pk i = false -> i_table i = Some t -> h_table h t = Some tb -> sql_index h i = Ok s ->
  exists pre post, s = pre ++ s2l "ON " ++ full_name_for_sql (t_schema tb) (t_name tb) ++ cSP :: post.
Proof.
  intros Hpk Ht Htb. unfold sql_index. destruct (check_attributes (OIndex i)) as [[]|e]; [|discriminate]. cbn [bind].
  destruct (i_subjects i) as [subs|]; [|discriminate]. destruct (mapM (sql_subject h) subs) as [ks|e]; [|discriminate]. cbn [bind].
  rewrite Hpk, Ht, Htb. cbn [bind]. intros E. apply ok_inj in E. subst s. unfold with_comment.
  set (U := if i_unique i then s2l "UNIQUE " else []). set (Nm := if truthy (i_name i) then q2 (fstr (i_name i)) ++ [cSP] else []).
  set (P := (if truthy (i_type i) then s2l "USING " ++ upper (fstr (i_type i)) ++ [cSP] else []) ++ 40%N :: join (s2l ", ") ks ++ s2l ");").
  destruct (truthy (i_comment i)).
  - exists (comment_to_sql (fstr (i_comment i)) ++ s2l "CREATE " ++ U ++ s2l "INDEX " ++ Nm), P. etransitivity; [|symmetry; apply app5]. reflexivity.
  - exists (s2l "CREATE " ++ U ++ s2l "INDEX " ++ Nm), P. etransitivity; [|symmetry; apply app4]. reflexivity.
Qed.

(* a column of enum type is declared with the enum's current qualified name *)
Theorem sql_column_enum_current h c e en s : c_type c = CTEnum e -> h_enum h e = Some en -> sql_column h c = Ok s ->
  exists pre post, s = pre ++ q2 (fstr (c_name c)) ++ cSP :: full_name_for_sql (e_schema en) (e_name en) ++ post.
Proof.
  intros Ht He. unfold sql_column. destruct (check_attributes (OColumn c)) as [[]|x]; [|discriminate]. cbn [bind].
  rewrite Ht, He. cbn [bind].
  match goal with |- bind ?D _ = _ -> _ => destruct D as [dflt|x]; [|discriminate] end. cbn [bind].
  intros E. apply ok_inj in E. subst s. unfold with_comment.
  match goal with |- context [join [cSP] ([?a; ?b] ++ ?r)] => set (R := r); change ([a; b] ++ R) with (a :: b :: R) end.
  assert (J : forall a b, join [cSP] (a :: b :: R) = a ++ cSP :: b ++ match R with [] => [] | _ => cSP :: join [cSP] R end).
  { intros a b. unfold join. destruct R as [|r0 R']; cbn; rewrite <- ?app_assoc; cbn; try rewrite app_nil_r; reflexivity. }
  rewrite J. destruct (truthy (c_comment c)).
  - eexists (comment_to_sql (fstr (c_comment c))), _. rewrite <- ?app_assoc. cbn. reflexivity.
  - exists [], (match R with [] => [] | _ => cSP :: join [cSP] R end). cbn. rewrite <- ?app_assoc. reflexivity.
Qed.

(* COMMENT ON addresses the owner of the note as it is called now *)
Theorem sql_note_owner_table_current h n p t : n_text n <> [] -> n_parent n = Some p -> h_table h p = Some t ->
  sql_note h n = Ok (s2l "COMMENT ON TABLE " ++ full_name_for_sql (t_schema t) (t_name t) ++ s2l " IS " ++ cSQ :: prepare_text_for_sql (n_text n) ++ [cSQ; 59%N]).
Proof.
  intros Hn Hp Ht. unfold sql_note. destruct (n_text n) as [|c0 r0] eqn:E; [contradiction|]. rewrite Hp.
  unfold h_table in Ht. destruct (nth_error h p) as [[]|]; try discriminate Ht. inversion Ht. subst. cbn. rewrite <- ?app_assoc. reflexivity.
Qed.
Theorem sql_note_owner_column_current h n p c : n_text n <> [] -> n_parent n = Some p -> h_column h p = Some c ->
  sql_note h n = Ok (s2l "COMMENT ON COLUMN " ++ q2 (fstr (c_name c)) ++ s2l " IS " ++ cSQ :: prepare_text_for_sql (n_text n) ++ [cSQ; 59%N]).
Proof.
  intros Hn Hp Ht. unfold sql_note. destruct (n_text n) as [|c0 r0] eqn:E; [contradiction|]. rewrite Hp.
  unfold h_column in Ht. destruct (nth_error h p) as [[]|]; try discriminate Ht. inversion Ht. subst. cbn. rewrite <- ?app_assoc. reflexivity.
Qed.

(* ---- DBML ---- *)
Theorem dbml_ref_columns_current h cols ccs : Forall2 (fun c cc => h_column h c = Some cc) cols ccs ->
  render_col h cols = Ok (match map (fun cc => q2 (fstr (c_name cc))) ccs with
                          | [n] => n
                          | ns => 40%N :: join (s2l ", ") ns ++ [41%N]
                          end).
Proof.
  intros F. unfold render_col. erewrite (mapM_current (h_column h) _ (fun cc => q2 (fstr (c_name cc)))); [| |exact F].
  - cbn. destruct (map _ ccs) as [|a [|b r]]; reflexivity.
  - intros i a E. rewrite E. reflexivity.
Qed.

Theorem dbml_table_name_current h t tb : h_table h t = Some tb ->
  otable_full_name_dbml h (Some t) = Ok (full_name_for_dbml (t_schema tb) (t_name tb)).
Proof. intros H. cbn. rewrite H. reflexivity. Qed.

Theorem dbml_group_items_current h g ts s : Forall2 (fun t tb => h_table h t = Some tb) (g_items g) ts -> dbml_group h g = Ok s ->
  exists pre post, s = pre ++ concat (map (fun tb => s2l "    " ++ full_name_for_dbml (t_schema tb) (t_name tb) ++ [cLF]) ts) ++ post.
Proof.
  intros F. unfold dbml_group. destruct (doublequote_string (g_name g)) as [qn|x]; [|discriminate]. cbn [bind].
  erewrite (mapM_current (h_table h) _ (fun tb => s2l "    " ++ full_name_for_dbml (t_schema tb) (t_name tb) ++ [cLF])); [| |exact F].
  2:{ intros i a E. rewrite E. reflexivity. }
  cbn [bind]. match goal with |- bind ?D _ = _ -> _ => destruct D as [nt|x]; [|discriminate] end. cbn [bind].
  intros E. apply ok_inj in E. subst s. unfold with_comment_dbml.
  set (C := if truthy (g_color g) then s2l " [color: " ++ fstr (g_color g) ++ s2l "]" else []).
  set (I := concat (map (fun tb => s2l "    " ++ full_name_for_dbml (t_schema tb) (t_name tb) ++ [cLF]) ts)).
  destruct (truthy (g_comment g)).
  - exists (comment_to_dbml (fstr (g_comment g)) ++ s2l "TableGroup " ++ qn ++ C ++ (s2l " {" ++ [cLF])), (nt ++ s2l "}").
    etransitivity; [|symmetry; apply app5]. reflexivity.
  - exists (s2l "TableGroup " ++ qn ++ C ++ (s2l " {" ++ [cLF])), (nt ++ s2l "}").
    etransitivity; [|symmetry; apply app4]. reflexivity.
Qed.

(* ---- what the next rendering shows after a rename ---- *)
Theorem renamed_column_in_index_sql h c cc nm : h_column h c = Some cc -> c < length h ->
  sql_subject (fst (store c (OColumn (with_cname nm cc)) h)) (SubCol c) = Ok (q2 (fstr nm)).
Proof. intros _ L. cbn [store fst]. rewrite (sql_index_subject_current _ c (with_cname nm cc)); [reflexivity|apply h_column_stored; exact L]. Qed.

Theorem renamed_table_in_reference_sql h c rest cc t tb nm sc : h_column h c = Some cc -> c_table cc = Some t -> h_table h t = Some tb -> c <> t -> t < length h ->
  first_table_full_name (fst (store t (OTable (with_tname nm sc tb)) h)) (c :: rest) = Ok (full_name_for_sql sc nm).
Proof.
  intros Hc Ht Htb Hne L. cbn [store fst].
  rewrite (sql_ref_table_current _ c rest cc t (with_tname nm sc tb)); [reflexivity| |exact Ht|apply h_table_stored; exact L].
  unfold h_column. rewrite nth_replace_other by (intro; subst; apply Hne; reflexivity). exact Hc.
Qed.

Theorem renamed_enum_in_column_sql h c e en nm sc s : c_type c = CTEnum e -> h_enum h e = Some en -> e < length h ->
  sql_column (fst (store e (OEnum (with_ename nm sc en)) h)) c = Ok s ->
  exists pre post, s = pre ++ q2 (fstr (c_name c)) ++ cSP :: full_name_for_sql sc nm ++ post.
Proof. intros Ht _ L. cbn [store fst]. apply (sql_column_enum_current _ c e (with_ename nm sc en) s Ht). apply h_enum_stored; exact L. Qed.

Theorem renamed_table_in_group_dbml h t tb nm sc : h_table h t = Some tb -> t < length h ->
  otable_full_name_dbml (fst (store t (OTable (with_tname nm sc tb)) h)) (Some t) = Ok (full_name_for_dbml sc nm).
Proof. intros _ L. cbn [store fst]. rewrite (dbml_table_name_current _ t (with_tname nm sc tb)); [reflexivity|apply h_table_stored; exact L]. Qed.

(* ---- a concrete renamed column, evaluated: the index statement of the table shows the new name ---- *)
Definition ll_note : obj := ONote (mkNote [] None).
Definition ll_col : column := mkColumn (Some (s2l "old")) (CTStr (s2l "int")) false false false false None 0 [] DNone (Some 2).
Definition ll_tab : table := mkTable None (Some (s2l "t")) (Some (s2l "public")) [1] [3] None 0 None None false [].
Definition ll_idx : index := mkIndex (Some [SubCol 1]) (Some 2) None false None false 0 None.
Definition ll_heap : heap := [ll_note; OColumn ll_col; OTable ll_tab; OIndex ll_idx].
Example renamed_column_example :
  sql_index ll_heap ll_idx = Ok (s2l "CREATE INDEX ON ""t"" (""old"");") /\
  sql_index (fst (store 1 (OColumn (with_cname (Some (s2l "new")) ll_col)) ll_heap)) ll_idx = Ok (s2l "CREATE INDEX ON ""t"" (""new"");").
Proof. split; vm_compute; reflexivity. Qed.
