(* BuildRefs.v — C06 at the level of documents: a reference repeated (same endpoints as written, kind, name, comment and actions; inline or not) never builds. *)
From PyDBML Require Import PyStr Py Heap Classes Database Tools PP Actions Build GenClasses GenGrammar Entry MonadFacts ToolsFacts RuleFacts ContainerInv ContainerFull TableInv BuildInv BuildLinks BuildRules BuildDocs.
From Coq Require Import Lia.
Import ListNotations.

(* ---- what makes two references equal: everything but the database pointer and the inline flag ---- *)
Definition refdata := (option pystr * option (list oid) * option (list oid) * option pystr * option pystr * option pystr * option pystr)%type.
Definition refdata_of (r : reference) : refdata :=
  (r_type r, r_col1 r, r_col2 r, r_name r, r_comment r, r_on_update r, r_on_delete r).

Definition Rr (h h' : heap) : Prop :=
  forall x r, h_reference h x = Some r -> exists r', h_reference h' x = Some r' /\ refdata_of r' = refdata_of r.
Lemma Rr_refl h : Rr h h. Proof. intros x r H. eauto. Qed.
Lemma Rr_trans a b c : Rr a b -> Rr b c -> Rr a c.
Proof. intros H1 H2 x r H. destruct (H1 _ _ H) as (r1 & A & B). destruct (H2 _ _ A) as (r2 & C & D). exists r2. split; [exact C|congruence]. Qed.
Definition rview (ob : obj) : option refdata := match ob with OReference r => Some (refdata_of r) | _ => None end.
Lemma h_reference_nth h x r : h_reference h x = Some r <-> nth_error h x = Some (OReference r).
Proof. unfold h_reference. destruct (nth_error h x) as [[]|]; split; intros H; inversion H; reflexivity. Qed.
Lemma Rr_store h o ob ob' : nth_error h o = Some ob -> rview ob' = rview ob -> Rr h (replace_nth o ob' h).
Proof.
  intros Ho E x r H. destruct (Nat.eq_dec o x) as [<-|N].
  - apply h_reference_nth in H. rewrite Ho in H. inversion H; subst ob. destruct ob'; try discriminate E. cbn in E.
    exists r0. split; [apply h_reference_nth; apply (nth_replace_same' _ _ _ _ Ho)|congruence].
  - exists r. split; [|reflexivity]. unfold h_reference in *. rewrite nth_replace_other by exact N. exact H.
Qed.
Lemma Rr_app h ob : Rr h (h ++ [ob]).
Proof.
  intros x r H. exists r. split; [|reflexivity]. apply h_reference_nth. apply h_reference_nth in H.
  rewrite nth_error_app1; [exact H|eapply nth_some_lt; eauto].
Qed.
Lemma gr_alloc ob : guar Rr (alloc ob). Proof. intros h h' r H. unfold alloc in H. inversion H; subst. apply Rr_app. Qed.
Lemma gr_set_obj_database o v : guar Rr (set_obj_database o v).
Proof.
  intros h h' r H. unfold set_obj_database, bindM, lookup in H. destruct (nth_error h o) as [ob|] eqn:E.
  - destruct ob; inversion H; subst; try apply Rr_refl; (eapply Rr_store; [exact E|reflexivity]).
  - inversion H; subst. apply Rr_refl.
Qed.
Lemma gr_upd_db d f : guar Rr (upd_db d f).
Proof.
  intros h h' r H. unfold upd_db, get_database, bindM, lookup in H. destruct (nth_error h d) as [ob|] eqn:E.
  - destruct ob; inversion H; subst; try apply Rr_refl. eapply Rr_store; [exact E|reflexivity].
  - inversion H; subst. apply Rr_refl.
Qed.
Ltac gr :=
  repeat first [ apply gr_alloc | apply gr_set_obj_database | apply gr_upd_db
               | apply (g_ro _ Rr_refl); solve [ro_any]
               | apply (g_bind _ Rr_trans); [|intros ?]
               | apply (g_mapMM _ Rr_refl Rr_trans); intros ?
               | match goal with |- guar _ (match ?x with _ => _ end) => destruct x end
               | match goal with |- guar _ (if ?x then _ else _) => destruct x end ].
Lemma gr_build_reference d bp : guar Rr (build_reference d bp).
Proof. unfold build_reference, new_reference. gr; try (apply (g_ro _ Rr_refl); first [apply ro_locate_table|apply ro_table_getitem]). Qed.
Lemma gr_db_add_reference d o : guar Rr (db_add_reference d o). Proof. unfold db_add_reference. gr. Qed.

(* ---- how the two sides of a reference blueprint resolve in a heap ---- *)
Definition sch_of (dd : list (pystr * pyv)) (k : string) : pystr := match fstr_of dd k with Some s => s | None => K "public" end.
Definition Res (d : oid) (dd : list (pystr * pyv)) (h : heap) (c1 c2 : list oid) : Prop :=
  exists t1n t2n c1s c2s t1 t2,
    fstr_of dd "table1" = Some t1n /\ fstr_of dd "table2" = Some t2n /\ fstr_of dd "col1" = Some c1s /\ fstr_of dd "col2" = Some c2s /\
    locate_table d (sch_of dd "schema1") t1n h = (h, Ok t1) /\
    mapMM (fun c => table_getitem t1 (KStr (strip_paren_blank c))) (split_on 44%N c1s) h = (h, Ok c1) /\
    locate_table d (sch_of dd "schema2") t2n h = (h, Ok t2) /\
    mapMM (fun c => table_getitem t2 (KStr (strip_paren_blank c))) (split_on 44%N c2s) h = (h, Ok c2).

Lemma ro_mapMM_getitem t l : readonly (mapMM (fun c => table_getitem t (KStr (strip_paren_blank c))) l).
Proof.
  induction l as [|a l IH]; cbn [mapMM]; [apply ro_ret|].
  apply ro_bind; [apply ro_table_getitem|intros y]. apply ro_bind; [exact IH|intros ys; apply ro_ret].
Qed.

(* a reference that was built: its sides resolved, and the new object is the last of the heap *)
Lemma build_reference_shape d dd h h' r :
  build_reference d (PVBlue 4 dd) h = (h', Ok r) ->
  exists c1 c2, Res d dd h c1 c2 /\ r = length h /\
    h' = h ++ [OReference (mkReference None (fstr_of dd "type") (Some c1) (Some c2) (or_none (fstr_of dd "name")) (fstr_of dd "comment")
                                       (fstr_of dd "on_update") (fstr_of dd "on_delete") (fbool_of dd "inline"))].
Proof.
  intros H. unfold build_reference in H.
  destruct (fstr_of dd "table1") as [t1n|] eqn:E1; [|destruct (fstr_of dd "table2"), (fstr_of dd "col1"), (fstr_of dd "col2"); discriminate H].
  destruct (fstr_of dd "table2") as [t2n|] eqn:E2; [|destruct (fstr_of dd "col1"), (fstr_of dd "col2"); discriminate H].
  destruct (fstr_of dd "col1") as [c1s|] eqn:E3; [|destruct (fstr_of dd "col2"); discriminate H].
  destruct (fstr_of dd "col2") as [c2s|] eqn:E4; [|discriminate H].
  cbv beta iota zeta in H.
  apply bindM_inv in H as [[e [_ H]]|[t1 [h1 [L1 H]]]]; [discriminate H|]. pose proof (ro_locate_table _ _ _ _ _ _ L1) as ->.
  apply bindM_inv in H as [[e [_ H]]|[c1 [h2 [M1 H]]]]; [discriminate H|]. pose proof (ro_mapMM_getitem _ _ _ _ _ M1) as ->.
  apply bindM_inv in H as [[e [_ H]]|[t2 [h3 [L2 H]]]]; [discriminate H|]. pose proof (ro_locate_table _ _ _ _ _ _ L2) as ->.
  apply bindM_inv in H as [[e [_ H]]|[c2 [h4 [M2 H]]]]; [discriminate H|]. pose proof (ro_mapMM_getitem _ _ _ _ _ M2) as ->.
  unfold new_reference, alloc in H. injection H as <- <-.
  exists c1, c2. split; [|split; reflexivity].
  exists t1n, t2n, c1s, c2s, t1, t2. unfold sch_of. repeat split; assumption.
Qed.

(* two blueprints that agree on every field equality looks at (and on the addresses) *)
Definition samekey (dd dd' : list (pystr * pyv)) : Prop :=
  Forall (fun k => fstr_of dd k = fstr_of dd' k)
         ["type"; "table1"; "schema1"; "col1"; "table2"; "schema2"; "col2"; "name"; "comment"; "on_update"; "on_delete"]%string.

Lemma Res_samekey d dd dd' h c1 c2 : samekey dd dd' -> Res d dd h c1 c2 -> Res d dd' h c1 c2.
Proof.
  intros SK (t1n & t2n & c1s & c2s & t1 & t2 & A1 & A2 & A3 & A4 & L1 & M1 & L2 & M2).
  unfold samekey in SK. repeat match type of SK with Forall _ (_ :: _) => let E := fresh "E" in inversion SK as [|? ? E SK']; clear SK; rename SK' into SK; subst end.
  exists t1n, t2n, c1s, c2s, t1, t2. unfold sch_of in *.
  repeat match goal with E : fstr_of dd ?k = fstr_of dd' ?k |- _ => rewrite <- E; clear E end.
  repeat split; assumption.
Qed.

Lemma Res_deterministic d dd h c1 c2 c1' c2' : Res d dd h c1 c2 -> Res d dd h c1' c2' -> c1 = c1' /\ c2 = c2'.
Proof.
  intros (t1n & t2n & c1s & c2s & t1 & t2 & A1 & A2 & A3 & A4 & L1 & M1 & L2 & M2)
         (t1n' & t2n' & c1s' & c2s' & t1' & t2' & B1 & B2 & B3 & B4 & L1' & M1' & L2' & M2').
  rewrite A1 in B1. rewrite A2 in B2. rewrite A3 in B3. rewrite A4 in B4. inversion B1; inversion B2; inversion B3; inversion B4; subst.
  rewrite L1 in L1'. inversion L1'; subst. rewrite L2 in L2'. inversion L2'; subst.
  rewrite M1 in M1'. rewrite M2 in M2'. inversion M1'; inversion M2'. split; reflexivity.
Qed.

(* ---- the answers do not change while references are being added: the name index and the tables' columns stay ---- *)
Definition stable (d : oid) (h h' : heap) : Prop :=
  (forall db, h_database h d = Some db -> exists db', h_database h' d = Some db' /\ d_table_dict db' = d_table_dict db
                                                   /\ incl (d_refs db) (d_refs db')) /\
  Rcb (length h) h h' /\ Rr h h'.

Lemma locate_table_stable d s n h h' t : stable d h h' -> locate_table d s n h = (h, Ok t) -> locate_table d s n h' = (h', Ok t).
Proof.
  intros (Sd & _ & _) H. unfold locate_table, bindM in *. unfold get_database, bindM, lookup in *.
  destruct (nth_error h d) as [[tb|c|i|rf|en|ei|nt|sn|x|p|g|db]|] eqn:E; try discriminate H.
  cbv beta iota in H. unfold ret in H.
  destruct (Sd db) as (db' & Hd' & Ed & _); [unfold h_database; rewrite E; reflexivity|].
  rewrite (h_database_nth _ _ _ Hd'). cbv beta iota. unfold ret. rewrite Ed.
  destruct (dict_get n (d_table_dict db)) as [t0|]; [inversion H; reflexivity|].
  destruct (dict_get (s ++ 46%N :: n) (d_table_dict db)) as [t0|]; [inversion H; reflexivity|discriminate H].
Qed.

Lemma getitem_stable d h h' t s c : WW h -> stable d h h' -> table_getitem t (KStr s) h = (h, Ok c) -> table_getitem t (KStr s) h' = (h', Ok c).
Proof.
  intros HW (_ & Rc & _) H. unfold table_getitem in *. unfold bindM at 1 in H.
  unfold get_table, bindM, lookup in H. destruct (nth_error h t) as [[tb|c0|i|rf|en|ei|nt|sn|x|p|g|db]|] eqn:E; try discriminate H.
  cbv beta iota in H. unfold ret, get_heap in H. cbv beta iota in H.
  destruct (Rc t _ (nth_some_lt _ _ _ E) E) as (ob' & A & B). destruct ob' as [tb'| | | | | | | | | | |]; try discriminate B. cbn in B. inversion B as [B'].
  unfold bindM at 1. unfold get_table, bindM, lookup. rewrite A. cbv beta iota. unfold ret, get_heap. cbv beta iota. rewrite B'.
  assert (Hw : forall c1, In c1 (t_columns tb) -> exists ob, nth_error h c1 = Some ob).
  { intros c1 Hin. destruct (HW CKCol) as [_ FW _]. destruct (FW t tb c1 ltac:(unfold h_table; rewrite E; reflexivity) Hin) as (ob & Ho & _). eauto. }
  assert (Ef : forall l, (forall c1, In c1 l -> exists ob, nth_error h c1 = Some ob) ->
             find (fun c1 => match h_column h' c1 with Some cc => ostr_eqb (c_name cc) (Some s) | None => false end) l =
             find (fun c1 => match h_column h c1 with Some cc => ostr_eqb (c_name cc) (Some s) | None => false end) l).
  { induction l as [|c1 l IH]; intros Hl; [reflexivity|]. cbn [find].
    destruct (Hl c1 (or_introl eq_refl)) as (ob & Ho). destruct (Rc c1 _ (nth_some_lt _ _ _ Ho) Ho) as (ob1 & A1 & B1).
    assert (Eq : match h_column h' c1 with Some cc => ostr_eqb (c_name cc) (Some s) | None => false end =
                 match h_column h c1 with Some cc => ostr_eqb (c_name cc) (Some s) | None => false end).
    { unfold h_column. rewrite A1, Ho. destruct ob, ob1; try discriminate B1; try reflexivity. cbn in B1. inversion B1 as [B2]. rewrite B2. reflexivity. }
    rewrite Eq. destruct (match h_column h c1 with Some cc => ostr_eqb (c_name cc) (Some s) | None => false end); [reflexivity|].
    apply IH. intros c2 Hc2. apply Hl. right. exact Hc2. }
  rewrite (Ef _ Hw).
  destruct (find _ (t_columns tb)) as [c1|]; [inversion H; reflexivity|discriminate H].
Qed.

Lemma mapMM_getitem_stable d h h' t l : WW h -> stable d h h' -> forall cs,
  mapMM (fun c => table_getitem t (KStr (strip_paren_blank c))) l h = (h, Ok cs) ->
  mapMM (fun c => table_getitem t (KStr (strip_paren_blank c))) l h' = (h', Ok cs).
Proof.
  intros HW S. induction l as [|a l IH]; intros cs H; cbn [mapMM] in *; [inversion H; reflexivity|].
  apply bindM_inv in H as [[e [_ H]]|[y [h1 [H1 H]]]]; [discriminate H|]. pose proof (ro_table_getitem _ _ _ _ _ H1) as ->.
  apply bindM_inv in H as [[e [_ H]]|[ys [h2 [H2 H]]]]; [discriminate H|]. pose proof (ro_mapMM_getitem _ _ _ _ _ H2) as ->.
  unfold ret in H. inversion H; subst cs.
  unfold bindM at 1. rewrite (getitem_stable d h h' t _ y HW S H1). unfold bindM at 1. rewrite (IH _ H2). reflexivity.
Qed.

Lemma Res_stable d dd h h' c1 c2 : WW h -> stable d h h' -> Res d dd h c1 c2 -> Res d dd h' c1 c2.
Proof.
  intros HW S (t1n & t2n & c1s & c2s & t1 & t2 & A1 & A2 & A3 & A4 & L1 & M1 & L2 & M2).
  exists t1n, t2n, c1s, c2s, t1, t2. repeat split; try assumption.
  - exact (locate_table_stable _ _ _ _ _ _ S L1).
  - exact (mapMM_getitem_stable d h h' t1 _ HW S _ M1).
  - exact (locate_table_stable _ _ _ _ _ _ S L2).
  - exact (mapMM_getitem_stable d h h' t2 _ HW S _ M2).
Qed.

Lemma stable_refl d h : stable d h h.
Proof. split; [intros db H; exists db; split; [exact H|split; [reflexivity|apply incl_refl]]|split; [apply Rcb_refl|apply Rr_refl]]. Qed.
Lemma Rcb_weaken n m h h' : m <= n -> Rcb n h h' -> Rcb m h h'.
Proof. intros L R x ob Hx H. apply R; [lia|exact H]. Qed.
Lemma stable_trans d a b c : stable d a b -> stable d b c -> stable d a c.
Proof.
  intros (D1 & C1 & R1) (D2 & C2 & R2). split; [|split].
  - intros db H. destruct (D1 db H) as (db1 & H1 & E1 & I1). destruct (D2 db1 H1) as (db2 & H2 & E2 & I2).
    exists db2. split; [exact H2|]. split; [congruence|]. intros x Hx. apply I2, I1, Hx.
  - eapply Rcb_trans; [exact C1|]. eapply Rcb_weaken; [|exact C2]. apply Rcb_len. exact C1.
  - eapply Rr_trans; eauto.
Qed.

Lemma gr_db_add d o : guar Rr (db_add d o).
Proof.
  unfold db_add. apply (g_bind _ Rr_trans); [apply (g_ro _ Rr_refl), ro_lookup|intros ob].
  destruct ob; try (apply (g_ro _ Rr_refl), ro_raise).
  - unfold db_add_table. gr.
  - unfold db_add_reference. gr.
  - unfold db_add_enum. gr.
  - unfold db_add_sticky_note. gr.
  - unfold db_add_project, db_delete_project. gr.
  - unfold db_add_table_group. gr.
Qed.

Lemma stable_of_Rext d h h' : Rext h h' -> Rr h h' -> stable d h h'.
Proof.
  intros R RR. split; [|split; [apply Rcb_Rext; exact R|exact RR]].
  intros db H. exists db. split; [exact (Rext_db _ _ _ _ R H)|split; [reflexivity|apply incl_refl]].
Qed.

(* one reference step: J is kept, and the step is stable *)
Lemma rstep_stable d bp h h' r : J d h -> rstep d bp h = (h', r) -> J d h' /\ stable d h h'.
Proof.
  intros HJ H. split.
  { destruct (pres_build_then_add d (build_reference d) bp (gR_build_reference d bp) _ _ _ HJ Logic.I H) as [X _]. exact X. }
  unfold rstep in H. apply bindM_inv in H as [[e [H1 _]]|[x [h1 [H1 H2]]]].
  - apply stable_of_Rext; [exact (gR_build_reference d bp _ _ _ H1)|exact (gr_build_reference d bp _ _ _ H1)].
  - pose proof (gR_build_reference d bp _ _ _ H1) as R.
    eapply stable_trans; [apply stable_of_Rext; [exact R|exact (gr_build_reference d bp _ _ _ H1)]|].
    destruct HJ as (db & I). pose proof (Inv_Rext _ _ _ _ R I) as I1. pose proof I1 as [ID1 _]. pose proof ID1 as [[Idb1 _ _ _ _ _] _ _].
    destruct (post_build_reference d bp _ _ _ H1) as (ob & Hob & Hkind).
    split; [|split; [exact (gcb_db_add _ d x _ _ _ H2)|exact (gr_db_add d x _ _ _ H2)]].
    intros db0 Hdb0. rewrite Idb1 in Hdb0. inversion Hdb0; subst db0.
    destruct (db_add_step h1 d db x ID1) as [[e R']|(db' & h2 & ob' & k' & Hrun & ID' & Ho & Hkd & Hm & Hl1 & _ & Hoth & _)].
    + rewrite R' in H2. inversion H2; subst. exists db. split; [exact Idb1|split; [reflexivity|apply incl_refl]].
    + rewrite Hrun in H2. inversion H2; subst h2 r. destruct ID' as [[Idb' _ _ _ _ _] _ _].
      rewrite Hob in Ho. inversion Ho; subst ob'. rewrite Hkind in Hkd. inversion Hkd; subst k'.
      exists db'. split; [exact Idb'|]. destruct Hoth as [_ Hd]. split; [apply Hd; discriminate|].
      change (incl (klist KRef db) (klist KRef db')). rewrite (Hl1 ltac:(discriminate)). apply incl_appl, incl_refl.
Qed.

Lemma J_WW d h : J d h -> WW h. Proof. intros (db & _ & HW). exact HW. Qed.

Lemma rsteps_stable d l : forall h h' r, J d h -> iterM (rstep d) l h = (h', r) -> J d h' /\ stable d h h'.
Proof.
  induction l as [|bp l IH]; intros h h' r HJ H; cbn [iterM] in H.
  - inversion H; subst. split; [exact HJ|apply stable_refl].
  - apply bindM_inv in H as [[e [H1 _]]|[u [h1 [H1 H2]]]].
    + exact (rstep_stable d bp _ _ _ HJ H1).
    + destruct (rstep_stable d bp _ _ _ HJ H1) as [HJ1 S1]. destruct (IH _ _ _ HJ1 H2) as [HJ2 S2].
      split; [exact HJ2|eapply stable_trans; eauto].
Qed.

(* a reference with these data is in the database *)
Definition RefIn (data : refdata) (d : oid) (h : heap) : Prop :=
  exists db r rr, h_database h d = Some db /\ In r (d_refs db) /\ h_reference h r = Some rr /\ refdata_of rr = data.
Lemma RefIn_stable data d h h' : stable d h h' -> RefIn data d h -> RefIn data d h'.
Proof.
  intros (Sd & _ & RR) (db & r & rr & Hdb & Hin & Hr & Hd). destruct (Sd db Hdb) as (db' & Hdb' & _ & Hincl).
  destruct (RR _ _ Hr) as (rr' & Hr' & E). exists db', r, rr'. repeat split; [exact Hdb'|apply Hincl; exact Hin|exact Hr'|congruence].
Qed.

Definition data_of (dd : list (pystr * pyv)) (c1 c2 : list oid) : refdata :=
  (fstr_of dd "type", Some c1, Some c2, or_none (fstr_of dd "name"), fstr_of dd "comment", fstr_of dd "on_update", fstr_of dd "on_delete").

Lemma data_of_samekey dd dd' c1 c2 : samekey dd dd' -> data_of dd c1 c2 = data_of dd' c1 c2.
Proof.
  intros SK. unfold samekey in SK.
  repeat match type of SK with Forall _ (_ :: _) => let E := fresh "E" in inversion SK as [|? ? E SK']; clear SK; rename SK' into SK; subst end.
  unfold data_of. congruence.
Qed.

(* a successful reference step leaves the reference in the database, with the data of its blueprint *)
Lemma rstep_establishes d dd h h' : J d h -> rstep d (PVBlue 4 dd) h = (h', Ok tt) ->
  exists c1 c2, Res d dd h c1 c2 /\ RefIn (data_of dd c1 c2) d h'.
Proof.
  intros HJ H. unfold rstep in H. apply bindM_inv in H as [[e [_ H]]|[x [h1 [H1 H2]]]]; [discriminate H|].
  destruct (build_reference_shape d dd h h1 x H1) as (c1 & c2 & HR & -> & ->). exists c1, c2. split; [exact HR|].
  pose proof (gR_build_reference d _ _ _ _ H1) as R.
  destruct HJ as (db & I). pose proof (Inv_Rext _ _ _ _ R I) as I1. pose proof I1 as [ID1 _].
  set (rec := mkReference None (fstr_of dd "type") (Some c1) (Some c2) (or_none (fstr_of dd "name")) (fstr_of dd "comment")
                          (fstr_of dd "on_update") (fstr_of dd "on_delete") (fbool_of dd "inline")) in *.
  assert (Hx : h_reference (h ++ [OReference rec]) (length h) = Some rec).
  { unfold h_reference. rewrite nth_error_app2 by lia. rewrite Nat.sub_diag. reflexivity. }
  destruct (db_add_step _ d db (length h) ID1) as [[e R']|(db' & h2 & ob' & k' & Hrun & ID' & Ho & Hkd & Hm & Hl1 & _ & _ & _)].
  { rewrite R' in H2. discriminate H2. }
  rewrite Hrun in H2. inversion H2; subst h2. destruct ID' as [[Idb' _ _ _ _ _] _ _].
  apply h_reference_nth in Hx. rewrite Hx in Ho. inversion Ho; subst ob'. cbn in Hkd. inversion Hkd; subst k'.
  destruct (gr_db_add d (length h) _ _ _ Hrun (length h) rec ltac:(apply h_reference_nth; exact Hx)) as (rr' & Hr' & E).
  exists db', (length h), rr'. repeat split; [exact Idb'| |exact Hr'|rewrite E; reflexivity].
  change (In (length h) (klist KRef db')). rewrite (Hl1 ltac:(discriminate)). apply in_or_app. right. left. reflexivity.
Qed.

Lemma column_eqb_refl h c : column_eqb h c c = true. Proof. unfold column_eqb. rewrite Nat.eqb_refl. reflexivity. Qed.

Lemma ref_eqb_same_data h a b ra rb : h_reference h a = Some ra -> h_reference h b = Some rb -> refdata_of ra = refdata_of rb -> ref_eqb h a b = true.
Proof.
  intros Ha Hb E. unfold refdata_of in E. inversion E.
  apply (ref_eqb_ignores_inline_and_owner h a b ra rb Ha Hb); try assumption. intros c. apply column_eqb_refl.
Qed.

(* the second copy is refused *)
Lemma rstep_clashes d dd h h' c1 c2 : J d h -> Res d dd h c1 c2 -> RefIn (data_of dd c1 c2) d h -> rstep d (PVBlue 4 dd) h <> (h', Ok tt).
Proof.
  intros HJ HR HIn H. unfold rstep in H. apply bindM_inv in H as [[e [_ H]]|[x [h1 [H1 H2]]]]; [discriminate H|].
  destruct (build_reference_shape d dd h h1 x H1) as (c1' & c2' & HR' & -> & ->).
  destruct (Res_deterministic _ _ _ _ _ _ _ HR HR') as [<- <-].
  pose proof (gR_build_reference d _ _ _ _ H1) as R. pose proof (gr_build_reference d _ _ _ _ H1) as RR.
  destruct (RefIn_stable _ d _ _ (stable_of_Rext d _ _ R RR) HIn) as (db & r1 & rr1 & Hdb & Hin & Hr1 & Hd1).
  set (rec := mkReference None (fstr_of dd "type") (Some c1) (Some c2) (or_none (fstr_of dd "name")) (fstr_of dd "comment")
                          (fstr_of dd "on_update") (fstr_of dd "on_delete") (fbool_of dd "inline")) in *.
  assert (Hx : h_reference (h ++ [OReference rec]) (length h) = Some rec).
  { unfold h_reference. rewrite nth_error_app2 by lia. rewrite Nat.sub_diag. reflexivity. }
  assert (Hdup : list_has (ref_eqb (h ++ [OReference rec])) (length h) (d_refs db) = true).
  { unfold list_has. apply existsb_exists. exists r1. split; [exact Hin|].
    apply (ref_eqb_same_data _ _ _ rec rr1 Hx Hr1). rewrite Hd1. reflexivity. }
  pose proof Hx as Hx'. apply h_reference_nth in Hx'. rewrite (db_add_dispatch _ d _ _ Hx') in H2.
  destruct (add_reference_duplicate _ d db (length h) rec Hdb Hx Hdup) as [E|E]; rewrite E in H2; discriminate H2.
Qed.

(* ---- two reference blueprints that agree on every compared field: the second one is refused, wherever both stand ---- *)
Definition ref_dd (rb : pyv) : option (list (pystr * pyv)) := match rb with PVBlue 4 dd => Some dd | _ => None end.

Theorem refs_phase_rejects_duplicates d l1 dd1 l2 dd2 l3 h h' :
  J d h -> samekey dd1 dd2 ->
  iterM (rstep d) (l1 ++ PVBlue 4 dd1 :: l2 ++ PVBlue 4 dd2 :: l3) h <> (h', Ok tt).
Proof.
  intros HJ SK H.
  destruct (iterM_app_ok _ _ _ _ _ _ H) as (ha & G1 & G2).
  destruct (rsteps_stable d l1 _ _ _ HJ G1) as [HJa _].
  cbn [iterM] in G2. apply bindM_inv in G2 as [[e [_ G2]]|[[] [hb [S1 G2]]]]; [discriminate G2|].
  destruct (rstep_establishes d dd1 ha hb HJa S1) as (c1 & c2 & HR & HIn).
  destruct (rstep_stable d _ _ _ _ HJa S1) as [HJb Sab].
  destruct (iterM_app_ok _ _ _ _ _ _ G2) as (hc & G3 & G4).
  destruct (rsteps_stable d l2 _ _ _ HJb G3) as [HJc Sbc].
  cbn [iterM] in G4. apply bindM_inv in G4 as [[e [_ G4]]|[[] [hd [S2 _]]]]; [discriminate G4|].
  pose proof (stable_trans _ _ _ _ Sab Sbc) as Sac.
  pose proof (Res_samekey _ _ _ _ _ _ SK (Res_stable d dd1 ha hc c1 c2 (J_WW _ _ HJa) Sac HR)) as HR2.
  pose proof (RefIn_stable _ d _ _ Sbc HIn) as HIn2. rewrite (data_of_samekey _ _ c1 c2 SK) in HIn2.
  exact (rstep_clashes d dd2 hc hd c1 c2 HJc HR2 HIn2 S2).
Qed.

Theorem build_database_rejects_duplicate_references s allow sq dq h0 h1 dd l1 dd1 l2 dd2 l3 :
  WW h0 -> (forall t tb, h_table h0 t = Some tb -> NoDup (names_of tb)) -> Forall good_table_bp (ps_tables s) ->
  ps_refs s = l1 ++ PVBlue 4 dd1 :: l2 ++ PVBlue 4 dd2 :: l3 -> samekey dd1 dd2 ->
  build_database s allow sq dq h0 <> (h1, Ok dd).
Proof.
  intros HW Hgood Hg Hl SK H.
  destruct (JTC_before_refs _ _ _ _ _ _ _ HW Hgood Hg H) as (he & (HJ & _ & _) & F1). rewrite Hl in F1.
  exact (refs_phase_rejects_duplicates _ _ _ _ _ _ _ _ HJ SK F1).
Qed.

(* non-vacuity: the same reference once in short form and once inline (the inline flag is not compared) *)
From Coq Require Import String.
Open Scope string_scope.
Open Scope list_scope.
Definition ex_ref_inline (t1 c1 t2 c2 : string) : list (pystr * pyv) :=
  [(K "type", PVStr (K ">")); (K "table1", PVStr (K t1)); (K "col1", PVStr (K c1)); (K "table2", PVStr (K t2)); (K "col2", PVStr (K c2)); (K "inline", PVBool true)].
Definition ex_ref_dd (t1 c1 t2 c2 : string) : list (pystr * pyv) :=
  [(K "type", PVStr (K ">")); (K "table1", PVStr (K t1)); (K "col1", PVStr (K c1)); (K "table2", PVStr (K t2)); (K "col2", PVStr (K c2))].
Definition ex_doc_dupref : pstate :=
  mkPState [ex_table "a" ["id"] []; ex_table "b" ["id"; "a_id"] []]
           [PVBlue 4 (ex_ref_dd "b" "a_id" "a" "id"); PVBlue 4 (ex_ref_dd "b" "id" "a" "id"); PVBlue 4 (ex_ref_inline "b" "a_id" "a" "id")] [] [] None [].
Example duplicate_reference_example :
  samekey (ex_ref_dd "b" "a_id" "a" "id") (ex_ref_inline "b" "a_id" "a" "id")
  /\ snd (build_database ex_doc_dupref false 0 1 []) = Raise EDatabaseValidation.
Proof. split; [repeat constructor|vm_compute; reflexivity]. Qed.
