(* FirstCharAll.v — C07: the first-character theorem for EVERY character.  The analysis [look] tests the character only against finitely many sets read off the grammar ([mentioned]); two characters outside all of them get the same verdict ([look_generic]); the regenerated grammar mentions 86 characters, which are decided by computation, and one generic character decides all the others. *)
From PyDBML Require Import PyStr Py PP Analyses Actions GenClasses GenGrammar Heap Build Entry MonadFacts FirstChar.
Import ListNotations.
From Coq Require Import Lia NArith.

(* ---- the analysis looks at the character only through finitely many tests: for two characters that pass none of them it
   gives the same verdict ---- *)
Section Generic.
  Variable env : N -> option pexpr.
  Definition lower_of (x : ch) : list ch := if ((65 <=? x) && (x <=? 90))%N then [x; (x + 32)%N] else [x].
  Definition head_of (s : pystr) : list ch := match s with x :: _ => [x] | [] => [] end.
  Fixpoint mentioned (n : nat) (e : pexpr) : list ch :=
    match n with
    | O => []
    | S k =>
      a_ws (e_attrs e) ++
      match e_core e with
      | PLit s => head_of s
      | PCaseless um _ => match um with x :: _ => lower_of x | [] => [] end
      | PWord init _ _ _ _ _ _ => init
      | PQuoted q _ _ _ _ _ => head_of q
      | PCharsNotIn cs _ _ => cs
      | PWhite cs _ _ => cs
      | PAltLits alts => flat_map head_of alts
      | PLineEnd => [cLF]
      | PAnd items => flat_map (fun i => match i with IElem e1 => mentioned k e1 | IErrorStop => [] end) items
      | PMatchFirst es | POr es => flat_map (mentioned k) es
      | PZeroOrMore e1 | POpt e1 | POneOrMore e1 | PCombine e1 _ | PSuppress e1 | PGroup e1 | POrigText e1 | PFollowedBy e1 => mentioned k e1
      | PForward id => match env id with Some e1 => mentioned k e1 | None => [] end
      | _ => []
      end
    end.

  Lemma mem_false_notin (c : ch) l : ~ In c l -> mem c l = false.
  Proof. induction l as [|x l IH]; intros H; [reflexivity|]. cbn [mem]. destruct (N.eqb c x) eqn:E; [apply N.eqb_eq in E; exfalso; apply H; left; congruence|]. apply IH. intros H'. apply H. right. exact H'. Qed.
  Lemma eqb_false_notin (c x : ch) l : ~ In c l -> In x l -> N.eqb x c = false.
  Proof. intros H Hx. destruct (N.eqb x c) eqn:E; [apply N.eqb_eq in E; subst; contradiction|reflexivity]. Qed.

  Lemma upper_c_cases (c : ch) : upper_c c = c \/ (upper_c c = (c - 32)%N /\ (97 <=? c)%N = true /\ (c <=? 122)%N = true).
  Proof. unfold upper_c. destruct ((97 <=? c)%N && (c <=? 122)%N) eqn:E; [right|left; reflexivity]. apply andb_true_iff in E. tauto. Qed.

  Lemma caseless_generic (c x : ch) : ~ In c (lower_of x) -> N.eqb x (upper_c c) = false.
  Proof.
    intros H. destruct (N.eqb x (upper_c c)) eqn:E; [|reflexivity]. apply N.eqb_eq in E. exfalso. apply H. unfold lower_of.
    destruct (upper_c_cases c) as [U|(U & A & B)]; rewrite U in E.
    - subst x. destruct ((65 <=? c)%N && (c <=? 90)%N); left; reflexivity.
    - apply N.leb_le in A, B. assert (Hx : ((65 <=? x) && (x <=? 90))%N = true).
      { subst x. apply andb_true_iff. split; apply N.leb_le; lia. }
      rewrite Hx. right. left. subst x. lia.
  Qed.

  Lemma and_verdict_ext (f g : pexpr -> verdict) l : (forall e1, In (IElem e1) l -> f e1 = g e1) -> and_verdict f l = and_verdict g l.
  Proof.
    induction l as [|[e1|] l IH]; intros H; cbn [and_verdict]; [reflexivity| |apply IH; intros e2 H2; apply H; right; exact H2].
    rewrite (H e1 (or_introl eq_refl)). destruct (g e1); try reflexivity. apply IH. intros e2 H2. apply H. right. exact H2.
  Qed.
  Lemma alt_verdict_ext (f g : pexpr -> verdict) l : (forall e1, In e1 l -> f e1 = g e1) -> alt_verdict f l = alt_verdict g l.
  Proof.
    induction l as [|e1 l IH]; intros H; cbn [alt_verdict fold_right]; [reflexivity|]. fold (alt_verdict f l). fold (alt_verdict g l).
    rewrite (H e1 (or_introl eq_refl)), IH; [reflexivity|]. intros e2 H2. apply H. right. exact H2.
  Qed.

  Lemma notin_app_l (c : ch) a b : ~ In c (a ++ b) -> ~ In c a. Proof. intros H H'. apply H. apply in_or_app. left. exact H'. Qed.
  Lemma notin_app_r (c : ch) a b : ~ In c (a ++ b) -> ~ In c b. Proof. intros H H'. apply H. apply in_or_app. right. exact H'. Qed.
  Lemma notin_flat {A} (c : ch) (f : A -> list ch) l x : ~ In c (flat_map f l) -> In x l -> ~ In c (f x).
  Proof. intros H Hx H'. apply H. apply in_flat_map. exists x. split; assumption. Qed.

  Theorem look_generic : forall k e (c c0 : ch), ~ In c (mentioned k e) -> ~ In c0 (mentioned k e) -> look env c k e = look env c0 k e.
  Proof.
    induction k as [|k IH]; intros e c c0 Hc Hc0; [reflexivity|]. cbn [look mentioned] in *.
    pose proof (notin_app_l _ _ _ Hc) as Wc. pose proof (notin_app_l _ _ _ Hc0) as Wc0.
    pose proof (notin_app_r _ _ _ Hc) as Mc. pose proof (notin_app_r _ _ _ Hc0) as Mc0.
    unfold ws_ok. rewrite (mem_false_notin c _ Wc), (mem_false_notin c0 _ Wc0).
    destruct (negb (negb (a_skip_ws (e_attrs e)) || negb false)); [reflexivity|].
    destruct (e_core e) as [s|um ret|init body mn mx ms kw rm|q endq esc ml unq cw|cs mn mx|cs mn mx|alts| | |cs|cs| | |items|es|es|e0|e0|e0|e0 incl|e0 joinstr|e0|e0|id|e0|e0|e0]; try reflexivity.
    - destruct s as [|x s]; [reflexivity|]. cbn [head_of] in Mc, Mc0.
      rewrite (eqb_false_notin c x [x] Mc (or_introl eq_refl)), (eqb_false_notin c0 x [x] Mc0 (or_introl eq_refl)). reflexivity.
    - destruct um as [|x um]; [reflexivity|]. rewrite (caseless_generic c x Mc), (caseless_generic c0 x Mc0). reflexivity.
    - rewrite (mem_false_notin c _ Mc), (mem_false_notin c0 _ Mc0). reflexivity.
    - destruct q as [|x q]; [reflexivity|]. cbn [head_of] in Mc, Mc0.
      rewrite (eqb_false_notin c x [x] Mc (or_introl eq_refl)), (eqb_false_notin c0 x [x] Mc0 (or_introl eq_refl)). reflexivity.
    - rewrite (mem_false_notin c _ Mc), (mem_false_notin c0 _ Mc0). reflexivity.
    - rewrite (mem_false_notin c _ Mc), (mem_false_notin c0 _ Mc0). reflexivity.
    - assert (E : forallb (head_differs c) alts = forallb (head_differs c0) alts).
      { clear - Mc Mc0. induction alts as [|a alts IHa]; [reflexivity|]. cbn [forallb flat_map] in *.
        rewrite IHa; [|exact (notin_app_r _ _ _ Mc)|exact (notin_app_r _ _ _ Mc0)]. f_equal.
        destruct a as [|x a]; [reflexivity|]. cbn [head_differs head_of] in *.
        rewrite (eqb_false_notin c x [x] (notin_app_l _ _ _ Mc) (or_introl eq_refl)), (eqb_false_notin c0 x [x] (notin_app_l _ _ _ Mc0) (or_introl eq_refl)). reflexivity. }
      rewrite E. reflexivity.
    - rewrite (N.eqb_sym c), (N.eqb_sym c0). rewrite (eqb_false_notin c cLF [cLF] Mc (or_introl eq_refl)), (eqb_false_notin c0 cLF [cLF] Mc0 (or_introl eq_refl)). reflexivity.
    - apply and_verdict_ext. intros e1 H1. apply IH.
      + exact (notin_flat c (fun i => match i with IElem e2 => mentioned k e2 | IErrorStop => [] end) items (IElem e1) Mc H1).
      + exact (notin_flat c0 (fun i => match i with IElem e2 => mentioned k e2 | IErrorStop => [] end) items (IElem e1) Mc0 H1).
    - apply alt_verdict_ext. intros e1 H1. apply IH; [exact (notin_flat c _ es e1 Mc H1)|exact (notin_flat c0 _ es e1 Mc0 H1)].
    - apply alt_verdict_ext. intros e1 H1. apply IH; [exact (notin_flat c _ es e1 Mc H1)|exact (notin_flat c0 _ es e1 Mc0 H1)].
    - rewrite (IH e0 c c0 Mc Mc0). reflexivity.
    - apply IH; assumption.
    - rewrite (IH e0 c c0 Mc Mc0). reflexivity.
    - apply IH; assumption.
    - apply IH; assumption.
    - apply IH; assumption.
    - destruct (env id) as [e1|]; [apply IH; assumption|reflexivity].
    - apply IH; assumption.
    - rewrite (IH e0 c c0 Mc Mc0). reflexivity.
  Qed.
End Generic.

(* ====================== every character ====================== *)
Lemma mem_true_in (c : ch) l : mem c l = true -> In c l.
Proof. induction l as [|x l IH]; [discriminate|]. cbn [mem]. intros H. apply orb_true_iff in H as [H|H]; [left; apply N.eqb_eq in H; congruence|right; exact (IH H)]. Qed.
Lemma mem_in_iff (c : ch) l : mem c l = true <-> In c l.
Proof.
  split; [apply mem_true_in|]. induction l as [|x l IH]; [intros []|]. cbn [mem]. intros [->|H]; [rewrite N.eqb_refl; reflexivity|rewrite (IH H); apply orb_true_r].
Qed.

(* the characters a document may begin with, and the blank ones the grammar skips or reads as line ends *)
Definition may_begin_or_blank : list ch := may_begin ++ [10; 32; 13; 9]%N.
Definition decided (env : N -> option pexpr) (top : pexpr) (c : ch) : bool := match look env c 80 top with VU => false | _ => true end.

Section Instance.
  Variable top : pexpr.
  Variable tl : list ch.                       (* every character the analysis of [top] tests *)
  Hypothesis Hcov : forallb (fun x => mem x tl) (mentioned gen_env 80 top) = true.
  Hypothesis Htab : forallb (fun c => mem c may_begin_or_blank || decided gen_env top c) tl = true.
  Hypothesis Hg : look gen_env 1%N 80 top = VF.
  Hypothesis H1 : mem 1%N tl = false.

  Lemma untested_not_mentioned (c : ch) : mem c tl = false -> ~ In c (mentioned gen_env 80 top).
  Proof.
    intros Et H. pose proof (proj1 (forallb_forall _ _) Hcov c H) as M. cbv beta in M. rewrite Et in M. discriminate M.
  Qed.

  Lemma t1 (c : ch) : mem c tl = true -> (mem c may_begin_or_blank || decided gen_env top c) = true.
  Proof. intros Et. apply mem_in_iff in Et. exact (proj1 (forallb_forall _ _) Htab c Et). Qed.
  Lemma t2 (c : ch) : ~ In c may_begin_or_blank -> mem c may_begin_or_blank = false.
  Proof. intros Hno. destruct (mem c may_begin_or_blank) eqn:Em; [apply mem_in_iff in Em; contradiction|reflexivity]. Qed.
  Lemma t3 (c : ch) : decided gen_env top c = true -> look gen_env c 80 top <> VU.
  Proof. unfold decided. intros T E. rewrite E in T. discriminate T. Qed.
  Lemma decided_tested (c : ch) : mem c tl = true -> ~ In c may_begin_or_blank -> look gen_env c 80 top <> VU.
  Proof. intros Et Hno. apply t3. pose proof (t1 c Et) as T. rewrite (t2 c Hno) in T. rewrite Bool.orb_false_l in T. exact T. Qed.
  Lemma decided_untested (c : ch) : mem c tl = false -> look gen_env c 80 top <> VU.
  Proof.
    intros Et E. pose proof (look_generic gen_env 80 top c 1%N (untested_not_mentioned c Et) (untested_not_mentioned 1%N H1)) as G.
    rewrite E, Hg in G. discriminate G.
  Qed.
  Theorem decided_everywhere (c : ch) : ~ In c may_begin_or_blank -> look gen_env c 80 top <> VU.
  Proof.
    intros Hno. destruct (mem c tl) eqn:Et; [exact (decided_tested c Et Hno)|exact (decided_untested c Et)].
  Qed.
End Instance.

Definition tested_off : list ch := Eval vm_compute in
  fold_right (fun x acc => if mem x acc then acc else x :: acc) [] (mentioned gen_env 80 gen_top_off).
Definition tested_on : list ch := Eval vm_compute in
  fold_right (fun x acc => if mem x acc then acc else x :: acc) [] (mentioned gen_env 80 gen_top_on).

Lemma cov_off : forallb (fun x => mem x tested_off) (mentioned gen_env 80 gen_top_off) = true. Proof. vm_compute. reflexivity. Qed.
Lemma cov_on : forallb (fun x => mem x tested_on) (mentioned gen_env 80 gen_top_on) = true. Proof. vm_compute. reflexivity. Qed.
Lemma tab_off : forallb (fun c => mem c may_begin_or_blank || decided gen_env gen_top_off c) tested_off = true. Proof. vm_compute. reflexivity. Qed.
Lemma tab_on : forallb (fun c => mem c may_begin_or_blank || decided gen_env gen_top_on c) tested_on = true. Proof. vm_compute. reflexivity. Qed.
Lemma gen_off : look gen_env 1%N 80 gen_top_off = VF. Proof. vm_compute. reflexivity. Qed.
Lemma gen_on : look gen_env 1%N 80 gen_top_on = VF. Proof. vm_compute. reflexivity. Qed.
Lemma one_off : mem 1%N tested_off = false. Proof. vm_compute. reflexivity. Qed.
Lemma one_on : mem 1%N tested_on = false. Proof. vm_compute. reflexivity. Qed.

Theorem first_ok_everywhere (c : ch) allow : ~ In c may_begin_or_blank -> first_ok allow c = false.
Proof.
  intros Hno. unfold first_ok. destruct allow.
  - pose proof (decided_everywhere gen_top_on tested_on cov_on tab_on gen_on one_on c Hno) as D.
    destruct (look gen_env c 80 gen_top_on); [reflexivity|reflexivity|congruence].
  - pose proof (decided_everywhere gen_top_off tested_off cov_off tab_off gen_off one_off c Hno) as D.
    destruct (look gen_env c 80 gen_top_off); [reflexivity|reflexivity|congruence].
Qed.

(* for EVERY first character other than  / E N P R T e n p r t  and the blank ones (LF, space, CR, TAB), every rest of the text and
   both option settings, the parser returns no database *)
Theorem any_stray_first_character_rejected (c : ch) (rest : pystr) allow sq dq h h' d :
  ~ In c may_begin_or_blank -> parser_parse (c :: rest) allow sq dq h <> (h', Ok d).
Proof.
  intros Hno. apply document_first_character.
  - apply first_ok_everywhere. exact Hno.
  - destruct (mem c gen_default_whitespace) eqn:E; [|reflexivity]. exfalso. apply Hno. apply mem_in_iff in E.
    unfold may_begin_or_blank. apply in_or_app. right. cbn in E. cbn. tauto.
  - destruct (N.eqb c cTAB) eqn:E; [|reflexivity]. exfalso. apply Hno. apply N.eqb_eq in E. subst c.
    unfold may_begin_or_blank. apply in_or_app. right. cbn. tauto.
Qed.
