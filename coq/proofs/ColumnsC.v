(* ColumnsC.v — C01, columns followed from their blueprints to the returned database: for every parser state on which
   build_database succeeds, each table of the database lists — one per column blueprint of its table blueprint, in order — column
   objects whose name, unique / not null / pk / increment flags, comment and arbitrary properties are exactly the declared ones,
   whose type is the declared type string or the Enum object found for it, whose default has the declared kind and value, and
   which point back to the table. *)
From PyDBML Require Import PyStr Py Heap Classes Database Tools PP Actions Build Entry MonadFacts RuleFacts ContainerInv ContainerFull TableInv BuildInv BuildLinks BuildRules BuildDocs BuildRaises Frame Counts Sticky.
From Coq Require Import Lia.
Import ListNotations.

(* ---- column objects are never written by anything but Table.add_column ---- *)
Definition Rcol (h h' : heap) : Prop := forall x cc, nth_error h x = Some (OColumn cc) -> nth_error h' x = Some (OColumn cc).
Lemma Rcol_refl h : Rcol h h. Proof. intros x cc H. exact H. Qed.
Lemma Rcol_trans a b c : Rcol a b -> Rcol b c -> Rcol a c. Proof. unfold Rcol. auto. Qed.
Lemma Rcol_alloc h ob : Rcol h (h ++ [ob]).
Proof. intros x cc H. rewrite nth_error_app1 by (eapply nth_some_lt; exact H). exact H. Qed.
Lemma Rcol_store_other h i ob : (forall cc, nth_error h i <> Some (OColumn cc)) -> Rcol h (replace_nth i ob h).
Proof.
  intros Hn x cc H. destruct (Nat.eq_dec i x) as [->|Ne]; [exfalso; eapply Hn; exact H|]. rewrite nth_replace_other by exact Ne. exact H.
Qed.
Lemma gcol_alloc ob : guar Rcol (alloc ob). Proof. intros h h' r H. unfold alloc in H. inversion H; subst. apply Rcol_alloc. Qed.
Ltac tstore Hrun Heq :=
  unfold bindM, lookup in Hrun;
  match type of Hrun with context [nth_error ?h ?i] => destruct (nth_error h i) as [ob|] eqn:Heq end;
  [|inversion Hrun; subst; apply Rcol_refl].
Lemma gcol_set_note_parent k p : guar Rcol (set_note_parent k p).
Proof. intros h h' r H. unfold set_note_parent, get_note in H. tstore H E. destruct ob; inversion H; subst; try apply Rcol_refl. apply Rcol_store_other. intros x. rewrite E. discriminate. Qed.
Lemma gcol_upd_table t f : guar Rcol (upd_table t f).
Proof. intros h h' r H. unfold upd_table, get_table in H. tstore H E. destruct ob; inversion H; subst; try apply Rcol_refl. apply Rcol_store_other. intros x. rewrite E. discriminate. Qed.
Lemma gcol_upd_index t f : guar Rcol (upd_index t f).
Proof. intros h h' r H. unfold upd_index, get_index in H. tstore H E. destruct ob; inversion H; subst; try apply Rcol_refl. apply Rcol_store_other. intros x. rewrite E. discriminate. Qed.
Lemma gcol_set_obj_database o v : guar Rcol (set_obj_database o v).
Proof. intros h h' r H. unfold set_obj_database in H. tstore H E. destruct ob; inversion H; subst; try apply Rcol_refl; apply Rcol_store_other; intros x; rewrite E; discriminate. Qed.
Lemma gcol_upd_db i f : guar Rcol (upd_db i f).
Proof. intros h h' r H. unfold upd_db, get_database in H. tstore H E. destruct ob; inversion H; subst; try apply Rcol_refl. apply Rcol_store_other. intros x. rewrite E. discriminate. Qed.
Ltac gcol :=
  repeat first [ apply gcol_alloc | apply gcol_set_note_parent | apply gcol_upd_table | apply gcol_upd_index | apply gcol_set_obj_database | apply gcol_upd_db
               | apply (g_ro _ Rcol_refl); solve [ro_any | apply ro_lift]
               | apply (g_bind _ Rcol_trans); [|intros ?]
               | apply (g_iterM _ Rcol_refl Rcol_trans); intros ?
               | apply (g_mapMM _ Rcol_refl Rcol_trans); intros ?
               | match goal with |- guar _ (match ?x with _ => _ end) => destruct x end
               | match goal with |- guar _ (if ?x then _ else _) => destruct x end ].
Lemma gcol_new_note_from a : guar Rcol (new_note_from a). Proof. unfold new_note_from. gcol. Qed.
Lemma gcol_new_column nm ty u nn pk ai df nt c p : guar Rcol (new_column nm ty u nn pk ai df nt c p).
Proof. unfold new_column. apply (g_bind _ Rcol_trans); [apply gcol_new_note_from|intros k]. gcol. Qed.
Lemma gcol_new_index s nm u ty pk nt c : guar Rcol (new_index s nm u ty pk nt c).
Proof. unfold new_index. apply (g_bind _ Rcol_trans); [apply gcol_new_note_from|intros k]. gcol. Qed.
Ltac gcol2 :=
  repeat first [ apply gcol_new_column | apply gcol_new_index | apply gcol_new_note_from
               | apply gcol_alloc | apply gcol_set_note_parent | apply gcol_upd_table | apply gcol_upd_index | apply gcol_set_obj_database | apply gcol_upd_db
               | apply (g_ro _ Rcol_refl); solve [ro_any | apply ro_lift]
               | apply (g_bind _ Rcol_trans); [|intros ?]
               | match goal with |- guar _ (match ?x with _ => _ end) => destruct x end
               | match goal with |- guar _ (if ?x then _ else _) => destruct x end ].
Lemma gcol_build_column d bp : guar Rcol (build_column d bp).
Proof. unfold build_column, new_expr. gcol2. Qed.
Lemma gcol_build_index bp : guar Rcol (build_index bp).
Proof. unfold build_index. gcol2. Qed.
Lemma gcol_subject_of t s : guar Rcol (subject_of t s). Proof. unfold subject_of, new_expr. gcol. Qed.
Lemma gcol_table_add_index t i : guar Rcol (table_add_index t i). Proof. unfold table_add_index. gcol. Qed.
Lemma gcol_idx_step t ib : guar Rcol (idx_step t ib).
Proof.
  unfold idx_step. apply (g_bind _ Rcol_trans); [apply gcol_build_index|intros i].
  apply (g_bind _ Rcol_trans); [apply (g_mapMM _ Rcol_refl Rcol_trans); intros s; apply gcol_subject_of|intros subs].
  apply (g_bind _ Rcol_trans); [apply gcol_upd_index|intros _]. apply gcol_table_add_index.
Qed.
Lemma gcol_db_add d o : guar Rcol (db_add d o).
Proof.
  unfold db_add. apply (g_bind _ Rcol_trans); [apply (g_ro _ Rcol_refl), ro_lookup|intros ob].
  destruct ob; try (apply (g_ro _ Rcol_refl), ro_raise).
  - unfold db_add_table. gcol.
  - unfold db_add_reference. gcol.
  - unfold db_add_enum. gcol.
  - unfold db_add_sticky_note. gcol.
  - unfold db_add_project, db_delete_project. gcol.
  - unfold db_add_table_group. gcol.
Qed.

(* ---- what a column blueprint declares ---- *)
Definition default_matches (v : option pyv) (d : defval) : Prop :=
  match v with
  | None | Some PVNone => d = DNone
  | Some (PVStr s) => d = DStr s
  | Some (PVBool b) => d = DBool b
  | Some (PVInt z) => d = DInt z
  | Some (PVFloat s) => d = DFloat s
  | Some (PVBlue 3 _) => exists x, d = DExpr x
  | Some _ => False
  end.
Definition col_declares (cb : pyv) (cc : column) : Prop :=
  exists cd tys, cb = PVBlue 5 cd /\ c_name cc = fstr_of cd "name" /\ c_unique cc = fbool_of cd "unique" /\ c_not_null cc = fbool_of cd "not_null" /\
    c_pk cc = fbool_of cd "pk" /\ c_autoinc cc = fbool_of cd "autoinc" /\ c_comment cc = fstr_of cd "comment" /\
    c_properties cc = fdict_of cd "properties" /\ fstr_of cd "type" = Some tys /\ (c_type cc = CTStr tys \/ exists e, c_type cc = CTEnum e) /\
    default_matches (dget (K "default") cd) (c_default cc).

Lemma new_column_post_full nm ty u nn pk ai d nt c p h h' x : new_column nm ty u nn pk ai d nt c p h = (h', Ok x) ->
  exists n, nth_error h' x = Some (OColumn (mkColumn nm ty u nn pk ai c n p d None)).
Proof.
  intros H. unfold new_column in H. apply bindM_inv in H as [[e [_ H]]|[n [h1 [_ H]]]]; [discriminate H|].
  unfold bindM at 1 in H. unfold alloc in H. cbv beta iota in H.
  apply bindM_inv in H as [[e [_ H]]|[u0 [h3 [H3 H]]]]; [discriminate H|]. inversion H; subst. exists n.
  eapply (gcol_set_note_parent _ _ _ _ _ H3). rewrite nth_error_app2 by lia. rewrite Nat.sub_diag. reflexivity.
Qed.

Lemma build_column_post_full d cb h h' c : build_column d cb h = (h', Ok c) ->
  exists cc, nth_error h' c = Some (OColumn cc) /\ col_declares cb cc /\ c_table cc = None.
Proof.
  intros H. destruct cb as [| | | | | | |tag cd]; try (cbn in H; discriminate H).
  assert (T5 : tag = 5%N \/ build_column d (PVBlue tag cd) h = (h, Raise (EStuck 407))).
  { destruct tag as [|p]; [right; reflexivity|]. destruct p as [q|q|]; [|right; destruct q; reflexivity|right; reflexivity].
    destruct q as [r0|r0|]; [right; reflexivity| |right; reflexivity]. destruct r0; [right; reflexivity|right; reflexivity|left; reflexivity]. }
  destruct T5 as [->|T5]; [|rewrite T5 in H; discriminate H].
  unfold build_column in H. apply bindM_inv in H as [[e [_ H]]|[dflt [h1 [H1 H]]]]; [discriminate H|].
  assert (DM : default_matches (dget (K "default") cd) dflt).
  { destruct (dget (K "default") cd) as [v|]; [|inversion H1; reflexivity].
    destruct v; try (inversion H1; reflexivity); try discriminate H1.
    destruct (N.eq_dec kind 3) as [->|Nk].
    - cbn [default_matches]. destruct (dget (K "text") fields) as [[]|]; try discriminate H1.
      apply bindM_inv in H1 as [[e [_ H1]]|[x [hx [_ H1]]]]; [discriminate H1|]. inversion H1. eexists; reflexivity.
    - exfalso. destruct kind as [|pp]; [discriminate H1|]. destruct pp as [q|q|]; [destruct q; try discriminate H1; congruence|destruct q; discriminate H1|discriminate H1]. }
  destruct (fstr_of cd "type") as [tys|] eqn:Ety; [|discriminate H].
  apply bindM_inv in H as [[e [_ H]]|[sn [h2 [_ H]]]]; [discriminate H|].
  apply bindM_inv in H as [[e [_ H]]|[db [h3 [_ H]]]]; [discriminate H|].
  apply bindM_inv in H as [[e [_ H]]|[hh [h4 [_ H]]]]; [discriminate H|].
  apply bindM_inv in H as [[e [_ H]]|[nt [h5 [_ H]]]]; [discriminate H|].
  destruct (new_column_post_full _ _ _ _ _ _ _ _ _ _ _ _ _ H) as (n & Hn). eexists. split; [exact Hn|]. split; [|reflexivity].
  exists cd, tys. cbn. repeat split; try reflexivity; try exact DM; try exact Ety.
  match goal with |- (match ?f with _ => _ end = _) \/ _ => destruct f; [right; eexists; reflexivity|left; reflexivity] end.
Qed.

(* ---- the columns of a table under construction ---- *)
Definition cols_full (cbs : list pyv) (h : heap) (t : oid) : Prop :=
  exists tb, h_table h t = Some tb /\
    Forall2 (fun c cb => exists cc, nth_error h c = Some (OColumn cc) /\ col_declares cb cc /\ c_table cc = Some t) (t_columns tb) cbs.

Lemma col_declares_set_table cb cc v : col_declares cb cc -> col_declares cb (set_c_table v cc).
Proof. intros (cd & tys & A). exists cd, tys. exact A. Qed.

Lemma cols_full_keep cbs h h' t : Rcol h h' ->
  (forall tb, h_table h t = Some tb -> exists tb', h_table h' t = Some tb' /\ t_columns tb' = t_columns tb) ->
  cols_full cbs h t -> cols_full cbs h' t.
Proof.
  intros R Ht (tb & Htb & F). destruct (Ht _ Htb) as (tb' & Htb' & Ec). exists tb'. split; [exact Htb'|]. rewrite Ec.
  eapply Forall2_impl_s; [|exact F]. intros c cb (cc & A & B & C). exists cc. split; [apply R; exact A|]. split; assumption.
Qed.

Lemma add_column_full cbs h h' t c cc cb u : cols_full cbs h t -> nth_error h c = Some (OColumn cc) -> col_declares cb cc ->
  table_add_column t c h = (h', Ok u) -> cols_full (cbs ++ [cb]) h' t.
Proof.
  intros (tb & Ht & F) Hc' Hdec H. pose proof Ht as Ht'. apply h_table_nth in Ht'.
  assert (Ntc : t <> c) by (intros ->; rewrite Ht' in Hc'; discriminate Hc').
  unfold table_add_column in H. unfold bindM at 1 in H. unfold lookup in H. rewrite Hc' in H. cbv beta iota in H.
  unfold upd_column, get_column in H. unfold bindM at 1 2 3 in H. unfold lookup in H. rewrite Hc' in H. cbv beta iota in H.
  unfold ret, store in H. cbv beta iota in H.
  unfold upd_table, get_table, bindM, lookup in H. rewrite nth_replace_other in H by congruence. rewrite Ht' in H. cbv beta iota in H.
  unfold ret, store in H. injection H as <- _.
  set (h1 := replace_nth c (OColumn (set_c_table (Some t) cc)) h).
  assert (Lt : nth_error h1 t = Some (OTable tb)) by (unfold h1; rewrite nth_replace_other by congruence; exact Ht').
  exists (set_columns (t_columns tb ++ [c]) tb). split; [unfold h_table; rewrite (nth_replace_same' _ _ _ _ Lt); reflexivity|].
  cbn [t_columns set_columns]. apply Forall2_app.
  - eapply Forall2_impl_s; [|exact F]. intros c0 cb0 (cc0 & Hc0 & D0 & T0).
    assert (N0 : t <> c0) by (intros ->; rewrite Ht' in Hc0; discriminate Hc0).
    destruct (Nat.eq_dec c c0) as [<-|N].
    + rewrite Hc' in Hc0. inversion Hc0; subst cc0. exists (set_c_table (Some t) cc). split; [|split; [apply col_declares_set_table; exact D0|reflexivity]].
      rewrite nth_replace_other by exact N0. unfold h1. apply (nth_replace_same' _ _ _ _ Hc').
    + exists cc0. split; [|split; assumption]. rewrite nth_replace_other by exact N0. unfold h1. rewrite nth_replace_other by exact N. exact Hc0.
  - constructor; [|constructor]. exists (set_c_table (Some t) cc). split; [|split; [apply col_declares_set_table; exact Hdec|reflexivity]].
    rewrite nth_replace_other by exact Ntc. unfold h1. apply (nth_replace_same' _ _ _ _ Hc').
Qed.

Lemma cols_loop_full d t0 : forall cols done h h' u, cols_full done h t0 ->
  iterM (fun cb => do! c <- build_column d cb ;; table_add_column t0 c) cols h = (h', Ok u) ->
  cols_full (done ++ cols) h' t0.
Proof.
  induction cols as [|cb cols IH]; intros done h h' u Hn H.
  - cbn in H. inversion H; subst. rewrite app_nil_r. exact Hn.
  - cbn [iterM] in H. apply bindM_inv in H as [[e [_ H]]|[[] [hb [Hb H]]]]; [discriminate H|].
    apply bindM_inv in Hb as [[e [_ Hb]]|[c [ha [Ha Hb]]]]; [discriminate Hb|].
    pose proof (gR_build_column _ _ _ _ _ Ha) as R.
    assert (Hn1 : cols_full done ha t0).
    { eapply cols_full_keep; [exact (gcol_build_column _ _ _ _ _ Ha)| |exact Hn].
      intros tb Htb. destruct (Rext_table_fwd _ _ _ _ R Htb) as (tb' & A & B & _). exists tb'. split; assumption. }
    destruct (build_column_post_full d cb _ _ _ Ha) as (cc & Hc & Hdec & _).
    pose proof (add_column_full _ _ _ _ _ _ _ _ Hn1 Hc Hdec Hb) as Hn2.
    replace (done ++ cb :: cols) with ((done ++ [cb]) ++ cols) by (rewrite <- app_assoc; reflexivity).
    eapply IH; eauto.
Qed.

Lemma idx_loop_full t0 cbs idxs h h' r : cols_full cbs h t0 -> iterM (idx_step t0) idxs h = (h', r) -> cols_full cbs h' t0.
Proof.
  intros Hn H. eapply cols_full_keep; [exact (g_iterM _ Rcol_refl Rcol_trans (idx_step t0) idxs (gcol_idx_step t0) _ _ _ H)| |exact Hn].
  intros tb Htb. pose proof (g_iterM _ (Rcb_refl _) (Rcb_trans _) (idx_step t0) idxs (gcb_idx_step (length h) t0) _ _ _ H) as Rc.
  apply h_table_nth in Htb. destruct (Rc t0 _ (nth_some_lt _ _ _ Htb) Htb) as (ob' & A & B). destruct ob'; try discriminate B. cbn in B. inversion B as [B'].
  exists t. split; [unfold h_table; rewrite A; reflexivity|first [exact B'|reflexivity]].
Qed.

Lemma build_table_full d dd h h' t : build_table d (PVBlue 7 dd) h = (h', Ok t) -> cols_full (flist_of dd "columns") h' t /\ length h <= t.
Proof.
  intros H. rewrite build_table_eq in H.
  apply bindM_inv in H as [[e [_ H]]|[nt [h1 [H1 H]]]]; [discriminate H|]. unfold lift in H1. destruct (note_text_of dd "note"); inversion H1; subst. clear H1.
  apply bindM_inv in H as [[e [_ H]]|[t0 [h2 [H2 H]]]]; [discriminate H|].
  destruct (new_table_fresh _ _ _ _ _ _ _ _ _ _ _ H2) as [L (tb0 & Htb0 & F0)].
  unfold build_table_body in H.
  apply bindM_inv in H as [[e [_ H]]|[[] [h3 [H3 H]]]]; [discriminate H|].
  apply bindM_inv in H as [[e [_ H]]|[[] [h4 [H4 H]]]]; [discriminate H|].
  unfold ret in H. injection H as <- <-. split; [|exact L].
  assert (C0 : cols_full [] h2 t0).
  { exists tb0. split; [exact Htb0|]. inversion F0. constructor. }
  pose proof (cols_loop_full d t0 _ [] _ _ _ C0 H3) as C3. cbn [app] in C3.
  exact (idx_loop_full t0 _ _ _ _ _ C3 H4).
Qed.

(* ---- the step "build the table, add it" ---- *)
Lemma tstep_fixes d dd h h' db : good_table_bp (PVBlue 7 dd) -> h_database h d = Some db -> step d (PVBlue 7 dd) h = (h', Ok tt) ->
  exists t, cols_full (flist_of dd "columns") h' t /\ length h <= t /\ t < length h' /\
    exists db', h_database h' d = Some db' /\ d_tables db' = d_tables db ++ [t] /\ d_project db' = d_project db /\
               exists h1, build_table d (PVBlue 7 dd) h = (h1, Ok t).
Proof.
  intros Hgood Hdb H. unfold step in H. apply bindM_inv in H as [[e [_ H]]|[t [h1 [H1 H2]]]]; [discriminate H|].
  destruct (build_table_full _ _ _ _ _ H1) as [CF Lt]. exists t.
  pose proof (gcol_db_add d t _ _ _ H2) as Rc.
  pose proof (gcb_db_add (length h1) d t _ _ _ H2) as Rb.
  destruct CF as (tb & Htb & F). pose proof Htb as Hn. apply h_table_nth in Hn. pose proof (nth_some_lt _ _ _ Hn) as Ltl.
  split.
  { destruct (Rb t _ Ltl Hn) as (ob' & A & B). destruct ob'; try discriminate B. cbn in B. inversion B as [B'].
    exists t0. split; [unfold h_table; rewrite A; reflexivity|]. rewrite B'.
    eapply Forall2_impl_s; [|exact F]. intros c cb (cc & A1 & A2 & A3). exists cc. split; [apply Rc; exact A1|split; assumption]. }
  split; [exact Lt|].
  (* the database object: Database.add(table), unfolded *)
  unfold db_add in H2. unfold bindM at 1 in H2. unfold lookup in H2. rewrite Hn in H2. cbv beta iota in H2.
  unfold db_add_table in H2. unfold bindM at 1 in H2. unfold get_database, bindM, lookup in H2.
  destruct (nth_error h1 d) as [obd|] eqn:End; [|discriminate H2]. destruct obd; try discriminate H2. cbv beta iota in H2. unfold ret in H2. cbv beta iota in H2.
  unfold get_table, bindM, lookup in H2. rewrite Hn in H2. cbv beta iota in H2. unfold ret in H2. cbv beta iota in H2. unfold get_heap in H2. cbv beta iota in H2.
  match type of H2 with (if ?b then _ else _) _ = _ => destruct b; [discriminate H2|] end.
  match type of H2 with (if ?b then _ else _) _ = _ => destruct b; [discriminate H2|] end.
  match type of H2 with (if ?b then _ else _) _ = _ => destruct b; [discriminate H2|] end.
  unfold set_obj_database, bindM, lookup in H2. rewrite Hn in H2. cbv beta iota in H2. unfold store in H2.
  assert (Ndt : d <> t) by (intros ->; rewrite End in Hn; discriminate Hn).
  unfold upd_db, get_database, bindM, lookup in H2. rewrite nth_replace_other in H2 by congruence. rewrite End in H2. cbv beta iota in H2. unfold ret, store in H2. inversion H2; subst. clear H2.
  split; [rewrite !length_replace_nth; exact Ltl|].
  (* the database before the step is the one build_table left untouched *)
  pose proof (gdb_build_table d (PVBlue 7 dd) Hgood _ _ _ H1 db Hdb) as Hd1. unfold h_database in Hd1. rewrite End in Hd1. inversion Hd1; subst d0.
  eexists. split.
  { unfold h_database. rewrite nth_replace_same by (rewrite length_replace_nth; eapply nth_some_lt; exact End). reflexivity. }
  split; [reflexivity|]. split; [reflexivity|]. exists h1. exact H1.
Qed.

(* a table of the returned database lists the columns its blueprint declares, in order, with the declared attributes *)
Definition table_holds (h : heap) (bp : pyv) (t : oid) : Prop :=
  exists dd, bp = PVBlue 7 dd /\ cols_full (flist_of dd "columns") h t.

Lemma build_rest_tables d refs groups proj stickies l h :
  build_rest (mkPState l refs [] groups proj stickies) d h =
  bindM (iterM (step d) l) (fun _ => build_rest (mkPState [] refs [] groups proj stickies) d) h.
Proof. reflexivity. Qed.

Lemma step_ok_is_table d bp h h' : step d bp h = (h', Ok tt) -> exists dd, bp = PVBlue 7 dd.
Proof.
  intros H. unfold step in H. apply bindM_inv in H as [[e [_ H]]|[t [h1 [H1 _]]]]; [discriminate H|].
  destruct bp as [| | | | | | |tag dd]; try (cbn in H1; discriminate H1).
  assert (T7 : tag = 7%N \/ build_table d (PVBlue tag dd) h = (h, Raise (EStuck 411))).
  { destruct tag as [|p]; [right; reflexivity|]. destruct p as [q|q|]; [| |right; reflexivity]; [|right; destruct q; reflexivity].
    destruct q as [r0|r0|]; [| |right; reflexivity]; [|right; destruct r0; reflexivity]. destruct r0; [right; reflexivity|right; reflexivity|left; reflexivity]. }
  destruct T7 as [->|T7]; [eexists; reflexivity|rewrite T7 in H1; discriminate H1].
Qed.

Lemma cols_full_frame cbs h hfin t d : (forall x, x < length h -> x <> d -> nth_error hfin x = nth_error h x) ->
  (forall x ob, nth_error h x = Some ob -> x < length h) -> t <> d -> (forall c cc, nth_error h c = Some (OColumn cc) -> c <> d) ->
  cols_full cbs h t -> cols_full cbs hfin t.
Proof.
  intros Fr Lt Ntd Ncd (tb & Htb & F). pose proof Htb as Hn. apply h_table_nth in Hn.
  exists tb. split; [unfold h_table; rewrite (Fr t (Lt _ _ Hn) Ntd), Hn; reflexivity|].
  eapply Forall2_impl_s; [|exact F]. intros c cb (cc & A & B & C). exists cc. split; [rewrite (Fr c (Lt _ _ A) (Ncd _ _ A)); exact A|split; assumption].
Qed.

Lemma table_phase_final d refs groups proj stickies : forall l h hfin v db,
  Forall good_table_bp l -> h_database h d = Some db -> d_project db = None ->
  build_rest (mkPState l refs [] groups proj stickies) d h = (hfin, Ok v) ->
  exists ts hb dbb, iterM (step d) l h = (hb, Ok tt) /\ h_database hb d = Some dbb /\ d_tables dbb = d_tables db ++ ts /\
    Forall2 (table_holds hfin) l ts.
Proof.
  induction l as [|bp l IH]; intros h hfin v db Hg Hdb Hp H.
  - exists [], h, db. rewrite app_nil_r. split; [reflexivity|]. split; [exact Hdb|]. split; [reflexivity|constructor].
  - inversion Hg as [|? ? Hgb Hgl]; subst.
    rewrite build_rest_tables in H. cbn [iterM] in H. unfold bindM at 1 in H. unfold bindM at 1 in H.
    destruct (step d bp h) as [h1 [[]|x]] eqn:E1; [|discriminate H].
    change (build_rest (mkPState l refs [] groups proj stickies) d h1 = (hfin, Ok v)) in H.
    destruct (step_ok_is_table _ _ _ _ E1) as (dd & ->).
    destruct (tstep_fixes d dd h h1 db Hgb Hdb E1) as (t & CF & Lt & Lth & db1 & Hdb1 & Htl & Hp1 & _).
    assert (Hdl : d < length h1).
    { unfold h_database in Hdb1. destruct (nth_error h1 d) eqn:En; [|discriminate Hdb1]. eapply nth_some_lt; exact En. }
    assert (Hfr : forall x, x < length h1 -> x <> d -> nth_error hfin x = nth_error h1 x).
    { apply (build_steps_write_only_to_the_database_and_new_objects (mkPState l refs [] groups proj stickies) d h1 hfin (Ok v)); [exact Hdl| |exact H].
      intros x Hx. rewrite Hdb1 in Hx. inversion Hx; subst. rewrite Hp1. exact Hp. }
    destruct (IH h1 hfin v db1 Hgl Hdb1 ltac:(rewrite Hp1; exact Hp) H) as (ts & hb & dbb & Hit & Hdbb & Hts & F).
    exists (t :: ts), hb, dbb. split; [cbn [iterM]; unfold bindM; rewrite E1; exact Hit|]. split; [exact Hdbb|].
    split; [rewrite Hts, Htl, <- app_assoc; reflexivity|].
    constructor; [|exact F]. exists dd. split; [reflexivity|].
    eapply (cols_full_frame _ h1 hfin t d Hfr); [intros x ob Hx; eapply nth_some_lt; exact Hx| | |exact CF].
    + intros ->. destruct CF as (tb & Htb & _). unfold h_table, h_database in *. destruct (nth_error h1 d) as [[]|]; discriminate.
    + intros c cc Hc ->. unfold h_database in Hdb1. rewrite Hc in Hdb1. discriminate Hdb1.
Qed.

Theorem build_database_columns s allow sq dq h0 h1 dd :
  WW h0 -> (forall t tb, h_table h0 t = Some tb -> NoDup (names_of tb)) -> Forall good_table_bp (ps_tables s) ->
  build_database s allow sq dq h0 = (h1, Ok dd) ->
  exists db, h_database h1 dd = Some db /\ Forall2 (table_holds h1) (ps_tables s) (d_tables db).
Proof.
  intros HW Hgood Hg H. set (d := length h0).
  destruct (build_database_runs _ _ _ _ _ _ _ H) as (ha & hb & hc & hd & he & -> & A1 & B1 & C1 & D1 & E1 & F1). fold d in A1, B1, C1, D1, E1, F1 |- *.
  set (db0 := mkDatabase [] [] [] [] [] [] None allow sq dq) in *.
  destruct (JTC_initial [] [] h0 allow sq dq HW Hgood) as [HJ0 _]. fold d in HJ0. fold db0 in HJ0.
  assert (Hdb0 : h_database (h0 ++ [ODatabase db0]) d = Some db0).
  { unfold h_database, d. rewrite nth_error_app2 by lia. rewrite Nat.sub_diag. reflexivity. }
  (* enums *)
  destruct (phase_grows d KEnum (estep d) build_enum (ps_enums s)) with (h := h0 ++ [ODatabase db0]) (h' := ha) (db := db0) as [HJa (dba & osa & Hdba & La & Lena & Oa & Fa)]; [|exact HJ0|exact Hdb0|exact A1|].
  { intros bp h h' _ HJ Hst. apply (add_built_grows d (build_enum bp) KEnum h h' HJ); [|apply gdb_of_Rext, gR_build_enum|apply post_build_enum|discriminate|exact Hst].
    intros h1' r Hb. eapply J_Rext; [eapply gR_build_enum; exact Hb|exact HJ]. }
  (* tables *)
  rewrite Forall_forall in Hg.
  destruct (phase_grows d KTable (step d) (build_table d) (ps_tables s)) with (h := ha) (h' := hb) (db := dba) as [HJb (dbb & osb & Hdbb & Lb & Lenb & Ob & Fb)]; [|exact HJa|exact Hdba|exact B1|].
  { intros bp h h' Hin HJ Hst. apply (add_built_grows d (build_table d bp) KTable h h' HJ); [|apply gdb_build_table, Hg, Hin| |discriminate|exact Hst].
    - intros h1' r Hb. exact (proj1 (build_table_keeps_J d bp h h1' r (Hg bp Hin) HJ Hb)).
    - intros hx hy t Hb. apply kind_of_tbl. eapply post_build_table_tbl; exact Hb. }
  (* groups *)
  destruct (phase_grows d KGroup (gstep d) (build_group d) (ps_groups s)) with (h := hb) (h' := hc) (db := dbb) as [HJc (dbc & osc & Hdbc & Lc & Lenc & Oc & Fc)]; [|exact HJb|exact Hdbb|exact C1|].
  { intros bp h h' _ HJ Hst. apply (add_built_grows d (build_group d bp) KGroup h h' HJ); [|apply gdb_of_Rext, gR_build_group|apply post_build_group|discriminate|exact Hst].
    intros h1' r Hb. eapply J_Rext; [eapply gR_build_group; exact Hb|exact HJ]. }
  (* sticky notes *)
  destruct (phase_grows d KSticky (sstep d) build_sticky (ps_stickies s)) with (h := hc) (h' := hd) (db := dbc) as [HJd (dbd & osd & Hdbd & Ld & Lend & Od & Fd)]; [|exact HJc|exact Hdbc|exact D1|].
  { intros bp h h' _ HJ Hst. apply (add_built_grows d (build_sticky bp) KSticky h h' HJ); [|apply gdb_of_Rext, gR_build_sticky|apply post_build_sticky|discriminate|exact Hst].
    intros h1' r Hb. eapply J_Rext; [eapply gR_build_sticky; exact Hb|exact HJ]. }
  (* project *)
  assert (P : J d he /\ exists dbe, h_database he d = Some dbe /\ (forall k', k' <> KProject -> klist k' dbe = klist k' dbd) /\
                                 (d_project dbe = None <-> ps_project s = None /\ d_project dbd = None)).
  { unfold pstep in E1. destruct (ps_project s) as [bp|].
    - apply bindM_inv in E1 as [[e [_ E1]]|[x [hp [X1 X2]]]]; [discriminate E1|].
      assert (HJ1 : J d hp) by (eapply J_Rext; [eapply gR_build_project; exact X1|exact HJd]).
      split; [exact (proj1 (pres_db_add d x _ _ _ HJ1 Logic.I X2))|].
      destruct (J_InvDB _ _ HJ1) as (db1 & ID1 & Hdb1). pose proof (gdb_of_Rext d _ (gR_build_project bp) _ _ _ X1 dbd Hdbd) as Hdb1'. rewrite Hdb1 in Hdb1'. inversion Hdb1'; subst db1.
      destruct (db_add_step hp d dbd x ID1) as [[e R]|(db' & h2 & ob & k0 & Hrun & ID' & Ho & Hk & _ & _ & Hl2 & [Hoth _] & _)].
      { rewrite R in X2. discriminate X2. }
      rewrite Hrun in X2. inversion X2; subst h2.
      destruct (post_build_project _ _ _ _ X1) as (ob' & Hn & Hk'). rewrite Ho in Hn. inversion Hn; subst ob'. rewrite Hk in Hk'. inversion Hk'; subst k0.
      exists db'. split; [destruct ID' as [[A _ _ _ _ _] _ _]; exact A|]. split; [exact Hoth|].
      pose proof (Hl2 eq_refl) as L2. cbn in L2. split; [intros Hn0; rewrite Hn0 in L2; discriminate L2|intros [Hn0 _]; discriminate Hn0].
    - inversion E1; subst. split; [exact HJd|]. exists dbd. split; [exact Hdbd|]. split; [reflexivity|]. tauto. }
  destruct P as [HJe (dbe & Hdbe & Oe & Pe)].
  (* references *)
  destruct (phase_grows d KRef (rstep d) (build_reference d) (ps_refs s)) with (h := he) (h' := h1) (db := dbe) as [HJf (dbf & osf & Hdbf & Lf & Lenf & Of & Ff)]; [|exact HJe|exact Hdbe|exact F1|].
  { intros bp h h' _ HJ Hst. apply (add_built_grows d (build_reference d bp) KRef h h' HJ); [|apply gdb_of_Rext, gR_build_reference|apply post_build_reference|discriminate|exact Hst].
    intros h1' r Hb. eapply J_Rext; [eapply gR_build_reference; exact Hb|exact HJ]. }
  (* the table phase again, table by table, with the frame theorem *)
  assert (Run : build_rest (mkPState (ps_tables s) (ps_refs s) [] (ps_groups s) (ps_project s) (ps_stickies s)) d ha = (h1, Ok d)).
  { change (bindM (iterM (estep d) []) (fun _ => bindM (iterM (step d) (ps_tables s)) (fun _ => bindM (iterM (gstep d) (ps_groups s)) (fun _ =>
              bindM (iterM (sstep d) (ps_stickies s)) (fun _ => bindM (pstep d (ps_project s)) (fun _ => bindM (iterM (rstep d) (ps_refs s)) (fun _ => ret d)))))) ha = (h1, Ok d)).
    cbn [iterM]. unfold bindM at 1. unfold ret at 1. unfold bindM at 1. rewrite B1. unfold bindM at 1. rewrite C1. unfold bindM at 1. rewrite D1.
    unfold bindM at 1. rewrite E1. unfold bindM at 1. rewrite F1. reflexivity. }
  assert (Hpa : d_project dba = None).
  { apply kp_none. rewrite (Oa KProject ltac:(discriminate)). reflexivity. }
  assert (Hg' : Forall good_table_bp (ps_tables s)) by (apply Forall_forall; exact Hg).
  destruct (table_phase_final d (ps_refs s) (ps_groups s) (ps_project s) (ps_stickies s) (ps_tables s) ha h1 d dba Hg' Hdba Hpa Run) as (ts & hb' & dbb' & Hit & Hdbb' & Hts & FT).
  rewrite B1 in Hit. inversion Hit; subst hb'. rewrite Hdbb in Hdbb'. inversion Hdbb'; subst dbb'.
  exists dbf. split; [exact Hdbf|].
  assert (Tb : d_tables dbf = ts).
  { change (klist KTable dbf = ts). rewrite (Of KTable ltac:(discriminate)), (Oe KTable ltac:(discriminate)), (Od KTable ltac:(discriminate)), (Oc KTable ltac:(discriminate)).
    change (d_tables dbb = ts). rewrite Hts. change (klist KTable dba ++ ts = ts). rewrite (Oa KTable ltac:(discriminate)). reflexivity. }
  rewrite Tb. exact FT.
Qed.

Theorem parser_parse_columns source allow sq dq h0 h1 d :
  WW h0 -> (forall t tb, h_table h0 t = Some tb -> NoDup (names_of tb)) ->
  (forall st, blueprints_of source allow h0 = (h0, Ok st) -> Forall good_table_bp (ps_tables st)) ->
  parser_parse source allow sq dq h0 = (h1, Ok d) ->
  exists st db, blueprints_of source allow h0 = (h0, Ok st) /\ h_database h1 d = Some db /\ Forall2 (table_holds h1) (ps_tables st) (d_tables db).
Proof.
  intros HW Hgood Hbp H. unfold parser_parse in H. apply bindM_inv in H as [[e [_ H]]|[st [hx [H1 H2]]]]; [discriminate H|].
  pose proof (ro_blueprints_of _ _ _ _ _ H1) as ->.
  destruct (build_database_columns _ _ _ _ _ _ _ HW Hgood (Hbp st H1) H2) as (db & Hdb & C).
  exists st, db. split; [exact H1|]. split; [exact Hdb|exact C].
Qed.
