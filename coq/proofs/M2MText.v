(* M2MText.v — C04: the DDL of a many-to-many reference is the CREATE TABLE of its join table followed by two ALTER TABLE
   statements, one per side: the join table's first |col1| columns reference col1 of the left table, the rest reference col2 of
   the right table.  Stated for every heap, outside the domain of defect D5 (no brace anywhere in the three statements). *)
From PyDBML Require Import PyStr Py Heap Classes Tools RenderSQL CommentFacts LiveLinks RefText JoinTable.
From Coq Require Import Lia.
Import ListNotations.

(* str.format over text with several {c} placeholders: plain text passes, each placeholder becomes cval *)
Lemma format_c_app_plain cval p : nobrace p -> forall fuel rest, format_c (length p + fuel) cval (p ++ rest) =
  (do t <- format_c fuel cval rest; Ok (p ++ t)).
Proof.
  induction p as [|c p IH]; intros Hp fuel rest.
  - cbn [length app plus]. destruct (format_c fuel cval rest); reflexivity.
  - apply nobrace_cons in Hp as [[C1 C2] Hp]. cbn [length plus app format_c]. rewrite C1, C2. rewrite (IH Hp).
    destruct (format_c fuel cval rest); reflexivity.
Qed.
Lemma format_c_placeholder cval fuel rest : format_c (S fuel) cval (s2l "{c}" ++ rest) = (do t <- format_c fuel cval rest; Ok (cval ++ t)).
Proof.
  change (s2l "{c}" ++ rest) with (123%N :: 99%N :: 125%N :: rest). cbn [format_c].
  change (N.eqb 123 123) with true. cbv beta iota. change (N.eqb 99 123) with false. cbv beta iota.
  cbn [span]. change (negb (N.eqb 99 125) && negb (N.eqb 99 123)) with true. cbv beta iota.
  destruct rest as [|x rest'].
  - cbn. destruct fuel; reflexivity.
  - cbn [span]. change (negb (N.eqb 125 125) && negb (N.eqb 125 123)) with false. cbv beta iota.
    change (N.eqb 125 123) with false. cbv beta iota. cbn. reflexivity.
Qed.

Lemma py_format_c_two cval a b d : nobrace a -> nobrace b -> nobrace d ->
  py_format_c cval (a ++ s2l "{c}" ++ b ++ s2l "{c}" ++ d) = Ok (a ++ cval ++ b ++ cval ++ d).
Proof.
  intros A B D. unfold py_format_c.
  replace (S (length (a ++ s2l "{c}" ++ b ++ s2l "{c}" ++ d))) with (length a + S (length b + S (length d + 5)))
    by (rewrite !app_length; cbn [length s2l]; cbn; lia).
  rewrite (format_c_app_plain cval a A). rewrite format_c_placeholder. rewrite (format_c_app_plain cval b B). rewrite format_c_placeholder.
  rewrite (format_c_plain cval d _ D) by lia. reflexivity.
Qed.

Definition alter_text (r : reference) (st sn rt rn : pystr) : pystr :=
  with_comment (r_comment r)
    (s2l "ALTER TABLE " ++ st ++ s2l " ADD FOREIGN KEY (" ++ sn ++ s2l ") REFERENCES " ++ rt ++ s2l " (" ++ rn ++ [41%N] ++ on_clauses r ++ [59%N]).

Theorem sql_m2m_text h rid r c1 c2 h' jt jtt table_sql st1 sn1 rt1 rn1 st2 sn2 rt2 rn2 :
  ref_join_table rid h = (h', Ok (Some jt)) -> h_table h' jt = Some jtt -> r_col1 r = Some c1 -> r_col2 r = Some c2 ->
  sql_table h' jt jtt = Ok table_sql ->
  first_table_full_name h' (take (length c1) (t_columns jtt)) = Ok st1 -> col_names h' (take (length c1) (t_columns jtt)) = Ok sn1 ->
  first_table_full_name h' c1 = Ok rt1 -> col_names h' c1 = Ok rn1 ->
  first_table_full_name h' (drop (length c1) (t_columns jtt)) = Ok st2 -> col_names h' (drop (length c1) (t_columns jtt)) = Ok sn2 ->
  first_table_full_name h' c2 = Ok rt2 -> col_names h' c2 = Ok rn2 ->
  nobrace table_sql -> nobrace (fstr (r_comment r)) -> on_ok r ->
  nobrace st1 -> nobrace sn1 -> nobrace rt1 -> nobrace rn1 -> nobrace st2 -> nobrace sn2 -> nobrace rt2 -> nobrace rn2 ->
  sql_reference_m2m h rid r = Ok (table_sql ++ [cLF; cLF] ++ alter_text r st1 sn1 rt1 rn1 ++ [cLF; cLF] ++ alter_text r st2 sn2 rt2 rn2).
Proof.
  intros Hj Hjt Hc1 Hc2 Hts A1 A2 A3 A4 B1 B2 B3 B4 Nt Ncm Non N1 N2 N3 N4 N5 N6 N7 N8.
  unfold sql_reference_m2m. rewrite Hj. cbn [bind]. rewrite Hjt, Hc1, Hc2. rewrite Hts. cbn [bind].
  unfold generate_not_inline_sql. rewrite A1. cbn [bind]. rewrite A2. cbn [bind]. rewrite A3. cbn [bind]. rewrite A4. cbn [bind].
  rewrite B1. cbn [bind]. rewrite B2. cbn [bind]. rewrite B3. cbn [bind]. rewrite B4. cbn [bind].
  change (s2l " ADD {c}FOREIGN KEY (") with (s2l " ADD " ++ s2l "{c}" ++ s2l "FOREIGN KEY (").
  assert (E1 : forall st sn rt rn, with_comment (r_comment r) (s2l "ALTER TABLE " ++ st ++ (s2l " ADD " ++ s2l "{c}" ++ s2l "FOREIGN KEY (") ++ sn ++ s2l ") REFERENCES " ++ rt ++ s2l " (" ++ rn ++ [41%N] ++ on_clauses r ++ [59%N])
               = with_comment (r_comment r) (s2l "ALTER TABLE " ++ st ++ s2l " ADD ") ++ s2l "{c}" ++ (s2l "FOREIGN KEY (" ++ sn ++ s2l ") REFERENCES " ++ rt ++ s2l " (" ++ rn ++ [41%N] ++ on_clauses r ++ [59%N])).
  { intros. rewrite <- with_comment_app. f_equal. rewrite <- !app_assoc. reflexivity. }
  rewrite !E1.
  set (post1 := s2l "FOREIGN KEY (" ++ sn1 ++ s2l ") REFERENCES " ++ rt1 ++ s2l " (" ++ rn1 ++ [41%N] ++ on_clauses r ++ [59%N]).
  set (post2 := s2l "FOREIGN KEY (" ++ sn2 ++ s2l ") REFERENCES " ++ rt2 ++ s2l " (" ++ rn2 ++ [41%N] ++ on_clauses r ++ [59%N]).
  set (pre1 := with_comment (r_comment r) (s2l "ALTER TABLE " ++ st1 ++ s2l " ADD ")).
  set (pre2 := with_comment (r_comment r) (s2l "ALTER TABLE " ++ st2 ++ s2l " ADD ")).
  assert (EJ : join [cLF; cLF] [table_sql; pre1 ++ s2l "{c}" ++ post1; pre2 ++ s2l "{c}" ++ post2]
               = (table_sql ++ [cLF; cLF] ++ pre1) ++ s2l "{c}" ++ (post1 ++ [cLF; cLF] ++ pre2) ++ s2l "{c}" ++ post2).
  { cbn [join]. rewrite <- !app_assoc. reflexivity. }
  refine (eq_trans (f_equal (py_format_c []) EJ) _). rewrite py_format_c_two.
  - cbn [app]. unfold alter_text.
    assert (E2 : forall st sn rt rn, with_comment (r_comment r) (s2l "ALTER TABLE " ++ st ++ s2l " ADD FOREIGN KEY (" ++ sn ++ s2l ") REFERENCES " ++ rt ++ s2l " (" ++ rn ++ [41%N] ++ on_clauses r ++ [59%N])
               = with_comment (r_comment r) (s2l "ALTER TABLE " ++ st ++ s2l " ADD ") ++ (s2l "FOREIGN KEY (" ++ sn ++ s2l ") REFERENCES " ++ rt ++ s2l " (" ++ rn ++ [41%N] ++ on_clauses r ++ [59%N])).
    { intros. rewrite <- with_comment_app. f_equal. change (s2l " ADD FOREIGN KEY (") with (s2l " ADD " ++ s2l "FOREIGN KEY ("). rewrite <- !app_assoc. reflexivity. }
    rewrite !E2. subst pre1 pre2 post1 post2. rewrite <- !app_assoc. reflexivity.
  - apply nobrace_app; [exact Nt|]. apply nobrace_app; [reflexivity|]. apply nobrace_with_comment; [exact Ncm|]. apply nobrace_app; [reflexivity|]. apply nobrace_app; [exact N1|reflexivity].
  - apply nobrace_app.
    + unfold post1. apply nobrace_app; [reflexivity|]. apply nobrace_app; [exact N2|]. apply nobrace_app; [reflexivity|]. apply nobrace_app; [exact N3|].
      apply nobrace_app; [reflexivity|]. apply nobrace_app; [exact N4|]. apply nobrace_app; [reflexivity|]. apply nobrace_app; [apply nobrace_on_clauses; exact Non|reflexivity].
    + apply nobrace_app; [reflexivity|]. apply nobrace_with_comment; [exact Ncm|]. apply nobrace_app; [reflexivity|]. apply nobrace_app; [exact N5|reflexivity].
  - unfold post2. apply nobrace_app; [reflexivity|]. apply nobrace_app; [exact N6|]. apply nobrace_app; [reflexivity|]. apply nobrace_app; [exact N7|].
    apply nobrace_app; [reflexivity|]. apply nobrace_app; [exact N8|]. apply nobrace_app; [reflexivity|]. apply nobrace_app; [apply nobrace_on_clauses; exact Non|reflexivity].
Qed.

(* evaluated: blog.posts.(a,b) <> tags.x *)
Example m2m_text_example :
  sql_reference_m2m jx_heap 6 jx_ref = Ok (s2l "CREATE TABLE ""blog"".""posts_tags"" (
  ""posts_a"" int NOT NULL,
  ""posts_b"" text NOT NULL,
  ""tags_x"" uuid NOT NULL,
  PRIMARY KEY (""posts_a"", ""posts_b"", ""tags_x"")
);

ALTER TABLE ""blog"".""posts_tags"" ADD FOREIGN KEY (""posts_a"", ""posts_b"") REFERENCES ""blog"".""posts"" (""a"", ""b"");

ALTER TABLE ""blog"".""posts_tags"" ADD FOREIGN KEY (""tags_x"") REFERENCES ""tags"" (""x"");").
Proof. vm_compute. reflexivity. Qed.
