(* NoteInv.v — C05: every note of a parsed database points back to its owner.  [NoteBack]: whenever an object of a class that
   owns a note (table, column, index, enum item, project) is in the heap, its note is a Note object whose parent is that very
   object.  It is a plain invariant: every constructor establishes it for the owner it allocates (the note is allocated just
   before the owner, so nothing else can refer to it), and no other step of the build stores a note or an owner's note field. *)
From PyDBML Require Import PyStr Py Heap Classes Database Tools PP Actions Build GenClasses GenGrammar Entry MonadFacts ToolsFacts RuleFacts ContainerInv ContainerFull TableInv BuildInv BuildLinks BuildRules BuildDocs.
From Coq Require Import Lia.
Import ListNotations.

Definition NoteBack (h : heap) : Prop :=
  forall x ob n, nth_error h x = Some ob -> note_of ob = Some n -> exists nn, h_note h n = Some nn /\ n_parent nn = Some x.

(* what the invariant looks at *)
Inductive pview := PO (n : oid) | PN (parent : option oid) | PX.
Definition pview_of (ob : obj) : pview :=
  match note_of ob with
  | Some n => PO n
  | None => match ob with ONote nt => PN (n_parent nt) | _ => PX end
  end.

Lemma h_note_nth h n nn : h_note h n = Some nn <-> nth_error h n = Some (ONote nn).
Proof. unfold h_note. destruct (nth_error h n) as [[]|]; split; intros H; inversion H; reflexivity. Qed.

(* storing an object with the same view keeps the invariant *)
Lemma NoteBack_store h o ob ob' : NoteBack h -> nth_error h o = Some ob -> pview_of ob' = pview_of ob -> NoteBack (replace_nth o ob' h).
Proof.
  intros NB Ho E x ob0 n Hx Hn.
  assert (Hx0 : exists ob1, nth_error h x = Some ob1 /\ note_of ob1 = Some n).
  { destruct (Nat.eq_dec o x) as [<-|N].
    - rewrite (nth_replace_same' _ _ _ _ Ho) in Hx. inversion Hx; subst ob0. exists ob. split; [exact Ho|].
      unfold pview_of in E. rewrite Hn in E. destruct (note_of ob) as [m|]; [inversion E; reflexivity|destruct ob; discriminate E].
    - rewrite nth_replace_other in Hx by exact N. eauto. }
  destruct Hx0 as (ob1 & Hx1 & Hn1). destruct (NB _ _ _ Hx1 Hn1) as (nn & Hnn & Hp). apply h_note_nth in Hnn.
  destruct (Nat.eq_dec o n) as [<-|N].
  - rewrite Ho in Hnn. inversion Hnn; subst ob. unfold pview_of in E. cbn in E.
    destruct (note_of ob') eqn:En; [discriminate E|]. destruct ob' as [| | | | | |nt'| | | | |]; try discriminate E. cbn in E. inversion E as [E'].
    exists nt'. split; [apply h_note_nth; apply (nth_replace_same' _ _ _ _ Ho)|congruence].
  - exists nn. split; [apply h_note_nth; rewrite nth_replace_other by exact N; exact Hnn|exact Hp].
Qed.

(* appending an object that owns no note *)
Lemma NoteBack_app h ob : NoteBack h -> note_of ob = None -> NoteBack (h ++ [ob]).
Proof.
  intros NB Hob x ob0 n Hx Hn.
  destruct (Nat.lt_ge_cases x (length h)) as [L|L].
  - rewrite nth_error_app1 in Hx by exact L. destruct (NB _ _ _ Hx Hn) as (nn & Hnn & Hp). exists nn. split; [|exact Hp].
    apply h_note_nth. apply h_note_nth in Hnn. rewrite nth_error_app1; [exact Hnn|eapply nth_some_lt; eauto].
  - pose proof (nth_some_lt _ _ _ Hx) as L2. rewrite app_length in L2. cbn in L2. assert (x = length h) by lia. subst x.
    rewrite nth_error_app2 in Hx by lia. rewrite Nat.sub_diag in Hx. inversion Hx; subst ob0. congruence.
Qed.

Definition pn {A} (m : M A) : Prop := forall h h' r, NoteBack h -> m h = (h', r) -> NoteBack h'.
Lemma pn_ro {A} (m : M A) : readonly m -> pn m.
Proof. intros R h h' r NB H. apply R in H. subst. exact NB. Qed.
Lemma pn_bind {A B} (m : M A) (f : A -> M B) : pn m -> (forall a, pn (f a)) -> pn (bindM m f).
Proof.
  intros Hm Hf h h' r NB H. apply bindM_inv in H as [[e [H1 _]]|[a [h1 [H1 H2]]]].
  - eapply Hm; eauto.
  - eapply Hf; [|exact H2]. eapply Hm; eauto.
Qed.
Lemma pn_iterM {A} (f : A -> M unit) l : (forall a, pn (f a)) -> pn (iterM f l).
Proof. intros Hf. induction l as [|x l IH]; cbn [iterM]; [apply pn_ro, ro_ret|apply pn_bind; [apply Hf|intros _; exact IH]]. Qed.
Lemma pn_mapMM {A B} (f : A -> M B) l : (forall a, pn (f a)) -> pn (mapMM f l).
Proof.
  intros Hf. induction l as [|x l IH]; cbn [mapMM]; [apply pn_ro, ro_ret|].
  apply pn_bind; [apply Hf|intros y]. apply pn_bind; [exact IH|intros ys]. apply pn_ro, ro_ret.
Qed.

Lemma pn_alloc ob : note_of ob = None -> pn (alloc ob).
Proof. intros Hob h h' r NB H. unfold alloc in H. inversion H; subst. apply NoteBack_app; assumption. Qed.

Lemma pn_set_obj_database o v : pn (set_obj_database o v).
Proof.
  intros h h' r NB H. unfold set_obj_database, bindM, lookup in H. destruct (nth_error h o) as [ob|] eqn:E.
  - destruct ob; inversion H; subst; try exact NB; (eapply NoteBack_store; [exact NB|exact E|reflexivity]).
  - inversion H; subst. exact NB.
Qed.
Lemma pn_upd_db d f : pn (upd_db d f).
Proof.
  intros h h' r NB H. unfold upd_db, get_database, bindM, lookup in H. destruct (nth_error h d) as [ob|] eqn:E.
  - destruct ob; inversion H; subst; try exact NB. eapply NoteBack_store; [exact NB|exact E|reflexivity].
  - inversion H; subst. exact NB.
Qed.
Lemma pn_upd_index i f : (forall x, i_note (f x) = i_note x) -> pn (upd_index i f).
Proof.
  intros Hf h h' r NB H. unfold upd_index, get_index, bindM, lookup in H. destruct (nth_error h i) as [ob|] eqn:E.
  - destruct ob; inversion H; subst; try exact NB. eapply NoteBack_store; [exact NB|exact E|]. unfold pview_of. cbn. rewrite Hf. reflexivity.
  - inversion H; subst. exact NB.
Qed.
Lemma pn_upd_column c f : (forall x, c_note (f x) = c_note x) -> pn (upd_column c f).
Proof.
  intros Hf h h' r NB H. unfold upd_column, get_column, bindM, lookup in H. destruct (nth_error h c) as [ob|] eqn:E.
  - destruct ob; inversion H; subst; try exact NB. eapply NoteBack_store; [exact NB|exact E|]. unfold pview_of. cbn. rewrite Hf. reflexivity.
  - inversion H; subst. exact NB.
Qed.
Lemma pn_upd_table t f : (forall x, t_note (f x) = t_note x) -> pn (upd_table t f).
Proof.
  intros Hf h h' r NB H. unfold upd_table, get_table, bindM, lookup in H. destruct (nth_error h t) as [ob|] eqn:E.
  - destruct ob; inversion H; subst; try exact NB. eapply NoteBack_store; [exact NB|exact E|]. unfold pview_of. cbn. rewrite Hf. reflexivity.
  - inversion H; subst. exact NB.
Qed.
Lemma pn_enum_store e f :
  pn (do! x <- get_enum e ;;
      match e_items x with
      | Some its => store e (OEnum (mkEnum (e_database x) (e_name x) (e_schema x) (e_comment x) (Some (f its))))
      | None => raise EAttributeError
      end).
Proof.
  intros h h' r NB H. unfold get_enum, bindM, lookup in H.
  destruct (nth_error h e) as [[t|c|i|rf|en|ei|n|s|x|p|g|d]|] eqn:E; try (inversion H; subst; exact NB).
  cbv beta iota in H. unfold ret in H. destruct (e_items en); inversion H; subst; try exact NB.
  eapply NoteBack_store; [exact NB|exact E|reflexivity].
Qed.

(* the common shape of the constructors: note, then the owner referring to it, then set_note_parent *)
Lemma pn_owner_with_note (mk : oid -> obj) a :
  (forall n, note_of (mk n) = Some n) ->
  pn (do! n <- new_note_from a ;; do! o <- alloc (mk n) ;; do!! set_note_parent n o ;; ret o).
Proof.
  intros Hmk h h' r NB H. apply bindM_inv in H as [[e [H1 _]]|[n [h1 [H1 H]]]].
  { (* the note argument could not be read: nothing was allocated *)
    unfold new_note_from in H1. destruct a as [|s|o]; try (unfold alloc in H1; discriminate H1).
    apply bindM_inv in H1 as [[e' [H1 _]]|[x [hx [_ H1]]]]; [pose proof (ro_get_note o _ _ _ H1) as ->; exact NB|unfold alloc in H1; discriminate H1]. }
  destruct (new_note_from_post _ _ _ _ H1) as (-> & t & ->).
  unfold bindM at 1 in H. unfold alloc in H. cbv beta iota in H.
  set (h1 := h ++ [ONote (mkNote t None)]) in *. set (h2 := h1 ++ [mk (length h)]) in *.
  assert (L1 : length h1 = S (length h)) by (unfold h1; rewrite app_length; cbn; lia).
  assert (Hn : nth_error h2 (length h) = Some (ONote (mkNote t None))).
  { unfold h2, h1. rewrite nth_error_app1 by (rewrite app_length; cbn; lia). rewrite nth_error_app2 by lia. rewrite Nat.sub_diag. reflexivity. }
  assert (Hx : nth_error h2 (length h1) = Some (mk (length h))).
  { unfold h2. rewrite nth_error_app2 by lia. rewrite Nat.sub_diag. reflexivity. }
  assert (H3 : h' = replace_nth (length h) (ONote (mkNote t (Some (length h1)))) h2).
  { apply bindM_inv in H as [[e [H3 _]]|[u [h3 [H3 H]]]].
    - unfold set_note_parent, get_note, bindM, lookup in H3. rewrite Hn in H3. cbv beta iota in H3. unfold ret, store in H3. discriminate H3.
    - unfold ret in H. inversion H; subst h3. unfold set_note_parent, get_note, bindM, lookup in H3. rewrite Hn in H3. cbv beta iota in H3.
      unfold ret, store in H3. inversion H3. reflexivity. }
  subst h'. intros x ob m Hxo Hm.
  destruct (Nat.eq_dec x (length h)) as [->|Nx].
  { rewrite (nth_replace_same' _ _ _ _ Hn) in Hxo. inversion Hxo; subst ob. discriminate Hm. }
  rewrite nth_replace_other in Hxo by congruence.
  destruct (Nat.lt_ge_cases x (length h)) as [L|L].
  - assert (Hxh : nth_error h x = Some ob).
    { unfold h2, h1 in Hxo. rewrite nth_error_app1 in Hxo by (rewrite app_length; cbn; lia). rewrite nth_error_app1 in Hxo by exact L. exact Hxo. }
    destruct (NB _ _ _ Hxh Hm) as (nn & Hnn & Hp). exists nn. split; [|exact Hp]. apply h_note_nth. apply h_note_nth in Hnn.
    pose proof (nth_some_lt _ _ _ Hnn) as Lm. rewrite nth_replace_other by lia.
    unfold h2, h1. rewrite nth_error_app1 by (rewrite app_length; cbn; lia). rewrite nth_error_app1 by exact Lm. exact Hnn.
  - pose proof (nth_some_lt _ _ _ Hxo) as L2. unfold h2 in L2. rewrite app_length in L2. cbn in L2.
    assert (x = length h1) by lia. subst x. rewrite Hx in Hxo. inversion Hxo; subst ob. rewrite Hmk in Hm. inversion Hm; subst m.
    exists (mkNote t (Some (length h1))). split; [apply h_note_nth; apply (nth_replace_same' _ _ _ _ Hn)|reflexivity].
Qed.

Lemma pn_new_column n ty u nn pk ai d nt c p : pn (new_column n ty u nn pk ai d nt c p).
Proof. unfold new_column. apply (pn_owner_with_note (fun k => OColumn (mkColumn n ty u nn pk ai c k p d None))). reflexivity. Qed.
Lemma pn_new_index s n u ty pk nt c : pn (new_index s n u ty pk nt c).
Proof. unfold new_index. apply (pn_owner_with_note (fun k => OIndex (mkIndex s None (or_none n) u ty pk k c))). reflexivity. Qed.
Lemma pn_new_enumitem n nt c : pn (new_enumitem n nt c).
Proof. unfold new_enumitem. apply (pn_owner_with_note (fun k => OEnumItem (mkEnumItem n k c))). reflexivity. Qed.
Lemma pn_new_project n i nt c : pn (new_project n i nt c).
Proof. unfold new_project. apply (pn_owner_with_note (fun k => OProject (mkProject None n i k c))). reflexivity. Qed.
Lemma pn_new_table_empty name schema alias nt hc c ab props : pn (new_table name schema alias [] [] nt hc c ab props).
Proof.
  intros h h' r NB H.
  refine (pn_owner_with_note (fun k => OTable (mkTable None name schema [] [] (or_none alias) k hc c ab props)) nt (fun _ => eq_refl) h h' r NB _).
  unfold new_table in H. cbn [iterM] in H.
  apply bindM_inv in H as [[e [H1 ->]]|[n [h1 [H1 H]]]].
  - unfold bindM at 1. rewrite H1. reflexivity.
  - unfold bindM at 1. rewrite H1. unfold bindM at 1 in H. unfold bindM at 1.
    destruct (alloc _ h1) as [h2 [t|e]] eqn:E; [|exact H].
    unfold bindM at 1 2 in H. unfold ret at 1 2 in H. cbv beta iota in H. exact H.
Qed.

Ltac pnt :=
  repeat first [ apply pn_new_column | apply pn_new_index | apply pn_new_enumitem | apply pn_new_project
               | apply pn_set_obj_database | apply pn_upd_db | apply pn_enum_store
               | apply pn_upd_index; intros ?; reflexivity | apply pn_upd_column; intros ?; reflexivity | apply pn_upd_table; intros ?; reflexivity
               | apply pn_alloc; reflexivity
               | apply pn_ro; solve [ro_any]
               | apply pn_ro, ro_lift
               | apply pn_bind; [|intros ?]
               | apply pn_iterM; intros ?
               | apply pn_mapMM; intros ?
               | match goal with |- pn (match ?x with _ => _ end) => destruct x end
               | match goal with |- pn (if ?x then _ else _) => destruct x end
               | match goal with |- pn (let '(_, _) := ?x in _) => destruct x end ].

Lemma pn_new_expr t : pn (new_expr t). Proof. unfold new_expr. pnt. Qed.
Lemma pn_enum_add_item e a : pn (enum_add_item e a).
Proof.
  unfold enum_add_item. destruct a as [o|s].
  - apply pn_bind; [apply pn_ro, ro_lookup|intros ob].
    destruct ob; try (apply pn_ro, ro_ret). apply (pn_enum_store e (fun its => its ++ [o])).
  - apply pn_bind; [apply pn_new_enumitem|intros i]. apply (pn_enum_store e (fun its => its ++ [i])).
Qed.
Lemma pn_build_enum bp : pn (build_enum bp).
Proof. unfold build_enum, build_enum_item, new_enum. pnt; try first [apply pn_enum_add_item]. Qed.
Lemma pn_build_column d bp : pn (build_column d bp).
Proof. unfold build_column. pnt; try apply pn_new_expr. Qed.
Lemma pn_build_index bp : pn (build_index bp).
Proof. unfold build_index. pnt. Qed.
Lemma pn_subject_of t s : pn (subject_of t s).
Proof. unfold subject_of. pnt; try apply pn_new_expr. Qed.
Lemma pn_table_add_column t c : pn (table_add_column t c).
Proof. unfold table_add_column. pnt. Qed.
Lemma pn_table_add_index t i : pn (table_add_index t i).
Proof. unfold table_add_index. pnt. Qed.
Lemma pn_build_table d bp : pn (build_table d bp).
Proof.
  destruct bp as [s0|b0|z0|f0| |d0|l0|tag dd]; try (apply pn_ro, ro_stuck).
  destruct (N.eq_dec tag 7) as [->|Nt].
  2:{ unfold build_table. destruct tag as [|p]; [apply pn_ro, ro_stuck|].
      destruct p as [q|q|]; try (apply pn_ro, ro_stuck). destruct q as [r0|r0|]; try (apply pn_ro, ro_stuck).
      destruct r0; try (apply pn_ro, ro_stuck). congruence. }
  rewrite build_table_eq. apply pn_bind; [apply pn_ro, ro_lift|intros nt]. apply pn_bind; [apply pn_new_table_empty|intros t].
  unfold build_table_body. apply pn_bind; [|intros _].
  { apply pn_iterM. intros cb. apply pn_bind; [apply pn_build_column|intros c]. apply pn_table_add_column. }
  apply pn_bind; [|intros _; apply pn_ro, ro_ret].
  apply pn_iterM. intros ib. apply pn_bind; [apply pn_build_index|intros i].
  apply pn_bind; [apply pn_mapMM; intros s; apply pn_subject_of|intros subs].
  apply pn_bind; [apply pn_upd_index; intros ?; reflexivity|intros _]. apply pn_table_add_index.
Qed.
Lemma pn_build_group d bp : pn (build_group d bp).
Proof. unfold build_group, new_group. pnt; try (apply pn_ro, ro_group_items). Qed.
Lemma pn_build_sticky bp : pn (build_sticky bp).
Proof. unfold build_sticky, new_sticky. pnt. Qed.
Lemma pn_build_project bp : pn (build_project bp).
Proof. unfold build_project. pnt. Qed.
Lemma pn_build_reference d bp : pn (build_reference d bp).
Proof. unfold build_reference, new_reference. pnt; try (apply pn_ro; first [apply ro_locate_table|apply ro_table_getitem]). Qed.
Lemma pn_db_add d o : pn (db_add d o).
Proof.
  unfold db_add. apply pn_bind; [apply pn_ro, ro_lookup|intros ob].
  destruct ob; try (apply pn_ro, ro_raise).
  - unfold db_add_table. pnt.
  - unfold db_add_reference. pnt.
  - unfold db_add_enum. pnt.
  - unfold db_add_sticky_note. pnt.
  - unfold db_add_project, db_delete_project. pnt.
  - unfold db_add_table_group. pnt.
Qed.

(* ---- the build keeps the invariant, whatever its outcome ---- *)
Theorem build_database_keeps_notes s allow sq dq : pn (build_database s allow sq dq).
Proof.
  unfold build_database, new_database.
  apply pn_bind; [apply pn_alloc; reflexivity|intros db].
  apply pn_bind; [apply pn_iterM; intros bp; apply pn_bind; [apply pn_build_enum|intros e; apply pn_db_add]|intros _].
  apply pn_bind; [apply pn_iterM; intros bp; apply pn_bind; [apply pn_build_table|intros e; apply pn_db_add]|intros _].
  apply pn_bind; [apply pn_iterM; intros bp; apply pn_bind; [apply pn_build_group|intros e; apply pn_db_add]|intros _].
  apply pn_bind; [apply pn_iterM; intros bp; apply pn_bind; [apply pn_build_sticky|intros e; apply pn_db_add]|intros _].
  apply pn_bind; [destruct (ps_project s); [apply pn_bind; [apply pn_build_project|intros e; apply pn_db_add]|apply pn_ro, ro_ret]|intros _].
  apply pn_bind; [apply pn_iterM; intros bp; apply pn_bind; [apply pn_build_reference|intros e; apply pn_db_add]|intros _].
  apply pn_ro, ro_ret.
Qed.

Theorem parser_parse_keeps_notes source allow sq dq : pn (parser_parse source allow sq dq).
Proof.
  unfold parser_parse. apply pn_bind; [apply pn_ro, ro_blueprints_of|intros st]. apply build_database_keeps_notes.
Qed.

Lemma NoteBack_nil : NoteBack []. Proof. intros x ob n H. destruct x; discriminate H. Qed.

(* every table, column, index, enum item and project of a database parsed into the empty heap is the parent of its note *)
Theorem parsed_notes_point_back source allow sq dq h d :
  parser_parse source allow sq dq [] = (h, Ok d) ->
  forall x ob n, nth_error h x = Some ob -> note_of ob = Some n -> exists nn, h_note h n = Some nn /\ n_parent nn = Some x.
Proof. intros H. exact (parser_parse_keeps_notes source allow sq dq [] h (Ok d) NoteBack_nil H). Qed.

(* non-vacuity: a concrete document parses, its heap holds owners of every kind, and the boolean reading of the invariant holds *)
Definition noteback_b (h : heap) : bool :=
  forallb (fun x => match nth_error h x with
                    | Some ob => match note_of ob with
                                 | Some n => match h_note h n with
                                             | Some nn => match n_parent nn with Some p => Nat.eqb p x | None => false end
                                             | None => false
                                             end
                                 | None => true
                                 end
                    | None => true
                    end) (seq 0 (length h)).
Definition owners (h : heap) : nat := length (filter (fun ob => match note_of ob with Some _ => true | None => false end) h).
Definition note_example_text : pystr :=
  s2l "Project p {" ++ [cLF] ++ s2l " note: 'about'" ++ [cLF] ++ s2l "}" ++ [cLF] ++
  s2l "Enum e {" ++ [cLF] ++ s2l " a [note: 'item']" ++ [cLF] ++ s2l "}" ++ [cLF] ++
  s2l "Table t {" ++ [cLF] ++ s2l " id int [note: 'col']" ++ [cLF] ++ s2l " indexes {" ++ [cLF] ++ s2l "  id [note: 'idx']" ++ [cLF] ++ s2l " }" ++ [cLF]
  ++ s2l " Note: 'tab'" ++ [cLF] ++ s2l "}".
Example parsed_notes_example :
  match parser_parse note_example_text false 0 1 [] with
  | (h, Ok _) => noteback_b h = true /\ owners h = 5
  | _ => False
  end.
Proof. vm_compute. split; reflexivity. Qed.
