(* Raises.v — C08: which exceptions the parsing phase can raise.  [run_raises]: an outcome PRaise ex of the interpreter comes from a
   parse action that returned ARRaise ex, or is the model's own EStuck 300 (Combine over a non-string token).  [act_raises_only]: the
   parse actions raise only KeyError, SyntaxError, TypeError, ValueError (and the model's EStuck 31x / 399 outside its float window). *)
From PyDBML Require Import PyStr Py PP Actions.
Import ListNotations.

Definition action_excs : list exc := [EKeyError; ESyntaxError; ETypeError; EValueError; EStuck 310; EStuck 311; EStuck 399].
Lemma act_raises_only id src loc r ex : act id src loc r = ARRaise ex -> In ex action_excs.
Proof.
  unfold act. intros H.
  repeat match type of H with
         | (match ?x with _ => _ end) = ARRaise _ => destruct x; try discriminate H
         | (if ?b then _ else _) = ARRaise _ => destruct b; try discriminate H
         | (let '(_, _) := ?x in _) = ARRaise _ => destruct x
         end;
  try (inversion H; subst; cbn; tauto).
Qed.

Section Raises.
  Variable env : N -> option pexpr.
  Variable act : N -> pystr -> nat -> pr -> action_result.
  Variable src : pystr.
  Variable P : exc -> Prop.
  Hypothesis Hact : forall fn s loc r ex, act fn s loc r = ARRaise ex -> P ex.
  Hypothesis Hstuck : P (EStuck 300).

  Definition rk (o : outcome) : Prop := forall ex, o = PRaise ex -> P ex.
  Lemma rk_other o : (forall ex, o <> PRaise ex) -> rk o. Proof. intros H ex E. exfalso. exact (H _ E). Qed.

  Lemma act_loop_rk a loc q : forall l r eff, rk (act_loop act src a loc q l r eff).
  Proof.
    induction l as [|g l IH]; intros r eff; cbn [act_loop]; [intros ex H; discriminate H|].
    destruct (act g src loc r) eqn:E; try apply IH; [intros ex H; inversion H; subst; exact (Hact _ _ _ _ _ E)|intros ex H; discriminate H].
  Qed.
  Lemma finish_rk doact a loc q x eff : rk (finish_with act src doact a loc q x eff).
  Proof. unfold finish_with. destruct doact; [apply act_loop_rk|intros ex H; discriminate H]. Qed.

  Section Loops.
    Variable sub : pexpr -> pos -> bool -> outcome.
    Variable finish : pos -> raw -> list pyv -> outcome.
    Hypothesis Hfin : forall q x e, rk (finish q x e).
    Hypothesis Hsub : forall e q cp, rk (sub e q cp).

    Lemma and_loop_rk : forall l pc acc eff stop, rk (and_loop sub finish l pc acc eff stop).
    Proof.
      induction l as [|[ei|] l IH]; intros pc acc eff stop; cbn [and_loop]; [apply Hfin| |apply IH].
      pose proof (Hsub ei pc true) as Hs. destruct (sub ei pc true) eqn:E; try (intros ex H; try destruct stop; discriminate H); [apply IH|exact Hs].
    Qed.
    Lemma first_loop_rk pre : forall l, rk (first_loop sub finish pre l).
    Proof.
      induction l as [|ei l IH]; cbn [first_loop]; [intros ex H; discriminate H|].
      pose proof (Hsub ei pre true) as Hs. destruct (sub ei pre true) eqn:E; try (intros ex H; discriminate H); [apply Hfin|exact IH|exact Hs].
    Qed.
    Lemma rep_loop_rk e1 : forall n pc acc eff, rk (rep_loop sub finish e1 n pc acc eff).
    Proof.
      induction n as [|n IH]; intros pc acc eff; cbn [rep_loop]; [intros ex H; discriminate H|].
      pose proof (Hsub e1 pc true) as Hs. destruct (sub e1 pc true) eqn:E; try (intros ex H; discriminate H); [apply IH|apply Hfin|exact Hs].
    Qed.
    Lemma skip_scan_rk subq e1 incl pre : (forall e q cp, rk (subq e q cp)) -> forall n kk pc, rk (skip_scan sub subq finish e1 incl pre kk pc n).
    Proof.
      intros Hq. induction n as [|n IH]; intros kk pc; cbn [skip_scan]; [intros ex H; discriminate H|].
      destruct (p_past pc); [intros ex H; discriminate H|].
      pose proof (Hq e1 pc false) as Hs1. destruct (subq e1 pc false) eqn:E1; try (intros ex H; discriminate H); [| |exact Hs1].
      - destruct incl; [|apply Hfin]. pose proof (Hsub e1 pc false) as Hs. destruct (sub e1 pc false) eqn:E; try (intros ex H; discriminate H); [apply Hfin|exact Hs].
      - destruct (p_rest pc); [intros ex H; discriminate H|apply IH].
    Qed.
    Lemma or_loop_rk suba hf pre2 : (forall e q cp, rk (suba e q cp)) -> forall l longest, rk (or_loop suba finish hf pre2 l longest).
    Proof.
      intros Ha. induction l as [|[loc1 e1] l IH]; intros longest; cbn [or_loop].
      - destruct longest as [[[pl r] e]|]; [apply Hfin|destruct hf; intros ex H; discriminate H].
      - match goal with |- rk (if ?b then _ else _) => destruct b end.
        + destruct longest as [[[pl r] e]|]; [apply Hfin|intros ex H; discriminate H].
        + pose proof (Ha e1 pre2 true) as Hs. destruct (suba e1 pre2 true) eqn:E; try (intros ex H; discriminate H); [|apply IH|exact Hs].
          destruct (Nat.leb loc1 (p_loc p)); [apply Hfin|]. destruct longest as [[[pl r0] e0]|]; [destruct (Nat.ltb _ _)|]; apply IH.
    Qed.
  End Loops.

  Lemma terminal_no_raise c p ex : run_terminal c p <> IRaise ex.
  Proof.
    intros H. destruct c; cbn [run_terminal] in H;
      repeat match type of H with
             | (match ?t with _ => _ end) = _ => destruct t; try discriminate H
             | (if ?b then _ else _) = _ => destruct b; try discriminate H
             | (let '(_, _) := ?t in _) = _ => destruct t
             end; try discriminate H.
    induction alts as [|a alts IH]; [discriminate H|]. destruct (match_prefix a (p_rest p)); [discriminate H|exact (IH H)].
  Qed.

  Theorem run_raises : forall f doact e p cp, rk (run env act src f doact e p cp).
  Proof.
    induction f as [|f IH]; intros doact e p cp; [intros ex H; discriminate H|].
    cbn [run].
    set (pre := if cp && a_call_preparse (e_attrs e) then preparse (e_attrs e) p else p).
    set (finish := finish_with act src doact (e_attrs e) (p_loc pre)).
    assert (Hfin : forall q x e0, rk (finish q x e0)) by (intros; apply finish_rk).
    assert (Hsub : forall d e1 q cp1, rk (run env act src f d e1 q cp1)) by (intros; apply IH).
    destruct (e_core e) as [s|um ret|init body mn mx ms kw rm|q endq esc ml unq cw|cs mn mx|cs mn mx|alts| | |cs|cs| | |items|es|es|e0|e0|e0|e0 incl|e0 joinstr|e0|e0|id|e0|e0|e0] eqn:Ec.
    1-13: (unfold outcome_of; match goal with |- rk (match ?t with _ => _ end) => destruct t as [p1 x1 eff1| | |ex1|] eqn:Et; try (intros ? H; discriminate H) end;
           [apply Hfin|exfalso; exact (terminal_no_raise _ _ _ Et)]).
    - (* PAnd *) destruct items as [|[e0|] rest]; try (intros ? H; discriminate H).
      pose proof (Hsub doact e0 pre false) as Hs. destruct (run env act src f doact e0 pre false) eqn:E; try (intros ? H; discriminate H); [|exact Hs].
      apply and_loop_rk; [exact Hfin|intros; apply Hsub].
    - apply first_loop_rk; [exact Hfin|intros; apply Hsub].
    - (* POr *)
      match goal with |- rk (if ?b then _ else _) => destruct b end; [intros ? H; discriminate H|].
      destruct (find _ _) as [[ex0 o]|] eqn:Ef.
      + apply find_some in Ef as [Hin _]. apply in_map_iff in Hin as (ei & Heq & _). inversion Heq; subst. apply Hsub.
      + destruct (sort_matches _) as [|[nb best] l]; [match goal with |- rk (if ?b then _ else _) => destruct b end; intros ? H; discriminate H|].
        destruct (negb doact).
        * match goal with |- rk (match ?t with _ => _ end) => pose proof (Hsub false best _ true : rk t) as Hs; destruct t eqn:E; try (intros ? H; discriminate H) end; [apply Hfin|exact Hs].
        * apply or_loop_rk; [exact Hfin|intros; apply Hsub].
    - pose proof (Hsub doact e0 pre true) as Hs. destruct (run env act src f doact e0 pre true) eqn:E; try (intros ? H; discriminate H); [apply rep_loop_rk; [exact Hfin|intros; apply Hsub]|apply Hfin|exact Hs].
    - pose proof (Hsub doact e0 pre true) as Hs. destruct (run env act src f doact e0 pre true) eqn:E; try (intros ? H; discriminate H); [apply rep_loop_rk; [exact Hfin|intros; apply Hsub]|exact Hs].
    - pose proof (Hsub doact e0 pre false) as Hs. destruct (run env act src f doact e0 pre false) eqn:E; try (intros ? H; discriminate H); [apply Hfin|apply Hfin|exact Hs].
    - apply skip_scan_rk; [exact Hfin|intros; apply Hsub|intros; apply Hsub].
    - pose proof (Hsub doact e0 pre false) as Hs. destruct (run env act src f doact e0 pre false) eqn:E; try (intros ? H; discriminate H); [|exact Hs].
      destruct (as_string_list r joinstr); [|intros ex H; inversion H; subst; exact Hstuck].
      destruct (a_rname (e_attrs e)); [destruct (negb _)|]; apply Hfin.
    - pose proof (Hsub doact e0 pre false) as Hs. destruct (run env act src f doact e0 pre false) eqn:E; try (intros ? H; discriminate H); [apply Hfin|exact Hs].
    - pose proof (Hsub doact e0 pre false) as Hs. destruct (run env act src f doact e0 pre false) eqn:E; try (intros ? H; discriminate H); [apply Hfin|exact Hs].
    - destruct (env id) as [e1|]; [|intros ? H; discriminate H].
      pose proof (Hsub doact e1 pre false) as Hs. destruct (run env act src f doact e1 pre false) eqn:E; try (intros ? H; discriminate H); [apply Hfin|exact Hs].
    - pose proof (Hsub doact e0 pre true) as Hs. destruct (run env act src f doact e0 pre true) eqn:E; try (intros ? H; discriminate H); [apply Hfin|exact Hs].
    - pose proof (Hsub false e0 pre true) as Hs. destruct (run env act src f false e0 pre true) eqn:E; try (intros ? H; discriminate H); [apply Hfin|apply Hfin|exact Hs].
    - pose proof (Hsub doact e0 pre true) as Hs. destruct (run env act src f doact e0 pre true) eqn:E; try (intros ? H; discriminate H); [apply Hfin|exact Hs].
  Qed.
End Raises.

(* ====================== the parsing phase of PyDBML ====================== *)
From PyDBML Require Import Heap GenClasses GenGrammar Build Entry MonadFacts.

Theorem parse_raises_only env src f doact e p cp ex :
  run env act src f doact e p cp = PRaise ex -> In ex (EStuck 300 :: action_excs).
Proof.
  intros H. refine (run_raises env act src (fun x => In x (EStuck 300 :: action_excs)) _ _ f doact e p cp ex H).
  - intros fn s loc r ex0 Ha. right. exact (act_raises_only fn s loc r ex0 Ha).
  - left. reflexivity.
Qed.

Lemma register_all_raises : forall l st ex, register_all l st = Raise ex -> ex = ERuntimeError.
Proof.
  induction l as [|bp l IH]; intros st ex H; cbn [register_all] in H; [discriminate H|].
  destruct (register st bp) as [st'|e] eqn:E; cbn [bind] in H.
  - exact (IH _ _ H).
  - inversion H; subst. unfold register in E. destruct bp; try (inversion E; reflexivity).
    repeat match type of E with (match ?x with _ => _ end) = _ => destruct x; try discriminate E end; inversion E; reflexivity.
Qed.

(* what the first phase of PyDBMLParser.parse can raise: the two pyparsing errors, what the parse actions raise, RuntimeError from
   parse_blueprint, and the model's own stuck markers (fuel 500, Combine 300, float window 31x/399) *)
Definition parse_phase_excs : list exc := [EParse; EParseSyntax; ERuntimeError; EStuck 500; EStuck 300] ++ action_excs.

Theorem blueprints_of_raises_only (source : pystr) (allow : bool) (h h' : heap) ex :
  blueprints_of source allow h = (h', Raise ex) -> In ex parse_phase_excs.
Proof.
  intros H. unfold blueprints_of in H. cbv zeta in H.
  match type of H with (match ?o with _ => _ end) h = _ => destruct o as [p1 r1 eff1| | |e1|] eqn:E end.
  - unfold lift in H. destruct (register_all eff1 ps_empty) eqn:R; inversion H; subst. rewrite (register_all_raises _ _ _ R). cbn. tauto.
  - unfold raise in H. inversion H; subst. cbn. tauto.
  - unfold raise in H. inversion H; subst. cbn. tauto.
  - unfold raise in H. inversion H; subst. unfold parse_string in E.
    match type of E with (match ?o with _ => _ end) = _ => destruct o as [p2 r2 eff2| | |e2|] eqn:E2; try discriminate E end.
    + destruct (if allow then gen_parse_all_on else gen_parse_all_off); [|discriminate E].
      match type of E with (match ?l with _ => _ end) = _ => destruct l; discriminate E end.
    + inversion E; subst. pose proof (parse_raises_only _ _ _ _ _ _ _ _ E2) as Hin. unfold parse_phase_excs. cbn in Hin |- *. tauto.
  - unfold stuck, raise in H. inversion H; subst. cbn. tauto.
Qed.
