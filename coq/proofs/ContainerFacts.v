(* ContainerFacts.v — C09: rejected container operations leave the heap untouched. *)
From PyDBML Require Import PyStr Py Heap Classes Database MonadFacts.
Import ListNotations.

Ltac unfold_getters :=
  unfold upd_db, upd_table, upd_column, upd_index, set_obj_database,
         get_table, get_column, get_index, get_database, get_reference, get_enum, get_group,
         get_project, get_sticky, get_note.

Ltac at_step :=
  first [ apply at_bind_ro; [solve [ro_any] | intros ?]
        | match goal with |- atomic_on _ (match ?x with _ => _ end) => destruct x end
        | match goal with |- atomic_on _ (if ?x then _ else _) => destruct x end
        | apply at_ro; solve [ro]
        | apply at_never; solve [unfold_getters; nv] ].

Section Atomic.
  Variable ex : exc.
  Hypothesis Hpy : is_pydbml_exc ex = true.

  Ltac start := destruct ex; try discriminate Hpy.

  Lemma db_add_table_atomic d o : atomic_on ex (db_add_table d o).
  Proof. start; unfold db_add_table; repeat at_step. Qed.
  Lemma db_add_reference_atomic d o : atomic_on ex (db_add_reference d o).
  Proof. start; unfold db_add_reference; repeat at_step. Qed.
  Lemma db_add_enum_atomic d o : atomic_on ex (db_add_enum d o).
  Proof. start; unfold db_add_enum; repeat at_step. Qed.
  Lemma db_add_table_group_atomic d o : atomic_on ex (db_add_table_group d o).
  Proof. start; unfold db_add_table_group; repeat at_step. Qed.
  Lemma db_add_sticky_note_atomic d o : atomic_on ex (db_add_sticky_note d o).
  Proof. start; unfold db_add_sticky_note; repeat at_step. Qed.
  Lemma db_delete_project_atomic d : atomic_on ex (db_delete_project d).
  Proof. start; unfold db_delete_project; repeat at_step. Qed.
  Lemma db_add_project_atomic d o : atomic_on ex (db_add_project d o).
  Proof.
    unfold db_add_project.
    apply at_bind_ro; [ro_any|]; intros _. apply at_bind_ro; [ro_any|]; intros x.
    apply at_bind_nv.
    - destruct (d_project x).
      + apply at_bind_nv; [apply db_delete_project_atomic | intros; start; nv].
      + apply at_ro; ro.
    - intros _. start; unfold_getters; nv.
  Qed.
  Lemma db_add_atomic d o : atomic_on ex (db_add d o).
  Proof.
    unfold db_add. apply at_bind_ro; [ro_any|]. intros ob.
    destruct ob; first [ apply db_add_table_atomic | apply db_add_reference_atomic | apply db_add_enum_atomic
                       | apply db_add_table_group_atomic | apply db_add_project_atomic | apply db_add_sticky_note_atomic
                       | apply at_ro; ro ].
  Qed.

  Lemma db_delete_table_atomic d o : atomic_on ex (db_delete_table d o).
  Proof. start; unfold db_delete_table; repeat at_step. Qed.
  Lemma db_delete_generic_atomic g s e d o : atomic_on ex (db_delete_generic g s e d o).
  Proof. start; unfold db_delete_generic; repeat at_step. Qed.
  Lemma db_delete_atomic d o : atomic_on ex (db_delete d o).
  Proof.
    unfold db_delete. apply at_bind_ro; [ro_any|]. intros ob.
    destruct ob; first [ apply db_delete_table_atomic | apply db_delete_generic_atomic | apply db_delete_project_atomic
                       | apply at_ro; ro ].
  Qed.

  Lemma table_add_column_atomic t c : atomic_on ex (table_add_column t c).
  Proof. start; unfold table_add_column; repeat at_step. Qed.
  Lemma table_add_index_atomic t i : atomic_on ex (table_add_index t i).
  Proof. start; unfold table_add_index; repeat at_step. Qed.
  Lemma table_delete_column_atomic t a : atomic_on ex (table_delete_column t a).
  Proof. start; unfold table_delete_column; repeat at_step. Qed.
  Lemma table_delete_index_atomic t a : atomic_on ex (table_delete_index t a).
  Proof. start; unfold table_delete_index; repeat at_step. Qed.
End Atomic.
