(* BuildRaises.v — C08: what the BUILD phase of PyDBMLParser.parse can raise.  For every parser state (list of blueprints),
   options and heap, build_database raises nothing but the library's own exceptions TableNotFoundError, ColumnNotFoundError,
   DatabaseValidationError and ValidationError (and the model's own markers EStuck, which say "outside the model", never a
   Python exception).  In particular the TypeError / AttributeError branches of Table.add_column, Table.add_index,
   Enum.add_item and Database.add are shown unreachable from the build: what is handed to them is a column, an index with
   a subject list, an enum with an item list, a reference with both column lists. *)
From PyDBML Require Import PyStr Py Heap Classes Database Tools PP Actions Build Entry MonadFacts RuleFacts ContainerInv ContainerFull TableInv BuildInv BuildLinks BuildRules BuildDocs BuildRefs Raises.
From Coq Require Import Lia.
Import ListNotations.

Definition own (e : exc) : Prop :=
  e = ETableNotFound \/ e = EColumnNotFound \/ e = EDatabaseValidation \/ e = EValidation \/ exists k, e = EStuck k.

(* m, started in a heap satisfying Pre, raises only own exceptions *)
Definition rzp {A} (Pre : heap -> Prop) (m : M A) : Prop := forall h h' e, Pre h -> m h = (h', Raise e) -> own e.
Definition rz {A} (m : M A) : Prop := rzp (fun _ => True) m.

Lemma own_stuck k : own (EStuck k). Proof. unfold own. right; right; right; right. eauto. Qed.
Lemma rz_rzp {A} Pre (m : M A) : rz m -> rzp Pre m. Proof. intros H h h' e _ E. eapply H; eauto. Qed.
Lemma rz_ret {A} (a : A) : rz (ret a). Proof. intros h h' e _ E. discriminate E. Qed.
Lemma rz_store i o : rz (store i o). Proof. intros h h' e _ E. discriminate E. Qed.
Lemma rz_alloc o : rz (alloc o). Proof. intros h h' e _ E. discriminate E. Qed.
Lemma rz_get_heap : rz get_heap. Proof. intros h h' e _ E. discriminate E. Qed.
Lemma rz_raise {A} e : own e -> rz (@raise A e). Proof. intros O h h' e' _ E. inversion E; subst. exact O. Qed.
Lemma rz_stuck {A} k : rz (@stuck A k). Proof. apply rz_raise, own_stuck. Qed.
Lemma rz_lookup i : rz (lookup i).
Proof. intros h h' e _ E. unfold lookup in E. destruct (nth_error h i); inversion E. apply own_stuck. Qed.
Lemma rz_bind {A B} (m : M A) (f : A -> M B) : rz m -> (forall a, rz (f a)) -> rz (bindM m f).
Proof.
  intros Hm Hf h h' e _ E. apply bindM_inv in E as [[e' [E1 Er]]|[a [h1 [E1 E2]]]].
  - inversion Er; subst. eapply Hm; eauto.
  - eapply Hf; eauto.
Qed.
(* the continuation may rely on a postcondition of the first computation *)
Lemma rz_bind_post {A B} (Q : heap -> A -> Prop) (m : M A) (f : A -> M B) :
  rz m -> post m Q -> (forall a, rzp (fun h => Q h a) (f a)) -> rz (bindM m f).
Proof.
  intros Hm HQ Hf h h' e _ E. apply bindM_inv in E as [[e' [E1 Er]]|[a [h1 [E1 E2]]]].
  - inversion Er; subst. eapply Hm; eauto.
  - eapply Hf; [eapply HQ; exact E1|exact E2].
Qed.
Lemma rzp_bind {A B} Pre (Q : heap -> A -> Prop) (m : M A) (f : A -> M B) :
  rzp Pre m -> (forall h h' a, Pre h -> m h = (h', Ok a) -> Q h' a) -> (forall a, rzp (fun h => Q h a) (f a)) -> rzp Pre (bindM m f).
Proof.
  intros Hm HQ Hf h h' e P E. apply bindM_inv in E as [[e' [E1 Er]]|[a [h1 [E1 E2]]]].
  - inversion Er; subst. eapply Hm; eauto.
  - eapply Hf; [eapply HQ; eauto|exact E2].
Qed.
Lemma rz_iterM {A} (f : A -> M unit) l : (forall a, rz (f a)) -> rz (iterM f l).
Proof. intros Hf. induction l as [|x l IH]; cbn [iterM]; [apply rz_ret|apply rz_bind; [apply Hf|intros _; exact IH]]. Qed.
Lemma rz_mapMM {A B} (f : A -> M B) l : (forall a, rz (f a)) -> rz (mapMM f l).
Proof.
  intros Hf. induction l as [|x l IH]; cbn [mapMM]; [apply rz_ret|]. apply rz_bind; [apply Hf|intros y]. apply rz_bind; [exact IH|intros ys]. apply rz_ret.
Qed.
Lemma rz_lift {A} (r : res A) : (forall e, r = Raise e -> own e) -> rz (lift r).
Proof. intros Hr h h' e _ E. unfold lift in E. destruct r; inversion E; subst. apply Hr. reflexivity. Qed.

Ltac rzs :=
  repeat first [ apply rz_ret | apply rz_store | apply rz_alloc | apply rz_get_heap | apply rz_stuck | apply rz_lookup
               | apply rz_raise; unfold own; solve [auto 6]
               | apply rz_bind; [|intros ?]
               | match goal with |- rz (match ?x with _ => _ end) => destruct x end
               | match goal with |- rz (if ?x then _ else _) => destruct x end ].

Lemma rz_get_table i : rz (get_table i). Proof. unfold get_table. rzs. Qed.
Lemma rz_get_column i : rz (get_column i). Proof. unfold get_column. rzs. Qed.
Lemma rz_get_index i : rz (get_index i). Proof. unfold get_index. rzs. Qed.
Lemma rz_get_database i : rz (get_database i). Proof. unfold get_database. rzs. Qed.
Lemma rz_get_reference i : rz (get_reference i). Proof. unfold get_reference. rzs. Qed.
Lemma rz_get_enum i : rz (get_enum i). Proof. unfold get_enum. rzs. Qed.
Lemma rz_get_group i : rz (get_group i). Proof. unfold get_group. rzs. Qed.
Lemma rz_get_project i : rz (get_project i). Proof. unfold get_project. rzs. Qed.
Lemma rz_get_sticky i : rz (get_sticky i). Proof. unfold get_sticky. rzs. Qed.
Lemma rz_get_note i : rz (get_note i). Proof. unfold get_note. rzs. Qed.
Ltac rzg := first [ apply rz_get_table | apply rz_get_column | apply rz_get_index | apply rz_get_database | apply rz_get_reference
                  | apply rz_get_enum | apply rz_get_group | apply rz_get_project | apply rz_get_sticky | apply rz_get_note ].
Ltac rzz :=
  repeat first [ rzg | apply rz_ret | apply rz_store | apply rz_alloc | apply rz_get_heap | apply rz_stuck | apply rz_lookup
               | apply rz_raise; unfold own; solve [auto 6]
               | apply rz_bind; [|intros ?]
               | match goal with |- rz (match ?x with _ => _ end) => destruct x end
               | match goal with |- rz (if ?x then _ else _) => destruct x end ].

(* ---- constructors ---- *)
Lemma rz_new_note_from a : rz (new_note_from a). Proof. unfold new_note_from. rzz. Qed.
Lemma rz_set_note_parent k p : rz (set_note_parent k p). Proof. unfold set_note_parent. rzz. Qed.
Lemma rz_new_expr t : rz (new_expr t). Proof. unfold new_expr. rzz. Qed.
Lemma rz_new_column nm ty u nn pk ai d nt c p : rz (new_column nm ty u nn pk ai d nt c p).
Proof. unfold new_column. apply rz_bind; [apply rz_new_note_from|intros k]. apply rz_bind; [apply rz_alloc|intros o]. apply rz_bind; [apply rz_set_note_parent|intros _]. apply rz_ret. Qed.
Lemma rz_new_index s nm u ty pk nt c : rz (new_index s nm u ty pk nt c).
Proof. unfold new_index. apply rz_bind; [apply rz_new_note_from|intros k]. apply rz_bind; [apply rz_alloc|intros o]. apply rz_bind; [apply rz_set_note_parent|intros _]. apply rz_ret. Qed.
Lemma rz_new_enumitem nm nt c : rz (new_enumitem nm nt c).
Proof. unfold new_enumitem. apply rz_bind; [apply rz_new_note_from|intros k]. apply rz_bind; [apply rz_alloc|intros o]. apply rz_bind; [apply rz_set_note_parent|intros _]. apply rz_ret. Qed.
Lemma rz_new_project nm items nt c : rz (new_project nm items nt c).
Proof. unfold new_project. apply rz_bind; [apply rz_new_note_from|intros k]. apply rz_bind; [apply rz_alloc|intros o]. apply rz_bind; [apply rz_set_note_parent|intros _]. apply rz_ret. Qed.
Lemma rz_upd_table t f : rz (upd_table t f). Proof. unfold upd_table. rzz. Qed.
Lemma rz_upd_column t f : rz (upd_column t f). Proof. unfold upd_column. rzz. Qed.
Lemma rz_upd_index t f : rz (upd_index t f). Proof. unfold upd_index. rzz. Qed.
Lemma rz_upd_db t f : rz (upd_db t f). Proof. unfold upd_db. rzz. Qed.
Lemma rz_set_obj_database o v : rz (set_obj_database o v). Proof. unfold set_obj_database. rzz. Qed.
Lemma rz_new_table nm sc al nt hc c ab props : rz (new_table nm sc al [] [] nt hc c ab props).
Proof.
  unfold new_table. apply rz_bind; [apply rz_new_note_from|intros k]. apply rz_bind; [apply rz_alloc|intros t]. cbn [iterM].
  apply rz_bind; [apply rz_ret|intros _]. apply rz_bind; [apply rz_ret|intros _]. apply rz_bind; [apply rz_set_note_parent|intros _]. apply rz_ret.
Qed.

(* ---- mutators whose TypeError / AttributeError branch needs a fact about the argument ---- *)
Definition is_col (h : heap) (c : oid) : Prop := exists cc, nth_error h c = Some (OColumn cc).
Definition idx_ready (h : heap) (i : oid) : Prop := exists ix subs, nth_error h i = Some (OIndex ix) /\ i_subjects ix = Some subs.
Definition enum_ready (h : heap) (e : oid) : Prop := exists x its, nth_error h e = Some (OEnum x) /\ e_items x = Some its.
(* what Database.add is handed: if it is a reference, both column lists are there *)
Definition addable (h : heap) (o : oid) : Prop :=
  forall r, nth_error h o = Some (OReference r) -> (exists c1, r_col1 r = Some c1) /\ (exists c2, r_col2 r = Some c2).

Lemma run_rz {A} (m : M A) h h' e : rz m -> m h = (h', Raise e) -> own e.
Proof. intros R E. eapply R; [exact I|exact E]. Qed.

Lemma rzp_table_add_column t c : rzp (fun h => is_col h c) (table_add_column t c).
Proof.
  intros h h' e (cc & Hc) E. unfold table_add_column in E. unfold bindM at 1 in E. unfold lookup in E. rewrite Hc in E. cbv beta iota in E.
  revert E. apply run_rz. apply rz_bind; [apply rz_upd_column|intros _; apply rz_upd_table].
Qed.
Lemma rzp_table_add_index t i : rzp (fun h => idx_ready h i) (table_add_index t i).
Proof.
  intros h h' e (ix & subs & Hi & Hs) E. unfold table_add_index in E. unfold bindM at 1 in E. unfold lookup in E. rewrite Hi in E. cbv beta iota in E. rewrite Hs in E.
  revert E. apply run_rz. apply rz_bind; [apply rz_get_heap|intros h0].
  match goal with |- rz (if ?b then _ else _) => destruct b end.
  - apply rz_bind; [apply rz_upd_index|intros _; apply rz_upd_table].
  - apply rz_raise. unfold own. auto.
Qed.
Lemma enum_add_obj_step e o h h' r : enum_ready h e -> enum_add_item e (IAobj o) h = (h', r) ->
  enum_ready h' e /\ forall ex, r = Raise ex -> own ex.
Proof.
  intros (x & its & He & Hi) E. unfold enum_add_item in E. unfold bindM at 1 in E. unfold lookup in E.
  destruct (nth_error h o) as [ob|] eqn:Eo.
  2:{ inversion E; subst. split; [exists x, its; auto|]. intros ex Hx. inversion Hx. apply own_stuck. }
  cbv beta iota in E.
  assert (D : (exists it, ob = OEnumItem it) \/ (h' = h /\ r = Ok tt)).
  { destruct ob; try solve [right; inversion E; auto]. left. eauto. }
  destruct D as [[it ->]|[-> ->]]; [|split; [exists x, its; auto|intros ex Hx; discriminate Hx]].
  unfold get_enum, bindM, lookup in E. rewrite He in E. cbv beta iota in E. unfold ret in E. rewrite Hi in E. unfold store in E. inversion E; subst.
  split; [|intros ex Hx; discriminate Hx].
  eexists _, _. split; [apply nth_replace_same; eapply nth_some_lt; exact He|reflexivity].
Qed.
Lemma rzp_enum_items e items : rzp (fun h => enum_ready h e) (iterM (enum_add_item e) (map IAobj items)).
Proof.
  induction items as [|o items IH]; cbn [map iterM]; [apply rz_rzp, rz_ret|].
  intros h h' ex Hr E. apply bindM_inv in E as [[e' [E1 Er]]|[u [h1 [E1 E2]]]].
  - inversion Er; subst. destruct (enum_add_obj_step _ _ _ _ _ Hr E1) as [_ O]. apply O. reflexivity.
  - destruct (enum_add_obj_step _ _ _ _ _ Hr E1) as [R1 _]. eapply IH; [exact R1|exact E2].
Qed.
Lemma rz_new_enum nm items sc c : rz (new_enum nm (map IAobj items) sc c).
Proof.
  unfold new_enum. intros h h' ex _ E. unfold bindM at 1 in E. unfold alloc in E. cbv beta iota in E.
  apply bindM_inv in E as [[e' [E1 Er]]|[u [h1 [E1 E2]]]]; [|discriminate E2].
  inversion Er; subst. eapply rzp_enum_items; [|exact E1].
  eexists _, _. split; [rewrite nth_error_app2 by lia; rewrite Nat.sub_diag; reflexivity|reflexivity].
Qed.

Lemma rzp_db_add d o : rzp (fun h => addable h o) (db_add d o).
Proof.
  intros h h' e Ha E. unfold db_add in E. unfold bindM at 1 in E. unfold lookup in E.
  destruct (nth_error h o) as [ob|] eqn:Eo; [|inversion E; apply own_stuck]. cbv beta iota in E.
  destruct ob; try (inversion E; subst; unfold own; solve [auto 6]).
  - revert E. apply run_rz. unfold db_add_table. rzz.
  - destruct (Ha _ Eo) as [[c1 H1] [c2 H2]]. unfold db_add_reference in E.
    apply bindM_inv in E as [[e' [E1 Er]]|[x [h1 [E1 E2]]]]; [inversion Er; subst; eapply run_rz; [apply rz_get_database|exact E1]|].
    pose proof (ro_get_database _ _ _ _ E1) as ->.
    unfold bindM at 1 in E2. unfold get_reference, bindM, lookup in E2. rewrite Eo in E2. cbv beta iota in E2. unfold ret, get_heap in E2. cbv beta iota in E2.
    rewrite H1, H2 in E2. revert E2. apply run_rz. rzz.
  - revert E. apply run_rz. unfold db_add_enum. rzz.
  - revert E. apply run_rz. unfold db_add_sticky_note. rzz.
  - revert E. apply run_rz. unfold db_add_project, db_delete_project. rzz.
  - revert E. apply run_rz. unfold db_add_table_group. rzz.
Qed.

(* ---- postconditions that make the result addable ---- *)
Lemma addable_kind k h o : kind_is k h o -> k <> KRef -> addable h o.
Proof. intros (ob & Hn & Hk) Nk r Hr. rewrite Hr in Hn. inversion Hn; subst ob. cbn in Hk. congruence. Qed.
Lemma addable_tbl h t : is_tbl h t -> addable h t.
Proof. intros Ht r Hr. exfalso. apply Ht. unfold h_table. rewrite Hr. reflexivity. Qed.
Lemma post_new_reference_addable ty c1 c2 nm c u dl i : post (new_reference ty (Some c1) (Some c2) nm c u dl i) addable.
Proof.
  intros h h' x H. unfold new_reference, alloc in H. inversion H; subst. intros r Hr.
  rewrite nth_error_app2 in Hr by lia. rewrite Nat.sub_diag in Hr. cbn in Hr. inversion Hr; subst. cbn. eauto.
Qed.
Lemma post_build_reference_addable d bp : post (build_reference d bp) addable.
Proof.
  unfold build_reference.
  repeat first [ apply post_new_reference_addable | apply post_raise | apply post_stuck
               | apply post_bind; intros ?
               | match goal with |- post (match ?x with _ => _ end) _ => destruct x end ].
Qed.

(* ---- Blueprint.build ---- *)
Lemma note_text_own d k e : note_text_of d k = Raise e -> own e.
Proof.
  unfold note_text_of. destruct (dget (K k) d) as [v|]; [|discriminate].
  destruct v; try (intros H; inversion H; apply own_stuck).
  repeat (match goal with |- (match ?x with _ => _ end) = _ -> _ => destruct x end; try (intros H; inversion H; apply own_stuck)).
  all: try discriminate.
  all: match goal with |- context [preformat ?t] => destruct (preformat_total t) as [v Hv]; rewrite Hv end; cbn; discriminate.
Qed.
Lemma rz_note_text d k : rz (lift (note_text_of d k)). Proof. apply rz_lift. apply note_text_own. Qed.

Ltac rzb :=
  repeat first [ rzg | apply rz_note_text | apply rz_new_enumitem | apply rz_new_enum | apply rz_new_expr | apply rz_new_column | apply rz_new_index
               | apply rz_new_project | apply rz_new_table
               | apply rz_ret | apply rz_store | apply rz_alloc | apply rz_get_heap | apply rz_stuck | apply rz_lookup
               | apply rz_raise; unfold own; solve [auto 6]
               | apply rz_bind; [|intros ?]
               | match goal with |- rz (match ?x with _ => _ end) => destruct x end
               | match goal with |- rz (if ?x then _ else _) => destruct x end ].

Lemma rz_build_enum_item bp : rz (build_enum_item bp). Proof. unfold build_enum_item. rzb. Qed.
Lemma rz_build_enum bp : rz (build_enum bp).
Proof.
  unfold build_enum. destruct bp; try apply rz_stuck. repeat (match goal with |- rz (match ?x with _ => _ end) => destruct x end; try apply rz_stuck).
  all: apply rz_bind; [apply rz_mapMM; intros a; apply rz_build_enum_item|intros items; apply rz_new_enum].
Qed.
Lemma rz_build_column d bp : rz (build_column d bp). Proof. unfold build_column. rzb. Qed.
Lemma rz_build_index bp : rz (build_index bp). Proof. unfold build_index. rzb. Qed.
Lemma rz_subject_of t s : rz (subject_of t s). Proof. unfold subject_of. rzb. Qed.
Lemma rz_build_project bp : rz (build_project bp). Proof. unfold build_project. rzb. Qed.
Lemma rz_build_sticky bp : rz (build_sticky bp).
Proof.
  unfold build_sticky. destruct bp; try apply rz_stuck. repeat (match goal with |- rz (match ?x with _ => _ end) => destruct x end; try apply rz_stuck).
  all: apply rz_bind; [apply rz_lift; intros e He; match type of He with preformat ?t = _ => destruct (preformat_total t) as [v Hv]; rewrite Hv in He; discriminate He end|intros t'; unfold new_sticky; apply rz_alloc].
Qed.
Lemma rz_locate_table d s nm : rz (locate_table d s nm). Proof. unfold locate_table. rzb. Qed.
Lemma rz_table_getitem_str t s : rz (table_getitem t (KStr s)). Proof. unfold table_getitem. rzb. Qed.
Lemma rz_build_reference d bp : rz (build_reference d bp).
Proof.
  unfold build_reference. destruct bp; try apply rz_stuck.
  repeat (match goal with |- rz (match ?x with _ => _ end) => destruct x end; try apply rz_stuck; try (apply rz_raise; unfold own; solve [auto 6])).
  all: apply rz_bind; [apply rz_locate_table|intros t1]; apply rz_bind; [apply rz_mapMM; intros c; apply rz_table_getitem_str|intros c1].
  all: apply rz_bind; [apply rz_locate_table|intros t2]; apply rz_bind; [apply rz_mapMM; intros c; apply rz_table_getitem_str|intros c2].
  all: unfold new_reference; apply rz_alloc.
Qed.
Lemma rz_group_items d l : forall acc, rz (group_items d l acc).
Proof.
  induction l as [|x l IH]; intros acc; cbn [group_items]; [apply rz_ret|].
  destruct x; try apply rz_stuck.
  match goal with |- rz (let '(_, _) := ?p in _) => destruct p as [sc tb] end.
  apply rz_bind; [apply rz_locate_table|intros t]. apply rz_bind; [apply rz_get_heap|intros h0].
  match goal with |- rz (if ?b then _ else _) => destruct b end; [apply rz_raise; unfold own; auto 6|apply IH].
Qed.
Lemma rz_build_group d bp : rz (build_group d bp).
Proof.
  unfold build_group. destruct bp; try apply rz_stuck. repeat (match goal with |- rz (match ?x with _ => _ end) => destruct x end; try apply rz_stuck).
  all: apply rz_bind; [apply rz_group_items|intros items]; apply rz_bind; [apply rz_note_text|intros nt].
  all: apply rz_bind; [destruct nt; rzb|intros k]; rzb; unfold new_group; apply rz_alloc.
Qed.

(* ---- the table under construction stays a table ---- *)
Definition Kt (t : oid) (h h' : heap) : Prop := is_tbl h t -> is_tbl h' t.
Lemma Kt_refl t h : Kt t h h. Proof. intros H; exact H. Qed.
Lemma Kt_trans t a b c : Kt t a b -> Kt t b c -> Kt t a c. Proof. unfold Kt. auto. Qed.
Lemma Kt_Rext t h h' : Rext h h' -> Kt t h h'. Proof. intros R H. eapply is_tbl_Rext; eauto. Qed.
Lemma Kt_store_other t h i ob : (forall tb, nth_error h i <> Some (OTable tb)) -> Kt t h (replace_nth i ob h).
Proof.
  intros Hn Ht. unfold is_tbl, h_table in *. destruct (Nat.eq_dec i t) as [->|Ne].
  - exfalso. destruct (nth_error h t) as [[]|] eqn:E; try (apply Ht; reflexivity). eapply Hn; reflexivity.
  - rewrite nth_replace_other by exact Ne. exact Ht.
Qed.
Lemma Kt_store_table t h i tb : i < length h -> Kt t h (replace_nth i (OTable tb) h).
Proof.
  intros L Ht. unfold is_tbl, h_table in *. destruct (Nat.eq_dec i t) as [->|Ne].
  - rewrite nth_replace_same by exact L. discriminate.
  - rewrite nth_replace_other by exact Ne. exact Ht.
Qed.
Lemma kt_upd_column t c f : guar (Kt t) (upd_column c f).
Proof.
  intros h h' r H. unfold upd_column, get_column, bindM, lookup in H. destruct (nth_error h c) as [ob|] eqn:E; [|inversion H; subst; apply Kt_refl].
  destruct ob; inversion H; subst; try apply Kt_refl. apply Kt_store_other. intros tb. rewrite E. discriminate.
Qed.
Lemma kt_upd_index t c f : guar (Kt t) (upd_index c f).
Proof.
  intros h h' r H. unfold upd_index, get_index, bindM, lookup in H. destruct (nth_error h c) as [ob|] eqn:E; [|inversion H; subst; apply Kt_refl].
  destruct ob; inversion H; subst; try apply Kt_refl. apply Kt_store_other. intros tb. rewrite E. discriminate.
Qed.
Lemma kt_upd_table t c f : guar (Kt t) (upd_table c f).
Proof.
  intros h h' r H. unfold upd_table, get_table, bindM, lookup in H. destruct (nth_error h c) as [ob|] eqn:E; [|inversion H; subst; apply Kt_refl].
  destruct ob; inversion H; subst; try apply Kt_refl. apply Kt_store_table. eapply nth_some_lt; exact E.
Qed.
Ltac kt t :=
  repeat first [ apply kt_upd_column | apply kt_upd_index | apply kt_upd_table
               | apply (g_ro _ (Kt_refl t)); solve [ro_any]
               | apply (g_bind _ (Kt_trans t)); [|intros ?]
               | match goal with |- guar _ (match ?x with _ => _ end) => destruct x end
               | match goal with |- guar _ (if ?x then _ else _) => destruct x end ].
Lemma kt_table_add_column t t' c : guar (Kt t) (table_add_column t' c). Proof. unfold table_add_column. kt t. Qed.
Lemma kt_table_add_index t t' i : guar (Kt t) (table_add_index t' i). Proof. unfold table_add_index. kt t. Qed.
Lemma kt_of_Rext {A} t (m : M A) : guar Rext m -> guar (Kt t) m.
Proof. intros G h h' r H. apply Kt_Rext. eapply G; eauto. Qed.
Lemma kt_idx_step t t' ib : guar (Kt t) (idx_step t' ib).
Proof.
  unfold idx_step. apply (g_bind _ (Kt_trans t)); [apply kt_of_Rext, gR_build_index|intros i].
  apply (g_bind _ (Kt_trans t)); [apply kt_of_Rext, (g_mapMM _ Rext_refl Rext_trans), gR_subject_of|intros subs].
  apply (g_bind _ (Kt_trans t)); [apply kt_upd_index|intros _]. apply kt_table_add_index.
Qed.
Lemma kt_build_table_body t d cols idxs : guar (Kt t) (build_table_body d t cols idxs).
Proof.
  unfold build_table_body. apply (g_bind _ (Kt_trans t)).
  - apply (g_iterM _ (Kt_refl t) (Kt_trans t)). intros cb. apply (g_bind _ (Kt_trans t)); [apply kt_of_Rext, gR_build_column|intros c]. apply kt_table_add_column.
  - intros _. apply (g_bind _ (Kt_trans t)); [|intros _; apply (g_ro _ (Kt_refl t)), ro_ret].
    apply (g_iterM _ (Kt_refl t) (Kt_trans t)). intros ib. apply kt_idx_step.
Qed.
Lemma post_build_table_body d t cols idxs h h' x : is_tbl h t -> build_table_body d t cols idxs h = (h', Ok x) -> x = t /\ is_tbl h' t.
Proof.
  intros Ht H. pose proof (kt_build_table_body t d cols idxs _ _ _ H Ht) as Ht'. split; [|exact Ht'].
  unfold build_table_body in H. apply bindM_inv in H as [[e [_ H]]|[u [h1 [_ H]]]]; [discriminate H|].
  apply bindM_inv in H as [[e [_ H]]|[u2 [h2 [_ H]]]]; [discriminate H|]. inversion H. reflexivity.
Qed.
Lemma post_build_table_tbl d bp : post (build_table d bp) is_tbl.
Proof.
  intros h h' x H. destruct bp as [| | | | | | |tag dd]; try (cbn in H; discriminate H).
  assert (T7 : tag = 7%N \/ build_table d (PVBlue tag dd) h = (h, Raise (EStuck 411))).
  { destruct tag as [|p]; [right; reflexivity|]. destruct p as [q|q|]; [| |right; reflexivity]; [|right; destruct q; reflexivity].
    destruct q as [r0|r0|]; [| |right; reflexivity]; [|right; destruct r0; reflexivity]. destruct r0; [right; reflexivity|right; reflexivity|left; reflexivity]. }
  destruct T7 as [->|T7]; [|rewrite T7 in H; discriminate H].
  rewrite build_table_eq in H. apply bindM_inv in H as [[e [_ H]]|[nt [h1 [_ H]]]]; [discriminate H|].
  apply bindM_inv in H as [[e [_ H]]|[t [h2 [H2 H]]]]; [discriminate H|].
  pose proof (new_table_empty_post _ _ _ _ _ _ _ _ _ _ _ H2) as Ht.
  destruct (post_build_table_body _ _ _ _ _ _ _ Ht H) as [-> Ht']. exact Ht'.
Qed.
Lemma post_build_table_addable d bp : post (build_table d bp) addable.
Proof. intros h h' x H. apply addable_tbl. eapply post_build_table_tbl; exact H. Qed.

Lemma rz_col_step d t cb : rz (do! c <- build_column d cb ;; table_add_column t c).
Proof.
  apply (rz_bind_post detached_col); [apply rz_build_column|apply post_build_column|intros c].
  intros h h' e (cc & Hc & _) E. eapply rzp_table_add_column; [exists cc; exact Hc|exact E].
Qed.
Lemma rz_idx_step t ib : rz (idx_step t ib).
Proof.
  intros h h' e _ E. unfold idx_step in E.
  apply bindM_inv in E as [[e' [E1 Er]]|[i [h1 [E1 E2]]]]; [inversion Er; subst; eapply run_rz; [apply rz_build_index|exact E1]|].
  pose proof (post_build_index _ _ _ _ E1) as Hdi.
  apply bindM_inv in E2 as [[e' [E3 Er]]|[subs [h2 [E3 E4]]]]; [inversion Er; subst; exact (run_rz _ _ _ _ (rz_mapMM (subject_of t) _ (rz_subject_of t)) E3)|].
  pose proof (g_mapMM _ Rext_refl Rext_trans (subject_of t) _ (gR_subject_of t) _ _ _ E3) as R2.
  pose proof (detached_idx_Rext _ _ _ R2 Hdi) as (ix & Hix & _).
  apply bindM_inv in E4 as [[e' [E5 Er]]|[u [h3 [E5 E6]]]]; [inversion Er; subst; eapply run_rz; [apply rz_upd_index|exact E5]|].
  unfold upd_index, get_index, bindM, lookup in E5. rewrite Hix in E5. cbv beta iota in E5. unfold ret, store in E5. inversion E5; subst.
  eapply rzp_table_add_index; [|exact E6]. eexists _, subs. split; [apply nth_replace_same; eapply nth_some_lt; exact Hix|reflexivity].
Qed.
Lemma rz_build_table d bp : rz (build_table d bp).
Proof.
  destruct bp as [| | | | | | |tag dd]; try (unfold build_table; apply rz_stuck).
  intros h h' e _ E.
  assert (T7 : tag = 7%N \/ build_table d (PVBlue tag dd) h = (h, Raise (EStuck 411))).
  { destruct tag as [|p]; [right; reflexivity|]. destruct p as [q|q|]; [| |right; reflexivity]; [|right; destruct q; reflexivity].
    destruct q as [r0|r0|]; [| |right; reflexivity]; [|right; destruct r0; reflexivity]. destruct r0; [right; reflexivity|right; reflexivity|left; reflexivity]. }
  destruct T7 as [->|T7]; [|rewrite T7 in E; inversion E; apply own_stuck].
  rewrite build_table_eq in E. revert E. apply run_rz.
  apply rz_bind; [apply rz_note_text|intros nt]. apply rz_bind; [apply rz_new_table|intros t].
  unfold build_table_body. apply rz_bind; [apply rz_iterM; intros cb; apply rz_col_step|intros _].
  apply rz_bind; [apply rz_iterM; intros ib; apply rz_idx_step|intros _]. apply rz_ret.
Qed.

(* ---- build_database ---- *)
Lemma rz_add_built (b : pyv -> M oid) d bp : rz (b bp) -> post (b bp) addable -> rz (do! x <- b bp ;; db_add d x).
Proof. intros R P. apply (rz_bind_post addable); [exact R|exact P|intros x; apply rzp_db_add]. Qed.

Theorem build_database_raises_only_its_own st allow sq dq : rz (build_database st allow sq dq).
Proof.
  unfold build_database. apply rz_bind; [unfold new_database; apply rz_alloc|intros db].
  apply rz_bind; [apply rz_iterM; intros bp; apply (rz_add_built build_enum); [apply rz_build_enum|]|intros _].
  { intros h h' x H. eapply addable_kind; [eapply post_build_enum; exact H|discriminate]. }
  apply rz_bind; [apply rz_iterM; intros bp; apply (rz_add_built (build_table db)); [apply rz_build_table|apply post_build_table_addable]|intros _].
  apply rz_bind; [apply rz_iterM; intros bp; apply (rz_add_built (build_group db)); [apply rz_build_group|]|intros _].
  { intros h h' x H. eapply addable_kind; [eapply post_build_group; exact H|discriminate]. }
  apply rz_bind; [apply rz_iterM; intros bp; apply (rz_add_built build_sticky); [apply rz_build_sticky|]|intros _].
  { intros h h' x H. eapply addable_kind; [eapply post_build_sticky; exact H|discriminate]. }
  apply rz_bind; [|intros _].
  { destruct (ps_project st) as [bp|]; [|apply rz_ret]. apply (rz_add_built build_project); [apply rz_build_project|].
    intros h h' x H. eapply addable_kind; [eapply post_build_project; exact H|discriminate]. }
  apply rz_bind; [apply rz_iterM; intros bp; apply (rz_add_built (build_reference db)); [apply rz_build_reference|apply post_build_reference_addable]|intros _].
  apply rz_ret.
Qed.

(* the four library exceptions, or a model marker *)
Theorem build_phase_raises_only st allow sq dq h h' e :
  build_database st allow sq dq h = (h', Raise e) ->
  e = ETableNotFound \/ e = EColumnNotFound \/ e = EDatabaseValidation \/ e = EValidation \/ exists k, e = EStuck k.
Proof. intros E. exact (build_database_raises_only_its_own st allow sq dq h h' e I E). Qed.

(* the whole of PyDBMLParser.parse: what the parsing phase may raise (Raises.v) or what the build phase may raise *)
Theorem parser_parse_raises_only source allow sq dq h h' e :
  parser_parse source allow sq dq h = (h', Raise e) -> In e parse_phase_excs \/ own e.
Proof.
  intros E. unfold parser_parse in E. apply bindM_inv in E as [[e' [E1 Er]]|[st [h1 [_ E2]]]].
  - inversion Er; subst. left. eapply blueprints_of_raises_only; exact E1.
  - right. eapply build_phase_raises_only; exact E2.
Qed.
