(* TableInv.v — C09 one level down: a table's column and index lists agree with the owner pointers of columns and indexes
   (both directions, no duplicates) — invariant W — under add_column / add_index / delete_column / delete_index by
   position or by object; the database-level and the table-level invariants do not disturb each other (each looks at a
   view of the heap the other level keeps); combined history theorem. *)
From PyDBML Require Import PyStr Py Heap Classes Database MonadFacts RuleFacts ContainerInv ContainerFull.
From Coq Require Import Lia.
Import ListNotations.

(* ====================== part 1 ====================== *)

(* ---- one level down: a table's columns and indexes ---- *)
Inductive ck := CKCol | CKIdx.
Definition ck_eq_dec (a b : ck) : {a = b} + {a <> b}. Proof. decide equality. Defined.
Definition children (k : ck) (tb : table) : list oid := match k with CKCol => t_columns tb | CKIdx => t_indexes tb end.
Definition set_children (k : ck) (l : list oid) (tb : table) : table :=
  match k with CKCol => set_columns l tb | CKIdx => set_indexes l tb end.
Definition cowner (k : ck) (ob : obj) : option (option oid) :=
  match k, ob with
  | CKCol, OColumn c => Some (c_table c)
  | CKIdx, OIndex i => Some (i_table i)
  | _, _ => None
  end.
Definition set_cowner (k : ck) (v : option oid) (ob : obj) : obj :=
  match k, ob with
  | CKCol, OColumn c => OColumn (set_c_table v c)
  | CKIdx, OIndex i => OIndex (set_i_table v i)
  | _, _ => ob
  end.

Lemma children_set_same k l tb : children k (set_children k l tb) = l. Proof. destruct k; reflexivity. Qed.
Lemma children_set_other k k' l tb : k' <> k -> children k' (set_children k l tb) = children k' tb.
Proof. destruct k, k'; try reflexivity; congruence. Qed.
Lemma cowner_set_same k v ob o : cowner k ob = Some o -> cowner k (set_cowner k v ob) = Some v.
Proof. destruct k, ob; try discriminate; reflexivity. Qed.
Lemma cowner_set_other k k' v ob : k' <> k -> cowner k' (set_cowner k v ob) = cowner k' ob.
Proof. destruct k, k', ob; try reflexivity; congruence. Qed.
Lemma cowner_not_table k ob o : cowner k ob = Some o -> is_tab ob = false.
Proof. destruct k, ob; try discriminate; reflexivity. Qed.
Lemma set_cowner_not_table k v ob : is_tab ob = false -> is_tab (set_cowner k v ob) = false.
Proof. destruct k, ob; try discriminate; reflexivity. Qed.

(* lists and owner pointers agree, in both directions; no child listed twice *)
Record W (k : ck) (h : heap) : Prop := {
  w_nodup : forall t tb, h_table h t = Some tb -> NoDup (children k tb);
  w_fwd : forall t tb c, h_table h t = Some tb -> In c (children k tb) ->
            exists ob, nth_error h c = Some ob /\ cowner k ob = Some (Some t);
  w_bwd : forall c ob t, nth_error h c = Some ob -> cowner k ob = Some (Some t) ->
            exists tb, h_table h t = Some tb /\ In c (children k tb) }.

(* the heap after a table operation: child c replaced by ob', table t by tb' *)
Definition tupd (h : heap) (t c : oid) (tb' : table) (ob' : obj) : heap :=
  replace_nth t (OTable tb') (replace_nth c ob' h).

Section TUPD.
  Variables (h : heap) (t c : oid) (tb tb' : table) (ob ob' : obj).
  Hypothesis Ht : h_table h t = Some tb.
  Hypothesis Hc : nth_error h c = Some ob.
  Hypothesis Hnt : is_tab ob = false.
  Hypothesis Hnt' : is_tab ob' = false.

  Lemma tupd_ct : c <> t.
  Proof. intros ->. rewrite (h_table_nth _ _ _ Ht) in Hc. inversion Hc; subst. discriminate Hnt. Qed.
  Lemma tupd_nth_c : nth_error (tupd h t c tb' ob') c = Some ob'.
  Proof. unfold tupd. rewrite nth_replace_other by (pose proof tupd_ct; congruence). eapply nth_replace_same'; eauto. Qed.
  Lemma tupd_nth_t : nth_error (tupd h t c tb' ob') t = Some (OTable tb').
  Proof.
    unfold tupd. apply nth_replace_same. rewrite length_replace_nth. eapply h_table_lt; eauto.
  Qed.
  Lemma tupd_nth_other x : x <> t -> x <> c -> nth_error (tupd h t c tb' ob') x = nth_error h x.
  Proof. intros A B. unfold tupd. rewrite !nth_replace_other by congruence. reflexivity. Qed.
  Lemma tupd_table_t : h_table (tupd h t c tb' ob') t = Some tb'.
  Proof. unfold h_table. rewrite tupd_nth_t. reflexivity. Qed.
  Lemma tupd_table_other x : x <> t -> h_table (tupd h t c tb' ob') x = h_table h x.
  Proof.
    intros A. unfold h_table. destruct (Nat.eq_dec x c) as [->|N].
    - rewrite tupd_nth_c, Hc. destruct ob, ob'; try discriminate; reflexivity.
    - rewrite tupd_nth_other by assumption. reflexivity.
  Qed.
End TUPD.

(* generic add: detached child c becomes the last child of t *)
Theorem add_child_preserves k h t c tb ob :
  (forall k', W k' h) -> h_table h t = Some tb -> nth_error h c = Some ob -> cowner k ob = Some None ->
  let h' := tupd h t c (set_children k (children k tb ++ [c]) tb) (set_cowner k (Some t) ob) in
  forall k', W k' h'.
Proof.
  intros HW Ht Hc Hown h' k'.
  set (tb2 := set_children k (children k tb ++ [c]) tb) in *. set (ob2 := set_cowner k (Some t) ob) in *.
  assert (Hnt : is_tab ob = false) by (eapply cowner_not_table; eauto).
  assert (Hnt' : is_tab ob2 = false) by (apply set_cowner_not_table; exact Hnt).
  assert (Hct : c <> t) by (eapply tupd_ct; eauto).
  assert (Et : h_table h' t = Some tb2) by (eapply tupd_table_t; eauto).
  assert (Eo : forall x, x <> t -> h_table h' x = h_table h x) by (intros; eapply tupd_table_other; eauto).
  assert (Nc : nth_error h' c = Some ob2) by (eapply tupd_nth_c; eauto).
  assert (Nt : nth_error h' t = Some (OTable tb2)) by (eapply tupd_nth_t; eauto).
  assert (No : forall x, x <> t -> x <> c -> nth_error h' x = nth_error h x) by (intros; apply tupd_nth_other; auto).
  clearbody h'.
  pose proof (HW k') as [ND FW BW].
  assert (Hfresh : forall x xb, h_table h x = Some xb -> ~ In c (children k xb)).
  { intros x xb Hx Hin. destruct (w_fwd _ _ (HW k) x xb c Hx Hin) as (ob0 & A & B). rewrite Hc in A. inversion A; subst. congruence. }
  assert (Htab : forall x xb, h_table h' x = Some xb -> (x = t /\ xb = tb2) \/ (x <> t /\ h_table h x = Some xb)).
  { intros x xb Hx. destruct (Nat.eq_dec x t) as [->|N].
    - left. split; [reflexivity|]. rewrite Et in Hx. inversion Hx; reflexivity.
    - right. split; [exact N|]. rewrite Eo in Hx by exact N. exact Hx. }
  assert (Hnott : forall kk y yb o, nth_error h y = Some yb -> cowner kk yb = Some o -> y <> t).
  { intros kk y yb o A B ->. rewrite (h_table_nth _ _ _ Ht) in A. inversion A; subst. destruct kk; discriminate B. }
  destruct (ck_eq_dec k' k) as [->|Nk].
  - split.
    + intros x xb Hx. destruct (Htab x xb Hx) as [[-> ->]|[N Hx0]].
      * unfold tb2. rewrite children_set_same. apply NoDup_snoc; [apply (ND t tb Ht)|apply (Hfresh t tb Ht)].
      * apply (ND x xb Hx0).
    + intros x xb y Hx Hin. destruct (Htab x xb Hx) as [[-> ->]|[N Hx0]].
      * unfold tb2 in Hin. rewrite children_set_same in Hin. apply in_app_or in Hin as [Hin|[<-|[]]].
        -- destruct (FW t tb y Ht Hin) as (yb & A & B). exists yb. split; [|exact B].
           rewrite No; [exact A|eapply Hnott; eauto|]. intros ->. exact (Hfresh t tb Ht Hin).
        -- exists ob2. split; [exact Nc|eapply cowner_set_same; eauto].
      * destruct (FW x xb y Hx0 Hin) as (yb & A & B). exists yb. split; [|exact B].
        rewrite No; [exact A|eapply Hnott; eauto|]. intros ->. exact (Hfresh x xb Hx0 Hin).
    + intros y yb x Hy Hown'. destruct (Nat.eq_dec y c) as [->|Nyc].
      * rewrite Nc in Hy. inversion Hy; subst yb. unfold ob2 in Hown'.
        rewrite (cowner_set_same _ _ _ _ Hown) in Hown'. inversion Hown'; subst x.
        exists tb2. split; [exact Et|]. unfold tb2. rewrite children_set_same. apply in_or_app. right. left. reflexivity.
      * destruct (Nat.eq_dec y t) as [->|Nyt].
        { rewrite Nt in Hy. inversion Hy; subst yb. destruct k; discriminate Hown'. }
        rewrite No in Hy by assumption.
        destruct (BW y yb x Hy Hown') as (xb & A & B).
        destruct (Nat.eq_dec x t) as [->|Nxt].
        -- rewrite Ht in A. inversion A; subst xb. exists tb2.
           split; [exact Et|]. unfold tb2. rewrite children_set_same. apply in_or_app. left. exact B.
        -- exists xb. split; [|exact B]. rewrite Eo by exact Nxt. exact A.
  - split.
    + intros x xb Hx. destruct (Htab x xb Hx) as [[-> ->]|[N Hx0]].
      * unfold tb2. rewrite children_set_other by exact Nk. apply (ND t tb Ht).
      * apply (ND x xb Hx0).
    + intros x xb y Hx Hin.
      assert (Hin0 : exists xb0, h_table h x = Some xb0 /\ In y (children k' xb0)).
      { destruct (Htab x xb Hx) as [[-> ->]|[N Hx0]].
        - unfold tb2 in Hin. rewrite children_set_other in Hin by exact Nk. eauto.
        - eauto. }
      destruct Hin0 as (xb0 & Hx0 & Hin0). destruct (FW x xb0 y Hx0 Hin0) as (yb & A & B).
      destruct (Nat.eq_dec y c) as [->|Nyc].
      * rewrite Hc in A. inversion A; subst yb. exists ob2.
        split; [exact Nc|]. unfold ob2. rewrite cowner_set_other by exact Nk. exact B.
      * exists yb. split; [|exact B]. rewrite No; [exact A|eapply Hnott; eauto|exact Nyc].
    + intros y yb x Hy Hown'.
      assert (Hy0 : exists yb0, nth_error h y = Some yb0 /\ cowner k' yb0 = Some (Some x)).
      { destruct (Nat.eq_dec y c) as [->|Nyc].
        - rewrite Nc in Hy. inversion Hy; subst yb. unfold ob2 in Hown'.
          rewrite cowner_set_other in Hown' by exact Nk. eauto.
        - destruct (Nat.eq_dec y t) as [->|Nyt].
          { rewrite Nt in Hy. inversion Hy; subst yb. destruct k'; discriminate Hown'. }
          rewrite No in Hy by assumption. eauto. }
      destruct Hy0 as (yb0 & Hy0 & Hown0). destruct (BW y yb0 x Hy0 Hown0) as (xb & A & B).
      destruct (Nat.eq_dec x t) as [->|Nxt].
      * rewrite Ht in A. inversion A; subst xb. exists tb2.
        split; [exact Et|]. unfold tb2. rewrite children_set_other by exact Nk. exact B.
      * exists xb. split; [|exact B]. rewrite Eo by exact Nxt. exact A.
Qed.

(* ====================== part 2 ====================== *)

(* generic delete: the n-th child p of t is removed and detached *)
Theorem del_child_preserves k h t tb n p pob :
  (forall k', W k' h) -> h_table h t = Some tb -> nth_error (children k tb) n = Some p -> nth_error h p = Some pob ->
  let h' := tupd h t p (set_children k (remove_nth n (children k tb)) tb) (set_cowner k None pob) in
  (forall k', W k' h') /\ (exists ob, nth_error h' p = Some ob /\ cowner k ob = Some None) /\
  (forall x xb, h_table h' x = Some xb -> ~ In p (children k xb)).
Proof.
  intros HW Ht Hn Hp h'.
  set (tb2 := set_children k (remove_nth n (children k tb)) tb) in *. set (ob2 := set_cowner k None pob) in *.
  assert (Hpin : In p (children k tb)) by (eapply nth_error_In; eauto).
  destruct (w_fwd _ _ (HW k) t tb p Ht Hpin) as (pob0 & A0 & Hown). rewrite Hp in A0. inversion A0; subst pob0. clear A0.
  assert (Hnt : is_tab pob = false) by (eapply cowner_not_table; eauto).
  assert (Hnt' : is_tab ob2 = false) by (apply set_cowner_not_table; exact Hnt).
  assert (Hct : p <> t) by (eapply tupd_ct; eauto).
  assert (Et : h_table h' t = Some tb2) by (eapply tupd_table_t; eauto).
  assert (Eo : forall x, x <> t -> h_table h' x = h_table h x) by (intros; eapply tupd_table_other; eauto).
  assert (Nc : nth_error h' p = Some ob2) by (eapply tupd_nth_c; eauto).
  assert (Nt : nth_error h' t = Some (OTable tb2)) by (eapply tupd_nth_t; eauto).
  assert (No : forall x, x <> t -> x <> p -> nth_error h' x = nth_error h x) by (intros; apply tupd_nth_other; auto).
  clearbody h'.
  assert (Htab : forall x xb, h_table h' x = Some xb -> (x = t /\ xb = tb2) \/ (x <> t /\ h_table h x = Some xb)).
  { intros x xb Hx. destruct (Nat.eq_dec x t) as [->|N].
    - left. split; [reflexivity|]. rewrite Et in Hx. inversion Hx; reflexivity.
    - right. split; [exact N|]. rewrite Eo in Hx by exact N. exact Hx. }
  assert (Hnott : forall kk y yb o, nth_error h y = Some yb -> cowner kk yb = Some o -> y <> t).
  { intros kk y yb o A B ->. rewrite (h_table_nth _ _ _ Ht) in A. inversion A; subst. destruct kk; discriminate B. }
  pose proof (w_nodup _ _ (HW k) t tb Ht) as NDt.
  (* p is listed by t only *)
  assert (Honly : forall x xb, h_table h x = Some xb -> In p (children k xb) -> x = t).
  { intros x xb Hx Hin. destruct (w_fwd _ _ (HW k) x xb p Hx Hin) as (ob0 & A & B). rewrite Hp in A. inversion A; subst. congruence. }
  assert (Hgone : forall x xb, h_table h' x = Some xb -> ~ In p (children k xb)).
  { intros x xb Hx Hin. destruct (Htab x xb Hx) as [[-> ->]|[N Hx0]].
    - unfold tb2 in Hin. rewrite children_set_same in Hin. apply (In_remove_nth _ _ _ _ NDt Hn) in Hin. tauto.
    - apply N. eapply Honly; eauto. }
  split; [|split; [exists ob2; split; [exact Nc|eapply cowner_set_same; eauto]|exact Hgone]].
  intros k'. pose proof (HW k') as [ND FW BW].
  destruct (ck_eq_dec k' k) as [->|Nk].
  - split.
    + intros x xb Hx. destruct (Htab x xb Hx) as [[-> ->]|[N Hx0]].
      * unfold tb2. rewrite children_set_same. apply NoDup_remove_nth. exact NDt.
      * apply (ND x xb Hx0).
    + intros x xb y Hx Hin.
      assert (Nyp : y <> p) by (intros ->; exact (Hgone x xb Hx Hin)).
      assert (Hin0 : exists xb0, h_table h x = Some xb0 /\ In y (children k xb0)).
      { destruct (Htab x xb Hx) as [[-> ->]|[N Hx0]].
        - unfold tb2 in Hin. rewrite children_set_same in Hin. apply (In_remove_nth _ _ _ _ NDt Hn) in Hin. exists tb. tauto.
        - eauto. }
      destruct Hin0 as (xb0 & Hx0 & Hin0). destruct (FW x xb0 y Hx0 Hin0) as (yb & A & B).
      exists yb. split; [|exact B]. rewrite No; [exact A|eapply Hnott; eauto|exact Nyp].
    + intros y yb x Hy Hown'. destruct (Nat.eq_dec y p) as [->|Nyp].
      * rewrite Nc in Hy. inversion Hy; subst yb. unfold ob2 in Hown'.
        rewrite (cowner_set_same _ _ _ _ Hown) in Hown'. discriminate Hown'.
      * destruct (Nat.eq_dec y t) as [->|Nyt].
        { rewrite Nt in Hy. inversion Hy; subst yb. destruct k; discriminate Hown'. }
        rewrite No in Hy by assumption.
        destruct (BW y yb x Hy Hown') as (xb & A & B).
        destruct (Nat.eq_dec x t) as [->|Nxt].
        -- rewrite Ht in A. inversion A; subst xb. exists tb2. split; [exact Et|].
           unfold tb2. rewrite children_set_same. apply (In_remove_nth _ _ _ _ NDt Hn). tauto.
        -- exists xb. split; [|exact B]. rewrite Eo by exact Nxt. exact A.
  - split.
    + intros x xb Hx. destruct (Htab x xb Hx) as [[-> ->]|[N Hx0]].
      * unfold tb2. rewrite children_set_other by exact Nk. apply (ND t tb Ht).
      * apply (ND x xb Hx0).
    + intros x xb y Hx Hin.
      assert (Hin0 : exists xb0, h_table h x = Some xb0 /\ In y (children k' xb0)).
      { destruct (Htab x xb Hx) as [[-> ->]|[N Hx0]].
        - unfold tb2 in Hin. rewrite children_set_other in Hin by exact Nk. eauto.
        - eauto. }
      destruct Hin0 as (xb0 & Hx0 & Hin0). destruct (FW x xb0 y Hx0 Hin0) as (yb & A & B).
      destruct (Nat.eq_dec y p) as [->|Nyc].
      * rewrite Hp in A. inversion A; subst yb. exists ob2.
        split; [exact Nc|]. unfold ob2. rewrite cowner_set_other by exact Nk. exact B.
      * exists yb. split; [|exact B]. rewrite No; [exact A|eapply Hnott; eauto|exact Nyc].
    + intros y yb x Hy Hown'.
      assert (Hy0 : exists yb0, nth_error h y = Some yb0 /\ cowner k' yb0 = Some (Some x)).
      { destruct (Nat.eq_dec y p) as [->|Nyc].
        - rewrite Nc in Hy. inversion Hy; subst yb. unfold ob2 in Hown'.
          rewrite cowner_set_other in Hown' by exact Nk. eauto.
        - destruct (Nat.eq_dec y t) as [->|Nyt].
          { rewrite Nt in Hy. inversion Hy; subst yb. destruct k'; discriminate Hown'. }
          rewrite No in Hy by assumption. eauto. }
      destruct Hy0 as (yb0 & Hy0 & Hown0). destruct (BW y yb0 x Hy0 Hown0) as (xb & A & B).
      destruct (Nat.eq_dec x t) as [->|Nxt].
      * rewrite Ht in A. inversion A; subst xb. exists tb2.
        split; [exact Et|]. unfold tb2. rewrite children_set_other by exact Nk. exact B.
      * exists xb. split; [|exact B]. rewrite Eo by exact Nxt. exact A.
Qed.

(* ====================== part 3 ====================== *)

Definition WW (h : heap) : Prop := forall k, W k h.

Lemma h_column_nth h c cc : h_column h c = Some cc <-> nth_error h c = Some (OColumn cc).
Proof. unfold h_column. destruct (nth_error h c) as [[]|]; split; intros H; try discriminate; inversion H; reflexivity. Qed.
Lemma h_index_nth h c cc : h_index h c = Some cc <-> nth_error h c = Some (OIndex cc).
Proof. unfold h_index. destruct (nth_error h c) as [[]|]; split; intros H; try discriminate; inversion H; reflexivity. Qed.
Lemma get_column_ok h c cc : nth_error h c = Some (OColumn cc) -> get_column c h = (h, Ok cc).
Proof. intros H. unfold get_column, bindM. rewrite (lookup_ok _ _ _ H). reflexivity. Qed.
Lemma get_index_ok h c cc : nth_error h c = Some (OIndex cc) -> get_index c h = (h, Ok cc).
Proof. intros H. unfold get_index, bindM. rewrite (lookup_ok _ _ _ H). reflexivity. Qed.
Lemma upd_column_ok h c cc f : nth_error h c = Some (OColumn cc) -> upd_column c f h = (replace_nth c (OColumn (f cc)) h, Ok tt).
Proof. intros H. unfold upd_column, bindM. rewrite (get_column_ok _ _ _ H). reflexivity. Qed.
Lemma upd_index_ok h c cc f : nth_error h c = Some (OIndex cc) -> upd_index c f h = (replace_nth c (OIndex (f cc)) h, Ok tt).
Proof. intros H. unfold upd_index, bindM. rewrite (get_index_ok _ _ _ H). reflexivity. Qed.
Lemma upd_table_ok h t tb f : h_table h t = Some tb -> upd_table t f h = (replace_nth t (OTable (f tb)) h, Ok tt).
Proof. intros H. unfold upd_table, bindM. rewrite (get_table_ok _ _ _ H). reflexivity. Qed.

Lemma h_table_after_child h t tb c ob ob' : h_table h t = Some tb -> nth_error h c = Some ob -> is_tab ob = false -> is_tab ob' = false ->
  h_table (replace_nth c ob' h) t = Some tb.
Proof. intros A B C D. rewrite (h_table_replace_nontable _ _ _ _ _ B C D). exact A. Qed.

(* ---- add_column ---- *)
Theorem add_column_step h t tb c cc : WW h -> h_table h t = Some tb -> nth_error h c = Some (OColumn cc) -> c_table cc = None ->
  let h' := tupd h t c (set_columns (t_columns tb ++ [c]) tb) (OColumn (set_c_table (Some t) cc)) in
  table_add_column t c h = (h', Ok tt) /\ WW h'.
Proof.
  intros HW Ht Hc Hd h'. split.
  - unfold table_add_column, bindM. rewrite (lookup_ok _ _ _ Hc). cbv beta iota.
    rewrite (upd_column_ok _ _ _ _ Hc). cbv beta iota.
    rewrite (upd_table_ok _ _ tb) by (eapply h_table_after_child; eauto). reflexivity.
  - assert (Hown : cowner CKCol (OColumn cc) = Some None) by (cbn; rewrite Hd; reflexivity).
    exact (add_child_preserves CKCol h t c tb (OColumn cc) HW Ht Hc Hown).
Qed.

(* ---- add_index ---- *)
Definition subjects_own (h : heap) (t : oid) (subs : list subject) : bool :=
  forallb (fun s => match s with
                    | SubCol c => match h_column h c with
                                  | Some cc => ooid_eqb (c_table cc) (Some t)
                                  | None => false
                                  end
                    | _ => true
                    end) subs.

Lemma add_index_eq h t i ix : nth_error h i = Some (OIndex ix) ->
  table_add_index t i h =
  match i_subjects ix with
  | None => (h, Raise ETypeError)
  | Some subs => if subjects_own h t subs
                 then (do!! upd_index i (set_i_table (Some t)) ;; upd_table t (fun x => set_indexes (t_indexes x ++ [i]) x)) h
                 else (h, Raise EColumnNotFound)
  end.
Proof.
  intros Hc. unfold table_add_index. unfold bindM at 1. rewrite (lookup_ok _ _ _ Hc). cbv beta iota.
  destruct (i_subjects ix) as [subs|]; [|reflexivity].
  unfold bindM at 1. unfold get_heap. cbv beta iota. fold (subjects_own h t subs).
  destruct (subjects_own h t subs); reflexivity.
Qed.

Theorem add_index_step h t tb i ix : WW h -> h_table h t = Some tb -> nth_error h i = Some (OIndex ix) -> i_table ix = None ->
  rejected h (table_add_index t i h) \/
  (exists subs, i_subjects ix = Some subs /\ subjects_own h t subs = true) /\
  let h' := tupd h t i (set_indexes (t_indexes tb ++ [i]) tb) (OIndex (set_i_table (Some t) ix)) in
  table_add_index t i h = (h', Ok tt) /\ WW h'.
Proof.
  intros HW Ht Hc Hd. rewrite (add_index_eq _ _ _ _ Hc).
  destruct (i_subjects ix) as [subs|] eqn:Es; [|left; eexists; reflexivity].
  destruct (subjects_own h t subs) eqn:Eown; [|left; eexists; reflexivity].
  right. split; [exists subs; auto|]. split.
  - unfold bindM. rewrite (upd_index_ok _ _ _ _ Hc). cbv beta iota.
    rewrite (upd_table_ok _ _ tb) by (eapply h_table_after_child; eauto). reflexivity.
  - assert (Hown : cowner CKIdx (OIndex ix) = Some None) by (cbn; rewrite Hd; reflexivity).
    exact (add_child_preserves CKIdx h t i tb (OIndex ix) HW Ht Hc Hown).
Qed.

(* an index over a foreign column is refused, leaving everything as it was *)
Theorem add_index_foreign_refused h t i ix subs c cc :
  nth_error h i = Some (OIndex ix) -> i_subjects ix = Some subs -> In (SubCol c) subs ->
  h_column h c = Some cc -> c_table cc <> Some t ->
  table_add_index t i h = (h, Raise EColumnNotFound).
Proof.
  intros Hi Es Hin Hc Hne. rewrite (add_index_eq _ _ _ _ Hi), Es.
  assert (E : subjects_own h t subs = false).
  { destruct (subjects_own h t subs) eqn:E; [|reflexivity]. exfalso. unfold subjects_own in E.
    rewrite forallb_forall in E. specialize (E _ Hin). cbv beta iota in E. rewrite Hc in E.
    destruct (c_table cc) as [x|]; cbn in E; [|discriminate]. apply Nat.eqb_eq in E. congruence. }
  rewrite E. reflexivity.
Qed.

(* ---- delete by position ---- *)
Lemma del_col_int_eq h t tb z : h_table h t = Some tb ->
  table_delete_column t (DAint z) h =
  match py_index (length (t_columns tb)) z with
  | Some n => match nth_error (t_columns tb) n with
              | Some c => (do!! upd_column c (set_c_table None) ;;
                           do!! upd_table t (set_columns (remove_nth n (t_columns tb))) ;; ret (Some c)) h
              | None => (h, Raise EIndexError)
              end
  | None => (h, Raise EIndexError)
  end.
Proof.
  intros Ht. unfold table_delete_column. unfold bindM at 1. rewrite (get_table_ok _ _ _ Ht). cbv beta iota.
  destruct (py_index (length (t_columns tb)) z); [|reflexivity]. destruct (nth_error (t_columns tb) n); reflexivity.
Qed.
Lemma del_idx_int_eq h t tb z : h_table h t = Some tb ->
  table_delete_index t (DAint z) h =
  match py_index (length (t_indexes tb)) z with
  | Some n => match nth_error (t_indexes tb) n with
              | Some c => (do!! upd_index c (set_i_table None) ;;
                           do!! upd_table t (set_indexes (remove_nth n (t_indexes tb))) ;; ret (Some c)) h
              | None => (h, Raise EIndexError)
              end
  | None => (h, Raise EIndexError)
  end.
Proof.
  intros Ht. unfold table_delete_index. unfold bindM at 1. rewrite (get_table_ok _ _ _ Ht). cbv beta iota.
  destruct (py_index (length (t_indexes tb)) z); [|reflexivity]. destruct (nth_error (t_indexes tb) n); reflexivity.
Qed.

Theorem delete_column_int_step h t tb z : WW h -> h_table h t = Some tb ->
  rejected h (table_delete_column t (DAint z) h) \/
  exists n c cc, py_index (length (t_columns tb)) z = Some n /\ nth_error (t_columns tb) n = Some c /\ nth_error h c = Some (OColumn cc) /\
    let h' := tupd h t c (set_columns (remove_nth n (t_columns tb)) tb) (OColumn (set_c_table None cc)) in
    table_delete_column t (DAint z) h = (h', Ok (Some c)) /\ WW h' /\
    (forall x xb, h_table h' x = Some xb -> ~ In c (t_columns xb)).
Proof.
  intros HW Ht. rewrite (del_col_int_eq _ _ _ _ Ht).
  destruct (py_index (length (t_columns tb)) z) as [n|] eqn:En; [|left; eexists; reflexivity].
  destruct (nth_error (t_columns tb) n) as [c|] eqn:Ec; [|left; eexists; reflexivity].
  right. assert (Hin : In c (children CKCol tb)) by (eapply nth_error_In; eauto).
  destruct (w_fwd _ _ (HW CKCol) t tb c Ht Hin) as (ob & A & B).
  destruct ob; try discriminate B. exists n, c, c0. split; [reflexivity|]. split; [exact Ec|]. split; [exact A|].
  destruct (del_child_preserves CKCol h t tb n c (OColumn c0) HW Ht Ec A) as (HW' & _ & Hgone).
  split; [|split; [exact HW'|exact Hgone]].
  unfold bindM. rewrite (upd_column_ok _ _ _ _ A). cbv beta iota.
  rewrite (upd_table_ok _ _ tb) by (eapply h_table_after_child; eauto). reflexivity.
Qed.

Theorem delete_index_int_step h t tb z : WW h -> h_table h t = Some tb ->
  rejected h (table_delete_index t (DAint z) h) \/
  exists n c cc, py_index (length (t_indexes tb)) z = Some n /\ nth_error (t_indexes tb) n = Some c /\ nth_error h c = Some (OIndex cc) /\
    let h' := tupd h t c (set_indexes (remove_nth n (t_indexes tb)) tb) (OIndex (set_i_table None cc)) in
    table_delete_index t (DAint z) h = (h', Ok (Some c)) /\ WW h' /\
    (forall x xb, h_table h' x = Some xb -> ~ In c (t_indexes xb)).
Proof.
  intros HW Ht. rewrite (del_idx_int_eq _ _ _ _ Ht).
  destruct (py_index (length (t_indexes tb)) z) as [n|] eqn:En; [|left; eexists; reflexivity].
  destruct (nth_error (t_indexes tb) n) as [c|] eqn:Ec; [|left; eexists; reflexivity].
  right. assert (Hin : In c (children CKIdx tb)) by (eapply nth_error_In; eauto).
  destruct (w_fwd _ _ (HW CKIdx) t tb c Ht Hin) as (ob & A & B).
  destruct ob; try discriminate B. exists n, c, i. split; [reflexivity|]. split; [exact Ec|]. split; [exact A|].
  destruct (del_child_preserves CKIdx h t tb n c (OIndex i) HW Ht Ec A) as (HW' & _ & Hgone).
  split; [|split; [exact HW'|exact Hgone]].
  unfold bindM. rewrite (upd_index_ok _ _ _ _ A). cbv beta iota.
  rewrite (upd_table_ok _ _ tb) by (eapply h_table_after_child; eauto). reflexivity.
Qed.

(* ---- delete by object: outside defect D23 (the first member equal to the argument is the argument itself) ---- *)
Theorem delete_column_obj_step h t tb c cc : WW h -> h_table h t = Some tb -> nth_error h c = Some (OColumn cc) ->
  let h1 := replace_nth c (OColumn (set_c_table None cc)) h in
  (list_has (column_eqb h) c (t_columns tb) = false -> table_delete_column t (DAobj c) h = (h, Raise EColumnNotFound)) /\
  (forall n, list_has (column_eqb h) c (t_columns tb) = true ->
     list_index (column_eqb h1) c (t_columns tb) = Some n -> nth_error (t_columns tb) n = Some c ->
     let h' := tupd h t c (set_columns (remove_nth n (t_columns tb)) tb) (OColumn (set_c_table None cc)) in
     table_delete_column t (DAobj c) h = (h', Ok (Some c)) /\ WW h' /\
     (forall x xb, h_table h' x = Some xb -> ~ In c (t_columns xb))).
Proof.
  intros HW Ht Hc h1. split.
  - intros E. unfold table_delete_column, bindM. rewrite (lookup_ok _ _ _ Hc). cbv beta iota.
    rewrite (get_table_ok _ _ _ Ht). cbv beta iota. unfold get_heap. cbv beta iota. rewrite E. reflexivity.
  - intros n E Ei En.
    destruct (del_child_preserves CKCol h t tb n c (OColumn cc) HW Ht En Hc) as (HW' & _ & Hgone).
    split; [|split; [exact HW'|exact Hgone]].
    unfold table_delete_column, bindM. rewrite (lookup_ok _ _ _ Hc). cbv beta iota.
    rewrite (get_table_ok _ _ _ Ht). cbv beta iota. unfold get_heap. cbv beta iota. rewrite E.
    rewrite (upd_column_ok _ _ _ _ Hc). cbv beta iota. fold h1. rewrite Ei.
    rewrite (upd_table_ok _ _ tb) by (eapply h_table_after_child; eauto). unfold ret. rewrite En. reflexivity.
Qed.

Theorem delete_index_obj_step h t tb c cc : WW h -> h_table h t = Some tb -> nth_error h c = Some (OIndex cc) ->
  let h1 := replace_nth c (OIndex (set_i_table None cc)) h in
  (list_has (index_eqb h) c (t_indexes tb) = false -> table_delete_index t (DAobj c) h = (h, Raise EIndexNotFound)) /\
  (forall n, list_has (index_eqb h) c (t_indexes tb) = true ->
     list_index (index_eqb h1) c (t_indexes tb) = Some n -> nth_error (t_indexes tb) n = Some c ->
     let h' := tupd h t c (set_indexes (remove_nth n (t_indexes tb)) tb) (OIndex (set_i_table None cc)) in
     table_delete_index t (DAobj c) h = (h', Ok (Some c)) /\ WW h' /\
     (forall x xb, h_table h' x = Some xb -> ~ In c (t_indexes xb))).
Proof.
  intros HW Ht Hc h1. split.
  - intros E. unfold table_delete_index, bindM. rewrite (lookup_ok _ _ _ Hc). cbv beta iota.
    rewrite (get_table_ok _ _ _ Ht). cbv beta iota. unfold get_heap. cbv beta iota. rewrite E. reflexivity.
  - intros n E Ei En.
    destruct (del_child_preserves CKIdx h t tb n c (OIndex cc) HW Ht En Hc) as (HW' & _ & Hgone).
    split; [|split; [exact HW'|exact Hgone]].
    unfold table_delete_index, bindM. rewrite (lookup_ok _ _ _ Hc). cbv beta iota.
    rewrite (get_table_ok _ _ _ Ht). cbv beta iota. unfold get_heap. cbv beta iota. rewrite E.
    rewrite (upd_index_ok _ _ _ _ Hc). cbv beta iota. fold h1. rewrite Ei.
    rewrite (upd_table_ok _ _ tb) by (eapply h_table_after_child; eauto). unfold ret. rewrite En. reflexivity.
Qed.

(* ====================== part 4 ====================== *)

(* ---- the two levels do not disturb each other: each invariant only looks at a view of the heap ---- *)
Inductive cview :=
| VT (cols idxs : list oid) | VC (o : option oid) (ty : coltype) (nm : option pystr) | VI (o : option oid) (subs : option (list subject))
| VR (c1 c2 : option (list oid)) | VG (items : list oid) | VO.
(* besides the children lists and owner pointers the table-level invariant reads, the view carries what never
   changes after construction and what the linking statements of C05 are about: a column's type, the endpoint
   lists of a reference, the items of a table group, the subjects of an index once it is attached to a table
   (they are still being filled in while it is detached) *)
Definition cview_of (ob : obj) : cview :=
  match ob with
  | OTable tb => VT (t_columns tb) (t_indexes tb) | OColumn c => VC (c_table c) (c_type c) (c_name c)
  | OIndex i => VI (i_table i) (match i_table i with Some _ => i_subjects i | None => None end)
  | OReference r => VR (r_col1 r) (r_col2 r) | OGroup g => VG (g_items g)
  | _ => VO
  end.

Lemma cview_table ob cols idxs : cview_of ob = VT cols idxs -> exists tb, ob = OTable tb /\ t_columns tb = cols /\ t_indexes tb = idxs.
Proof. destruct ob; try discriminate. cbn. intros H; inversion H. eauto. Qed.
Lemma cview_cowner k ob ob' : cview_of ob = cview_of ob' -> cowner k ob = cowner k ob'.
Proof. destruct k, ob, ob'; cbn; intros H; try discriminate H; try reflexivity; inversion H; reflexivity. Qed.
Lemma cview_children k tb tb' : cview_of (OTable tb) = cview_of (OTable tb') -> children k tb = children k tb'.
Proof. cbn. intros H; inversion H. destruct k; assumption. Qed.

Definition same_cview (h h' : heap) : Prop := forall x, option_map cview_of (nth_error h' x) = option_map cview_of (nth_error h x).

Lemma same_cview_sym h h' : same_cview h h' -> same_cview h' h.
Proof. intros H x. symmetry. apply H. Qed.

Lemma same_cview_table h h' t tb : same_cview h h' -> h_table h' t = Some tb ->
  exists tb0, h_table h t = Some tb0 /\ forall k, children k tb0 = children k tb.
Proof.
  intros S Ht. apply h_table_nth in Ht. specialize (S t). rewrite Ht in S. cbn in S.
  destruct (nth_error h t) as [ob|] eqn:E; [|discriminate S]. cbn in S. inversion S as [S'].
  symmetry in S'. destruct (cview_table _ _ _ S') as (tb0 & -> & A & B). exists tb0.
  split; [unfold h_table; rewrite E; reflexivity|]. intros k; destruct k; assumption.
Qed.

Lemma same_cview_child h h' k c ob o : same_cview h h' -> nth_error h' c = Some ob -> cowner k ob = Some o ->
  exists ob0, nth_error h c = Some ob0 /\ cowner k ob0 = Some o.
Proof.
  intros S Hc Ho. specialize (S c). rewrite Hc in S. cbn in S.
  destruct (nth_error h c) as [ob0|] eqn:E; [|discriminate S]. cbn in S. inversion S as [S'].
  exists ob0. split; [reflexivity|]. rewrite <- (cview_cowner k _ _ S'). exact Ho.
Qed.

Theorem W_view k h h' : same_cview h h' -> W k h -> W k h'.
Proof.
  intros S [ND FW BW]. pose proof (same_cview_sym _ _ S) as S'. split.
  - intros t tb Ht. destruct (same_cview_table _ _ _ _ S Ht) as (tb0 & Ht0 & Ec). rewrite <- Ec. eapply ND; eauto.
  - intros t tb c Ht Hin. destruct (same_cview_table _ _ _ _ S Ht) as (tb0 & Ht0 & Ec). rewrite <- Ec in Hin.
    destruct (FW t tb0 c Ht0 Hin) as (ob & A & B). destruct (same_cview_child _ _ k c ob _ S' A B) as (ob' & A' & B'). eauto.
  - intros c ob t Hc Ho. destruct (same_cview_child _ _ k c ob _ S Hc Ho) as (ob0 & A & B).
    destruct (BW c ob0 t A B) as (tb0 & Ht0 & Hin).
    destruct (same_cview_table _ _ _ _ S' Ht0) as (tb & Ht & Ec). exists tb. split; [exact Ht|]. rewrite Ec. exact Hin.
Qed.

(* a database-level step keeps every table's children and every child's owner *)
Lemma set_owner_cview v ob : cview_of (set_owner v ob) = cview_of ob.
Proof. destruct ob; reflexivity. Qed.

Lemma upd2_same_cview h d o db db' ob v : h_database h d = Some db -> nth_error h o = Some ob -> o <> d ->
  same_cview h (upd2 h d o db' (set_owner v ob)).
Proof.
  intros Hd Ho N x. destruct (Nat.eq_dec x d) as [->|Nd].
  - unfold upd2. rewrite nth_replace_same by (rewrite length_replace_nth; eapply h_database_lt; eauto).
    rewrite (h_database_nth _ _ _ Hd). reflexivity.
  - destruct (Nat.eq_dec x o) as [->|No].
    + rewrite (upd2_nth_o _ _ _ _ _ _ Ho N), Ho. cbn. rewrite set_owner_cview. reflexivity.
    + rewrite upd2_nth_other by assumption. reflexivity.
Qed.

(* the view the database-level invariant looks at: owner and names of tables, class and owner of the other
   top-level objects, the database values; nothing of columns, indexes, notes, enum items, expressions *)
Inductive dview := DT (owner : option oid) (names : list pystr) | DM (k : kind) (owner : option oid) | DD (db : database) | DChild.
Definition dview_of (ob : obj) : dview :=
  match ob with
  | OTable tb => DT (t_database tb) (names_of tb)
  | ODatabase db => DD db
  | OReference _ | OEnum _ | OSticky _ | OProject _ | OGroup _ =>
      match okind ob with Some k => DM k (oowner ob) | None => DChild end
  | _ => DChild
  end.
Definition same_dview (h h' : heap) : Prop := forall x, option_map dview_of (nth_error h' x) = option_map dview_of (nth_error h x).

Lemma same_dview_table h h' t tb : same_dview h h' -> h_table h' t = Some tb ->
  exists tb0, h_table h t = Some tb0 /\ t_database tb0 = t_database tb /\ names_of tb0 = names_of tb.
Proof.
  intros S Ht. apply h_table_nth in Ht. specialize (S t). rewrite Ht in S. cbn in S.
  destruct (nth_error h t) as [ob|] eqn:E; [|discriminate S]. cbn in S. inversion S as [S'].
  destruct ob; try discriminate S'. cbn in S'. inversion S'. exists t0. split; [unfold h_table; rewrite E; reflexivity|]. split; congruence.
Qed.
Lemma same_dview_sym h h' : same_dview h h' -> same_dview h' h.
Proof. intros H x. symmetry. apply H. Qed.
Lemma same_dview_db h h' d db : same_dview h h' -> h_database h d = Some db -> h_database h' d = Some db.
Proof.
  intros S Hd. apply h_database_nth in Hd. specialize (S d). rewrite Hd in S. cbn in S.
  destruct (nth_error h' d) as [ob|] eqn:E; [|discriminate S]. cbn in S. inversion S as [S'].
  unfold h_database. rewrite E. destruct ob; try discriminate S'. cbn in S'. inversion S'. reflexivity.
Qed.
Lemma same_dview_member h h' d k o : same_dview h h' -> k <> KTable -> member h d k o -> member h' d k o.
Proof.
  intros S Nk (ob & A & B & C). specialize (S o). rewrite A in S. cbn in S.
  destruct (nth_error h' o) as [ob'|] eqn:E; [|discriminate S]. cbn in S. inversion S as [S'].
  exists ob'. split; [exact E|].
  destruct ob; try discriminate B; cbn in B; inversion B; subst k; try congruence;
    destruct ob'; try discriminate S'; cbn in S'; inversion S'; cbn in *; split; congruence.
Qed.

Theorem InvDB_view h h' d db : same_dview h h' -> InvDB h d db -> InvDB h' d db.
Proof.
  intros S [[Idb Ind Ik Ig If Ib] IM IN]. pose proof (same_dview_sym _ _ S) as S'.
  assert (Hdb : h_database h' d = Some db) by (eapply same_dview_db; eauto).
  split; [split|..]; auto.
  - intros t tb Ht. destruct (same_dview_table _ _ _ _ S Ht) as (tb0 & Ht0 & _ & En). rewrite <- En. eapply Ig; eauto.
  - intros t Hin. destruct (If t Hin) as (tb & Ht & Hown & Hk).
    destruct (same_dview_table _ _ _ _ S' Ht) as (tb' & Ht' & Eo & En). exists tb'. split; [exact Ht'|]. split; [congruence|].
    intros k Hkin. apply Hk. rewrite <- En. exact Hkin.
  - intros k t Hg. destruct (Ib k t Hg) as (Hin & tb & Ht & Hk).
    destruct (same_dview_table _ _ _ _ S' Ht) as (tb' & Ht' & Eo & En). split; [exact Hin|]. exists tb'. split; [exact Ht'|]. rewrite En. exact Hk.
  - intros k o Hin. destruct (kind_eq_dec k KTable) as [->|Nk].
    + destruct (If o Hin) as (tb & Ht & Hown & _).
      destruct (same_dview_table _ _ _ _ S' Ht) as (tb' & Ht' & Eo & En).
      exists (OTable tb'). split; [apply h_table_nth; exact Ht'|]. split; [reflexivity|]. cbn. congruence.
    + eapply same_dview_member; eauto.
Qed.

(* a table-level step keeps owner and names of every table and every other top-level object *)
Lemma tupd_same_dview h t c tb tb' ob ob' : h_table h t = Some tb -> nth_error h c = Some ob ->
  dview_of ob = DChild -> dview_of ob' = DChild -> t_database tb' = t_database tb -> names_of tb' = names_of tb ->
  same_dview h (tupd h t c tb' ob').
Proof.
  intros Ht Hc A B E1 E2 x.
  assert (Hnt : is_tab ob = false) by (destruct ob; try discriminate A; reflexivity).
  destruct (Nat.eq_dec x t) as [->|Nt].
  - rewrite (tupd_nth_t h t c tb tb' ob' Ht), (h_table_nth _ _ _ Ht). cbn. rewrite E1, E2. reflexivity.
  - destruct (Nat.eq_dec x c) as [->|Nc].
    + rewrite (tupd_nth_c h t c tb tb' ob ob' Ht Hc Hnt), Hc. cbn. congruence.
    + rewrite tupd_nth_other by assumption. reflexivity.
Qed.

(* ====================== part 5 ====================== *)

(* ---- guarantees: every run of m relates the heap before and after by R, whatever the outcome ---- *)
Definition guar {A} (R : heap -> heap -> Prop) (m : M A) : Prop := forall h h' r, m h = (h', r) -> R h h'.

Section GUAR.
  Variable R : heap -> heap -> Prop.
  Hypothesis Rrefl : forall h, R h h.
  Hypothesis Rtrans : forall a b c, R a b -> R b c -> R a c.

  Lemma g_ro {A} (m : M A) : readonly m -> guar R m.
  Proof. intros H h h' r E. apply H in E. subst. apply Rrefl. Qed.
  Lemma g_bind {A B} (m : M A) (f : A -> M B) : guar R m -> (forall a, guar R (f a)) -> guar R (bindM m f).
  Proof.
    intros Hm Hf h h' r H. apply bindM_inv in H as [[e [H1 _]]|[a [h1 [H1 H2]]]].
    - eapply Hm; eauto.
    - eapply Rtrans; [eapply Hm; eauto|eapply Hf; eauto].
  Qed.
  Lemma g_iterM {A} (f : A -> M unit) l : (forall a, guar R (f a)) -> guar R (iterM f l).
  Proof. intros Hf. induction l as [|x l IH]; cbn [iterM]; [apply g_ro, ro_ret|apply g_bind; [apply Hf|intros _; exact IH]]. Qed.
  Lemma g_mapMM {A B} (f : A -> M B) l : (forall a, guar R (f a)) -> guar R (mapMM f l).
  Proof.
    intros Hf. induction l as [|x l IH]; cbn [mapMM]; [apply g_ro, ro_ret|].
    apply g_bind; [apply Hf|intros y]. apply g_bind; [exact IH|intros ys]. apply g_ro, ro_ret.
  Qed.
End GUAR.

Lemma same_cview_refl h : same_cview h h. Proof. intros x; reflexivity. Qed.
Lemma same_cview_trans a b c : same_cview a b -> same_cview b c -> same_cview a c.
Proof. intros H1 H2 x. rewrite H2. apply H1. Qed.
Lemma same_dview_refl h : same_dview h h. Proof. intros x; reflexivity. Qed.
Lemma same_dview_trans a b c : same_dview a b -> same_dview b c -> same_dview a c.
Proof. intros H1 H2 x. rewrite H2. apply H1. Qed.

(* storing an object with the same view *)
Lemma store_same_view {V} (view : obj -> V) h o ob ob' : nth_error h o = Some ob -> view ob' = view ob ->
  forall x, option_map view (nth_error (replace_nth o ob' h) x) = option_map view (nth_error h x).
Proof.
  intros Ho E x. destruct (Nat.eq_dec o x) as [<-|N].
  - rewrite (nth_replace_same' _ _ _ _ Ho), Ho. cbn. rewrite E. reflexivity.
  - rewrite nth_replace_other by exact N. reflexivity.
Qed.

Lemma gc_set_obj_database o v : guar same_cview (set_obj_database o v).
Proof.
  intros h h' r H. unfold set_obj_database, bindM, lookup in H. destruct (nth_error h o) as [ob|] eqn:E.
  - destruct ob; inversion H; subst; try apply same_cview_refl;
      (unfold same_cview; eapply store_same_view; [exact E|reflexivity]).
  - inversion H; subst. apply same_cview_refl.
Qed.
Lemma gc_upd_db d f : guar same_cview (upd_db d f).
Proof.
  intros h h' r H. unfold upd_db, get_database, bindM, lookup in H. destruct (nth_error h d) as [ob|] eqn:E.
  - destruct ob; inversion H; subst; try apply same_cview_refl.
    unfold same_cview; eapply store_same_view; [exact E|reflexivity].
  - inversion H; subst. apply same_cview_refl.
Qed.

Ltac gc :=
  repeat first [ apply gc_set_obj_database | apply gc_upd_db
               | apply (g_ro _ same_cview_refl); solve [ro_any]
               | apply (g_bind _ same_cview_trans); [|intros ?]
               | match goal with |- guar _ (match ?x with _ => _ end) => destruct x end
               | match goal with |- guar _ (if ?x then _ else _) => destruct x end ].

Lemma gc_db_add_table d o : guar same_cview (db_add_table d o). Proof. unfold db_add_table. gc. Qed.
Lemma gc_db_add_reference d o : guar same_cview (db_add_reference d o). Proof. unfold db_add_reference. gc. Qed.
Lemma gc_db_add_enum d o : guar same_cview (db_add_enum d o). Proof. unfold db_add_enum. gc. Qed.
Lemma gc_db_add_sticky d o : guar same_cview (db_add_sticky_note d o). Proof. unfold db_add_sticky_note. gc. Qed.
Lemma gc_db_add_group d o : guar same_cview (db_add_table_group d o). Proof. unfold db_add_table_group. gc. Qed.
Lemma gc_db_delete_project d : guar same_cview (db_delete_project d). Proof. unfold db_delete_project. gc. Qed.
Lemma gc_db_add_project d o : guar same_cview (db_add_project d o).
Proof. unfold db_add_project. gc; try apply gc_db_delete_project. Qed.
Lemma gc_db_add d o : guar same_cview (db_add d o).
Proof.
  unfold db_add. gc; first [apply gc_db_add_table|apply gc_db_add_reference|apply gc_db_add_enum|apply gc_db_add_sticky
                           |apply gc_db_add_group|apply gc_db_add_project].
Qed.
Lemma gc_db_delete_table d o : guar same_cview (db_delete_table d o). Proof. unfold db_delete_table. gc. Qed.
Lemma gc_db_delete_generic g s e d o : guar same_cview (db_delete_generic g s e d o). Proof. unfold db_delete_generic. gc. Qed.
Lemma gc_db_delete d o : guar same_cview (db_delete d o).
Proof.
  unfold db_delete. gc; first [apply gc_db_delete_table|apply gc_db_delete_generic|apply gc_db_delete_project].
Qed.

(* ---- the combined invariant: database level and table level ---- *)
Definition Inv (h : heap) (d : oid) (db : database) : Prop := InvDB h d db /\ WW h.

Theorem inv_db_add h d db o : Inv h d db -> exists db', Inv (fst (db_add d o h)) d db'.
Proof.
  intros [I HW]. assert (S : same_cview h (fst (db_add d o h))) by (destruct (db_add d o h) as [h' r] eqn:E; eapply gc_db_add; eauto).
  destruct (db_add_step h d db o I) as [[e R]|(db' & h' & ob & k & Hrun & I' & _)].
  - rewrite R. cbn [fst]. exists db. split; assumption.
  - rewrite Hrun in *. cbn [fst] in *. exists db'. split; [exact I'|]. intros k'. eapply W_view; eauto.
Qed.
Theorem inv_db_delete h d db o : Inv h d db -> exists db', Inv (fst (db_delete d o h)) d db'.
Proof.
  intros [I HW]. assert (S : same_cview h (fst (db_delete d o h))) by (destruct (db_delete d o h) as [h' r] eqn:E; eapply gc_db_delete; eauto).
  destruct (db_delete_step h d db o I) as [[e R]|[k [[e R]|(db' & h' & p & n & ob & Hrun & I' & _)]]].
  - rewrite R. cbn [fst]. exists db. split; assumption.
  - rewrite R. cbn [fst]. exists db. split; assumption.
  - rewrite Hrun in *. cbn [fst] in *. exists db'. split; [exact I'|]. intros k'. eapply W_view; eauto.
Qed.

(* ====================== part 6 ====================== *)

(* ---- table-level steps keep the database-level view ---- *)
Lemma gd_upd_column c f : guar same_dview (upd_column c f).
Proof.
  intros h h' r H. unfold upd_column, get_column, bindM, lookup in H. destruct (nth_error h c) as [ob|] eqn:E.
  - destruct ob; inversion H; subst; try apply same_dview_refl. unfold same_dview; eapply store_same_view; [exact E|reflexivity].
  - inversion H; subst. apply same_dview_refl.
Qed.
Lemma gd_upd_index c f : guar same_dview (upd_index c f).
Proof.
  intros h h' r H. unfold upd_index, get_index, bindM, lookup in H. destruct (nth_error h c) as [ob|] eqn:E.
  - destruct ob; inversion H; subst; try apply same_dview_refl. unfold same_dview; eapply store_same_view; [exact E|reflexivity].
  - inversion H; subst. apply same_dview_refl.
Qed.
Lemma gd_upd_table t f : (forall x, t_database (f x) = t_database x /\ names_of (f x) = names_of x) -> guar same_dview (upd_table t f).
Proof.
  intros Hf h h' r H. unfold upd_table, get_table, bindM, lookup in H. destruct (nth_error h t) as [ob|] eqn:E.
  - destruct ob; inversion H; subst; try apply same_dview_refl. unfold same_dview; eapply store_same_view; [exact E|].
    cbn. destruct (Hf t0) as [-> ->]. reflexivity.
  - inversion H; subst. apply same_dview_refl.
Qed.
Lemma set_columns_keeps l x : t_database (set_columns l x) = t_database x /\ names_of (set_columns l x) = names_of x.
Proof. split; reflexivity. Qed.
Lemma set_indexes_keeps l x : t_database (set_indexes l x) = t_database x /\ names_of (set_indexes l x) = names_of x.
Proof. split; reflexivity. Qed.

Ltac gd :=
  repeat first [ apply gd_upd_column | apply gd_upd_index
               | apply gd_upd_table; intros ?; first [apply set_columns_keeps | apply set_indexes_keeps]
               | apply (g_ro _ same_dview_refl); solve [ro_any]
               | apply (g_bind _ same_dview_trans); [|intros ?]
               | match goal with |- guar _ (match ?x with _ => _ end) => destruct x end
               | match goal with |- guar _ (if ?x then _ else _) => destruct x end ].

Lemma gd_table_add_column t c : guar same_dview (table_add_column t c). Proof. unfold table_add_column. gd. Qed.
Lemma gd_table_add_index t c : guar same_dview (table_add_index t c). Proof. unfold table_add_index. gd. Qed.
Lemma gd_table_delete_column t a : guar same_dview (table_delete_column t a). Proof. unfold table_delete_column. gd. Qed.
Lemma gd_table_delete_index t a : guar same_dview (table_delete_index t a). Proof. unfold table_delete_index. gd. Qed.

(* ---- container operations of both levels ---- *)
Inductive cop :=
| CAdd (o : oid) | CDel (o : oid)
| CAddCol (t c : oid) | CAddIdx (t i : oid) | CDelCol (t : oid) (a : del_arg) | CDelIdx (t : oid) (a : del_arg).

Definition cexec (d : oid) (op : cop) (h : heap) : heap :=
  match op with
  | CAdd o => fst (db_add d o h) | CDel o => fst (db_delete d o h)
  | CAddCol t c => fst (table_add_column t c h) | CAddIdx t i => fst (table_add_index t i h)
  | CDelCol t a => fst (table_delete_column t a h) | CDelIdx t a => fst (table_delete_index t a h)
  end.

(* what the caller must respect for table-level calls: the receiver is a table; an object that is added is not attached
   anywhere (else defect D24); when deleting by object, the first member equal to it is the object itself (else D23) *)
Definition cguard (h : heap) (op : cop) : Prop :=
  match op with
  | CAdd _ | CDel _ => True
  | CAddCol t c => h_table h t <> None /\ forall cc, nth_error h c = Some (OColumn cc) -> c_table cc = None
  | CAddIdx t i => h_table h t <> None /\ forall ix, nth_error h i = Some (OIndex ix) -> i_table ix = None
  | CDelCol t (DAint _) | CDelIdx t (DAint _) => h_table h t <> None
  | CDelCol t (DAobj c) =>
      h_table h t <> None /\
      forall tb cc, h_table h t = Some tb -> nth_error h c = Some (OColumn cc) -> list_has (column_eqb h) c (t_columns tb) = true ->
        exists n, list_index (column_eqb (replace_nth c (OColumn (set_c_table None cc)) h)) c (t_columns tb) = Some n /\
                  nth_error (t_columns tb) n = Some c
  | CDelIdx t (DAobj c) =>
      h_table h t <> None /\
      forall tb cc, h_table h t = Some tb -> nth_error h c = Some (OIndex cc) -> list_has (index_eqb h) c (t_indexes tb) = true ->
        exists n, list_index (index_eqb (replace_nth c (OIndex (set_i_table None cc)) h)) c (t_indexes tb) = Some n /\
                  nth_error (t_indexes tb) n = Some c
  end.

Lemma WW_table_step h op d : WW h -> cguard h op ->
  match op with CAdd _ | CDel _ => True | _ => WW (cexec d op h) end.
Proof.
  intros HW G. destruct op as [o|o|t c|t i|t a|t a]; cbn [cexec]; auto.
  - destruct G as [Gt Gc]. destruct (h_table h t) as [tb|] eqn:Ht; [|congruence].
    destruct (nth_error h c) as [ob|] eqn:Hc.
    + destruct ob; try (unfold table_add_column, bindM; rewrite (lookup_ok _ _ _ Hc); exact HW).
      destruct (add_column_step h t tb c c0 HW Ht Hc (Gc _ eq_refl)) as [E HW']. rewrite E. exact HW'.
    + unfold table_add_column, bindM, lookup. rewrite Hc. exact HW.
  - destruct G as [Gt Gc]. destruct (h_table h t) as [tb|] eqn:Ht; [|congruence].
    destruct (nth_error h i) as [ob|] eqn:Hc.
    + destruct ob; try (unfold table_add_index, bindM; rewrite (lookup_ok _ _ _ Hc); exact HW).
      destruct (add_index_step h t tb i i0 HW Ht Hc (Gc _ eq_refl)) as [[e R]|[_ [E HW']]]; [rewrite R; exact HW|rewrite E; exact HW'].
    + unfold table_add_index, bindM, lookup. rewrite Hc. exact HW.
  - destruct a as [c|z].
    + destruct G as [Gt Gc]. destruct (h_table h t) as [tb|] eqn:Ht; [|congruence].
      destruct (nth_error h c) as [ob|] eqn:Hc.
      * destruct ob; try (unfold table_delete_column, bindM; rewrite (lookup_ok _ _ _ Hc); exact HW).
        destruct (delete_column_obj_step h t tb c c0 HW Ht Hc) as [Hrej Hok].
        destruct (list_has (column_eqb h) c (t_columns tb)) eqn:El.
        -- destruct (Gc tb c0 eq_refl eq_refl El) as (n & Ei & En). destruct (Hok n eq_refl Ei En) as (E & HW' & _). rewrite E. exact HW'.
        -- rewrite (Hrej eq_refl). exact HW.
      * unfold table_delete_column, bindM, lookup. rewrite Hc. exact HW.
    + destruct (h_table h t) as [tb|] eqn:Ht; [|cbn in G; congruence].
      destruct (delete_column_int_step h t tb z HW Ht) as [[e R]|(n & c & cc & _ & _ & _ & E & HW' & _)]; [rewrite R; exact HW|rewrite E; exact HW'].
  - destruct a as [c|z].
    + destruct G as [Gt Gc]. destruct (h_table h t) as [tb|] eqn:Ht; [|congruence].
      destruct (nth_error h c) as [ob|] eqn:Hc.
      * destruct ob; try (unfold table_delete_index, bindM; rewrite (lookup_ok _ _ _ Hc); exact HW).
        destruct (delete_index_obj_step h t tb c i HW Ht Hc) as [Hrej Hok].
        destruct (list_has (index_eqb h) c (t_indexes tb)) eqn:El.
        -- destruct (Gc tb i eq_refl eq_refl El) as (n & Ei & En). destruct (Hok n eq_refl Ei En) as (E & HW' & _). rewrite E. exact HW'.
        -- rewrite (Hrej eq_refl). exact HW.
      * unfold table_delete_index, bindM, lookup. rewrite Hc. exact HW.
    + destruct (h_table h t) as [tb|] eqn:Ht; [|cbn in G; congruence].
      destruct (delete_index_int_step h t tb z HW Ht) as [[e R]|(n & c & cc & _ & _ & _ & E & HW' & _)]; [rewrite R; exact HW|rewrite E; exact HW'].
Qed.

Theorem inv_step h d db op : Inv h d db -> cguard h op -> exists db', Inv (cexec d op h) d db'.
Proof.
  intros I G. destruct op as [o|o|t c|t i|t a|t a].
  - eapply inv_db_add; exact I.
  - eapply inv_db_delete; exact I.
  - destruct I as [ID HW]. exists db. split; [|exact (WW_table_step h (CAddCol t c) d HW G)].
    eapply InvDB_view; [|exact ID]. cbn [cexec]. destruct (table_add_column t c h) eqn:E. eapply gd_table_add_column; eauto.
  - destruct I as [ID HW]. exists db. split; [|exact (WW_table_step h (CAddIdx t i) d HW G)].
    eapply InvDB_view; [|exact ID]. cbn [cexec]. destruct (table_add_index t i h) eqn:E. eapply gd_table_add_index; eauto.
  - destruct I as [ID HW]. exists db. split; [|exact (WW_table_step h (CDelCol t a) d HW G)].
    eapply InvDB_view; [|exact ID]. cbn [cexec]. destruct (table_delete_column t a h) eqn:E. eapply gd_table_delete_column; eauto.
  - destruct I as [ID HW]. exists db. split; [|exact (WW_table_step h (CDelIdx t a) d HW G)].
    eapply InvDB_view; [|exact ID]. cbn [cexec]. destruct (table_delete_index t a h) eqn:E. eapply gd_table_delete_index; eauto.
Qed.

(* histories in which every table-level call respects its guard in the state it is made in *)
Fixpoint guarded (d : oid) (ops : list cop) (h : heap) : Prop :=
  match ops with
  | [] => True
  | op :: r => cguard h op /\ guarded d r (cexec d op h)
  end.

Theorem container_invariant_history d : forall ops h db, Inv h d db -> guarded d ops h ->
  exists db', Inv (fold_left (fun h op => cexec d op h) ops h) d db'.
Proof.
  induction ops as [|op ops IH]; intros h db I G; [exists db; exact I|]. cbn [fold_left]. destruct G as [G1 G2].
  destruct (inv_step h d db op I G1) as [db' I']. eapply IH; eauto.
Qed.

(* base case: a heap in which nothing is attached yet *)
Lemma WW_detached h :
  (forall t tb, h_table h t = Some tb -> t_columns tb = [] /\ t_indexes tb = []) ->
  (forall c cc, nth_error h c = Some (OColumn cc) -> c_table cc = None) ->
  (forall c cc, nth_error h c = Some (OIndex cc) -> i_table cc = None) -> WW h.
Proof.
  intros Ht Hc Hi k. split.
  - intros t tb H. destruct (Ht t tb H) as [A B]. destruct k; cbn; rewrite ?A, ?B; constructor.
  - intros t tb c H Hin. destruct (Ht t tb H) as [A B]. destruct k; cbn in Hin; rewrite ?A, ?B in Hin; destruct Hin.
  - intros c ob t H Ho. destruct k, ob; try discriminate Ho; cbn in Ho; inversion Ho as [E].
    + rewrite (Hc _ _ H) in E. discriminate E.
    + rewrite (Hi _ _ H) in E. discriminate E.
Qed.
