(* DdlText.v — C03: the statement-level reading of the DDL, for every heap.  What each renderer emits is stated as an exact
   text built from the object's CURRENT attributes: the column line (name, type, then PRIMARY KEY / AUTOINCREMENT / UNIQUE /
   NOT NULL / DEFAULT exactly when set — a default of 0, false or '' is still a default), the CREATE [UNIQUE] INDEX statement,
   the PRIMARY KEY clause of a pk index, CREATE TYPE ... AS ENUM with one line per item in order, and CREATE TABLE whose body
   starts with exactly one row per column, in order. *)
From PyDBML Require Import PyStr Py Heap Classes Tools RenderSQL LiveLinks.
From Coq Require Import Lia.
Import ListNotations.

Lemma ok_inj {A} (a b : A) : @Ok A a = Ok b -> a = b. Proof. congruence. Qed.
Lemma mapM_Forall2 {A B} (f : A -> res B) l : forall ys, mapM f l = Ok ys -> Forall2 (fun x y => f x = Ok y) l ys.
Proof.
  induction l as [|x l IH]; intros ys H; cbn [mapM] in H.
  - inversion H. constructor.
  - destruct (f x) as [y|e] eqn:E; cbn [bind] in H; [|discriminate H]. destruct (mapM f l) as [ys0|e]; cbn [bind] in H; [|discriminate H].
    inversion H; subst. constructor; [exact E|apply IH; reflexivity].
Qed.

Lemma Forall2_impl_simple {A B} (R S : A -> B -> Prop) l l' : (forall a b, R a b -> S a b) -> Forall2 R l l' -> Forall2 S l l'.
Proof. intros H F. induction F; constructor; auto. Qed.

Definition flag (b : bool) (text : pystr) : list pystr := if b then [text] else [].

(* what DEFAULT clause a column carries: none exactly when there is no default *)
Definition default_clause (h : heap) (d : defval) (dflt : list pystr) : Prop :=
  match d with
  | DNone => dflt = []
  | DInt z => dflt = [s2l "DEFAULT " ++ str_of_Z z]
  | DFloat t => dflt = [s2l "DEFAULT " ++ t]
  | DBool b => dflt = [s2l "DEFAULT " ++ str_of_bool b]
  | DStr t => dflt = [s2l "DEFAULT " ++ t]
  | DExpr x => exists ex, h_expr h x = Some ex /\ dflt = [s2l "DEFAULT " ++ sql_expression ex]
  end.
Definition type_text (h : heap) (ty : coltype) (text : pystr) : Prop :=
  match ty with
  | CTEnum e => exists en, h_enum h e = Some en /\ text = full_name_for_sql (e_schema en) (e_name en)
  | CTStr t => text = t
  | CTNone => False
  end.

Theorem sql_column_text h c s : sql_column h c = Ok s ->
  exists ty dflt, type_text h (c_type c) ty /\ default_clause h (c_default c) dflt /\
    s = with_comment (c_comment c)
          (join [cSP] ([q2 (fstr (c_name c)); ty]
                       ++ flag (c_pk c && negb (table_composite_pk h (c_table c))) (s2l "PRIMARY KEY")
                       ++ flag (c_autoinc c) (s2l "AUTOINCREMENT") ++ flag (c_unique c) (s2l "UNIQUE")
                       ++ flag (c_not_null c) (s2l "NOT NULL") ++ dflt)).
Proof.
  unfold sql_column. destruct (check_attributes (OColumn c)) as [[]|e]; [|discriminate]. cbn [bind].
  intros H.
  assert (T : exists ty, type_text h (c_type c) ty /\
             match c_type c with
             | CTEnum e => match h_enum h e with Some en => Ok (full_name_for_sql (e_schema en) (e_name en)) | None => Raise (EStuck 44) end
             | CTStr s0 => Ok s0 | CTNone => Raise (EStuck 45) end = Ok ty).
  { destruct (c_type c) as [|t|e]; [discriminate H|exists t; split; reflexivity|].
    cbn [type_text]. destruct (h_enum h e) as [en|]; [|discriminate H]. eexists. split; [exists en; split; reflexivity|reflexivity]. }
  destruct T as (ty & HT & ET). rewrite ET in H. cbn [bind] in H.
  assert (D : exists dflt, default_clause h (c_default c) dflt /\
             match c_default c with
             | DNone => Ok [] | DExpr x => match h_expr h x with Some ex => Ok [s2l "DEFAULT " ++ sql_expression ex] | None => Raise (EStuck 46) end
             | DInt z => Ok [s2l "DEFAULT " ++ str_of_Z z] | DFloat s0 => Ok [s2l "DEFAULT " ++ s0]
             | DBool b => Ok [s2l "DEFAULT " ++ str_of_bool b] | DStr s0 => Ok [s2l "DEFAULT " ++ s0] end = Ok dflt).
  { destruct (c_default c) as [|z|t|b|t|x]; try (eexists; split; reflexivity).
    cbn [default_clause]. destruct (h_expr h x) as [ex|]; [|discriminate H]. eexists. split; [exists ex; split; reflexivity|reflexivity]. }
  destruct D as (dflt & HD & ED). rewrite ED in H. cbn [bind] in H. inversion H. exists ty, dflt. split; [exact HT|]. split; [exact HD|reflexivity].
Qed.

(* the flags are there exactly when set: the component list, read back *)
Corollary sql_column_flags h c s : sql_column h c = Ok s -> c_comment c = None ->
  exists ty dflt, s = join [cSP] ([q2 (fstr (c_name c)); ty] ++ flag (c_pk c && negb (table_composite_pk h (c_table c))) (s2l "PRIMARY KEY")
                                  ++ flag (c_autoinc c) (s2l "AUTOINCREMENT") ++ flag (c_unique c) (s2l "UNIQUE")
                                  ++ flag (c_not_null c) (s2l "NOT NULL") ++ dflt) /\ (dflt = [] <-> c_default c = DNone).
Proof.
  intros H Hc. destruct (sql_column_text h c s H) as (ty & dflt & _ & HD & ->). exists ty, dflt. unfold with_comment. rewrite Hc. cbn [truthy]. split; [reflexivity|].
  destruct (c_default c); cbn [default_clause] in HD; try (subst dflt; split; intros X; discriminate X).
  - subst. tauto.
  - destruct HD as (ex & _ & ->). split; intros X; discriminate X.
Qed.

(* CREATE [UNIQUE] INDEX [name] ON table [USING TYPE] (subjects); — and the PRIMARY KEY clause of a pk index *)
Theorem sql_index_text h i t tb subs ks :
  i_subjects i = Some subs -> i_table i = Some t -> h_table h t = Some tb -> mapM (sql_subject h) subs = Ok ks ->
  sql_index h i = Ok (with_comment (i_comment i)
    (if i_pk i then s2l "PRIMARY KEY (" ++ join (s2l ", ") ks ++ [41%N]
     else s2l "CREATE " ++ (if i_unique i then s2l "UNIQUE " else []) ++ s2l "INDEX "
          ++ (if truthy (i_name i) then q2 (fstr (i_name i)) ++ [cSP] else [])
          ++ s2l "ON " ++ full_name_for_sql (t_schema tb) (t_name tb) ++ [cSP]
          ++ (if truthy (i_type i) then s2l "USING " ++ upper (fstr (i_type i)) ++ [cSP] else [])
          ++ 40%N :: join (s2l ", ") ks ++ s2l ");")).
Proof.
  intros Hs Ht Htb Hk. unfold sql_index. unfold check_attributes. rewrite Hs, Ht. cbn [bind]. rewrite Hk. cbn [bind].
  destruct (i_pk i); [reflexivity|]. rewrite Htb. cbn [bind]. reflexivity.
Qed.

(* CREATE TYPE ... AS ENUM: one line per item, in order *)
Theorem sql_enum_text h e s : sql_enum h e = Ok s ->
  exists items rows, e_items e = Some items /\
    Forall2 (fun i row => exists it s0, h_enumitem h i = Some it /\ sql_enum_item it = Ok s0 /\ row = textwrap_indent s0 (s2l "  ")) items rows /\
    s = with_comment (e_comment e)
          (s2l "CREATE TYPE " ++ full_name_for_sql (e_schema e) (e_name e) ++ s2l " AS ENUM (" ++ [cLF]
           ++ rstrip_chars [44%N] (join [cLF] rows) ++ cLF :: s2l ");").
Proof.
  unfold sql_enum. destruct (check_attributes (OEnum e)) as [[]|x]; [|discriminate]. cbn [bind].
  destruct (e_items e) as [items|]; [|discriminate].
  match goal with |- bind (mapM ?f items) _ = _ -> _ => destruct (mapM f items) as [rows|x] eqn:E end; cbn [bind]; [|discriminate].
  intros H. inversion H. exists items, rows. split; [reflexivity|]. split; [|reflexivity].
  apply mapM_Forall2 in E. eapply Forall2_impl_simple; [|exact E]. intros i row Hr. cbv beta in Hr.
  destruct (h_enumitem h i) as [it|]; [|discriminate Hr]. destruct (sql_enum_item it) as [s0|] eqn:E0; cbn [bind] in Hr; [|discriminate Hr].
  inversion Hr. exists it, s0. auto.
Qed.

(* CREATE TABLE: the body starts with exactly one row per column, in order (then pk-index rows, inline FOREIGN KEY rows and the
   composite PRIMARY KEY row); every index that is not a pk index becomes one statement after it; then the COMMENT ON statements *)
Theorem sql_table_text h tid t s : sql_table h tid t = Ok s ->
  exists colrows idxs pkrows fkrows cpk others notes,
    Forall2 (fun c row => exists cc s0, h_column h c = Some cc /\ sql_column h cc = Ok s0 /\ row = textwrap_indent s0 (s2l "  ")) (t_columns t) colrows /\
    Forall2 (fun i p => exists ix, h_index h i = Some ix /\ p = (i, ix)) (t_indexes t) idxs /\
    Forall2 (fun p row => exists s0, sql_index h (snd p) = Ok s0 /\ row = textwrap_indent s0 (s2l "  ")) (filter (fun p => i_pk (snd p)) idxs) pkrows /\
    Forall2 (fun p st => exists s0, sql_index h (snd p) = Ok s0 /\ st = cLF :: s0) (filter (fun p => negb (i_pk (snd p))) idxs) others /\
    s = join [cLF] ((if truthy (t_comment t) then [comment_to_sql (fstr (t_comment t))] else [])
                    ++ [s2l "CREATE TABLE " ++ full_name_for_sql (t_schema t) (t_name t) ++ s2l " (";
                        join (s2l "," ++ [cLF]) (colrows ++ pkrows ++ fkrows ++ cpk); s2l ");"]
                    ++ others) ++ notes /\
    length cpk <= 1 /\ (cpk = [] <-> has_composite_pk h t = false).
Proof.
  unfold sql_table. destruct (check_attributes (OTable t)) as [[]|x]; [|discriminate]. cbn [bind].
  match goal with |- bind (mapM ?f (t_columns t)) _ = _ -> _ => destruct (mapM f (t_columns t)) as [colrows|x] eqn:Ec end; cbn [bind]; [|discriminate].
  match goal with |- bind (mapM ?f (t_indexes t)) _ = _ -> _ => destruct (mapM f (t_indexes t)) as [idxs|x] eqn:Ei end; cbn [bind]; [|discriminate].
  match goal with |- bind (mapM ?f (filter ?p idxs)) _ = _ -> _ => destruct (mapM f (filter p idxs)) as [pkrows|x] eqn:Ep end; cbn [bind]; [|discriminate].
  destruct (inline_references_for_sql h tid t) as [irefs|x]; cbn [bind]; [|discriminate].
  match goal with |- bind (mapM ?f irefs) _ = _ -> _ => destruct (mapM f irefs) as [fkrows|x] end; cbn [bind]; [|discriminate].
  match goal with |- bind (mapM ?f (t_columns t)) _ = _ -> _ => destruct (mapM f (t_columns t)) as [pkcols|x] end; cbn [bind]; [|discriminate].
  match goal with |- bind (mapM ?f (filter ?p idxs)) _ = _ -> _ => destruct (mapM f (filter p idxs)) as [others|x] eqn:Eo end; cbn [bind]; [|discriminate].
  match goal with |- bind ?m _ = _ -> _ => destruct m as [tn|x] end; cbn [bind]; [|discriminate].
  match goal with |- bind ?m _ = _ -> _ => destruct m as [cn|x] end; cbn [bind]; [|discriminate].
  intros H. apply ok_inj in H.
  exists colrows, idxs, pkrows, fkrows,
    (if has_composite_pk h t then [s2l "  PRIMARY KEY (" ++ join (s2l ", ") (map (fun cc => q2 (fstr (c_name cc))) (filter c_pk pkcols)) ++ [41%N]] else []),
    others, (tn ++ concat cn).
  split.
  { apply mapM_Forall2 in Ec. eapply Forall2_impl_simple; [|exact Ec]. intros c row Hr. cbv beta in Hr.
    destruct (h_column h c) as [cc|]; [|discriminate Hr]. destruct (sql_column h cc) as [s0|] eqn:E0; cbn [bind] in Hr; [|discriminate Hr]. inversion Hr. exists cc, s0. auto. }
  split.
  { apply mapM_Forall2 in Ei. eapply Forall2_impl_simple; [|exact Ei]. intros i p Hr. cbv beta in Hr.
    destruct (h_index h i) as [ix|]; [|discriminate Hr]. inversion Hr. exists ix. auto. }
  split.
  { apply mapM_Forall2 in Ep. eapply Forall2_impl_simple; [|exact Ep]. intros p row Hr. cbv beta in Hr.
    destruct (sql_index h (snd p)) as [s0|]; cbn [bind] in Hr; [|discriminate Hr]. inversion Hr. exists s0. auto. }
  split.
  { apply mapM_Forall2 in Eo. eapply Forall2_impl_simple; [|exact Eo]. intros p row Hr. cbv beta in Hr.
    destruct (sql_index h (snd p)) as [s0|]; cbn [bind] in Hr; [|discriminate Hr]. inversion Hr. exists s0. auto. }
  split; [symmetry; exact H|].
  split; [destruct (has_composite_pk h t); cbn; lia|].
  destruct (has_composite_pk h t); split; intros X; try reflexivity; discriminate X.
Qed.

(* evaluated: a table with a pk autoincrement column, a unique not-null column with default 0, and a unique index *)
Definition dt_note : obj := ONote (mkNote [] None).
Definition dt_c1 : column := mkColumn (Some (s2l "id")) (CTStr (s2l "int")) false false true true None 0 [] DNone (Some 3).
Definition dt_c2 : column := mkColumn (Some (s2l "n")) (CTStr (s2l "int")) true true false false None 0 [] (DInt 0) (Some 3).
Definition dt_tab : table := mkTable (Some 5) (Some (s2l "t")) (Some (s2l "public")) [1; 2] [4] None 0 None None false [].
Definition dt_idx : index := mkIndex (Some [SubCol 2]) (Some 3) None true None false 0 None.
Definition dt_heap : heap := [dt_note; OColumn dt_c1; OColumn dt_c2; OTable dt_tab; OIndex dt_idx; ODatabase (mkDatabase [3] [] [] [] [] [] None false 0 1)].
Example table_text_example :
  sql_table dt_heap 3 dt_tab = Ok (s2l "CREATE TABLE ""t"" (
  ""id"" int PRIMARY KEY AUTOINCREMENT,
  ""n"" int UNIQUE NOT NULL DEFAULT 0
);

CREATE UNIQUE INDEX ON ""t"" (""n"");").
Proof. vm_compute. reflexivity. Qed.
