(* GenTie.v — the hand-written model agrees with the class-level data regenerated from the source
   (coq/gen/GenClasses.v).  A change of required_attributes, dont_compare_fields, the renderer
   registries, the constants or the literal regexes in /repo changes GenClasses.v and breaks one of
   these lemmas, hence every property theorem that imports this file. *)
From PyDBML Require Import PyStr Py Heap Classes Tools RenderSQL GenClasses.
Import ListNotations.

Definition class_name (o : obj) : pystr :=
  match o with
  | OTable _ => s2l "Table" | OColumn _ => s2l "Column" | OIndex _ => s2l "Index"
  | OReference _ => s2l "Reference" | OEnum _ => s2l "Enum" | OEnumItem _ => s2l "EnumItem"
  | ONote _ => s2l "Note" | OSticky _ => s2l "StickyNote" | OExpr _ => s2l "Expression"
  | OProject _ => s2l "Project" | OGroup _ => s2l "TableGroup" | ODatabase _ => s2l "Database"
  end.

Definition some {A} (x : option A) : bool := match x with Some _ => true | None => false end.

(* getattr(self, attr) is not None, for the attributes that can be required *)
Definition attr_set (o : obj) (attr : pystr) : option bool :=
  let is (a : pystr) := str_eqb attr a in
  match o with
  | OTable t => if is (s2l "name") then Some (some (t_name t)) else if is (s2l "schema") then Some (some (t_schema t)) else None
  | OColumn c => if is (s2l "name") then Some (some (c_name c))
                 else if is (s2l "type") then Some (match c_type c with CTNone => false | _ => true end) else None
  | OIndex i => if is (s2l "subjects") then Some (some (i_subjects i)) else if is (s2l "table") then Some (some (i_table i)) else None
  | OReference r => if is (s2l "type") then Some (some (r_type r)) else if is (s2l "col1") then Some (some (r_col1 r))
                    else if is (s2l "col2") then Some (some (r_col2 r)) else None
  | OEnum e => if is (s2l "name") then Some (some (e_name e)) else if is (s2l "schema") then Some (some (e_schema e))
               else if is (s2l "items") then Some (some (e_items e)) else None
  | OEnumItem i => if is (s2l "name") then Some (some (ei_name i)) else None
  | _ => None
  end.

Fixpoint check_generic_aux (o : obj) (attrs : list pystr) : res unit :=
  match attrs with
  | [] => Ok tt
  | a :: r => match attr_set o a with
              | Some true => check_generic_aux o r
              | Some false => Raise EAttributeMissing
              | None => Raise (EStuck 200)
              end
  end.

(* SQLObject.check_attributes_for_sql driven by the regenerated table *)
Definition check_generic (reqs : list (pystr * list pystr)) (o : obj) : res unit :=
  match dict_get (class_name o) reqs with
  | Some attrs => check_generic_aux o attrs
  | None => Raise EAttributeError
  end.

Lemma check_attributes_matches_source :
  forall o, match o with ODatabase _ | OSticky _ | OProject _ | OGroup _ => True
            | _ => check_attributes o = check_generic gen_required_attributes o end.
Proof.
  intros [t|c|i|r|e|ei|n|s|x|p|g|d]; try exact I; cbn.
  - destruct (t_name t), (t_schema t); reflexivity.
  - destruct (c_name c), (c_type c); reflexivity.
  - destruct (i_subjects i), (i_table i); reflexivity.
  - destruct (r_type r), (r_col1 r), (r_col2 r); reflexivity.
  - destruct (e_name e), (e_schema e), (e_items e); reflexivity.
  - destruct (ei_name ei); reflexivity.
  - reflexivity.
  - reflexivity.
Qed.

(* classes without check_attributes_for_sql / .sql in the source *)
Lemma dbml_only_classes :
  map (fun kv => (fst kv, snd kv)) (filter (fun kv => negb (snd kv)) gen_has_sql)
  = [(s2l "StickyNote", false); (s2l "Project", false); (s2l "TableGroup", false)].
Proof. reflexivity. Qed.

(* fields left out of structural equality; Enum compares its database *)
Lemma dont_compare_fields_expected :
  gen_dont_compare_fields =
  [(s2l "Table", [s2l "database"]); (s2l "Column", [s2l "table"]); (s2l "Index", [s2l "table"]);
   (s2l "Reference", [s2l "database"; s2l "_inline"]); (s2l "Enum", []); (s2l "EnumItem", []);
   (s2l "Note", [s2l "parent"]); (s2l "StickyNote", [s2l "database"]); (s2l "Expression", []);
   (s2l "Project", [s2l "database"]); (s2l "TableGroup", [s2l "database"])].
Proof. reflexivity. Qed.

Lemma structural_eq_expected :
  map fst (filter (fun kv => negb (snd kv)) gen_structural_eq) = [s2l "StickyNote"; s2l "Project"; s2l "TableGroup"].
Proof. reflexivity. Qed.

Lemma registries_expected :
  gen_sql_registry = [s2l "Column"; s2l "Enum"; s2l "EnumItem"; s2l "Expression"; s2l "Index"; s2l "Note"; s2l "Reference"; s2l "Table"]
  /\ gen_dbml_registry = [s2l "Column"; s2l "Enum"; s2l "EnumItem"; s2l "Expression"; s2l "Index"; s2l "Note"; s2l "Project";
                          s2l "Reference"; s2l "StickyNote"; s2l "Table"; s2l "TableGroup"].
Proof. split; reflexivity. Qed.

Lemma constants_expected :
  gen_constants = [(s2l "MANY_TO_MANY", MANY_TO_MANY); (s2l "MANY_TO_ONE", MANY_TO_ONE);
                   (s2l "ONE_TO_MANY", ONE_TO_MANY); (s2l "ONE_TO_ONE", ONE_TO_ONE)].
Proof. reflexivity. Qed.

(* the literal regexes the scanner models of Tools.v were derived from *)
Lemma regex_patterns_expected :
  gen_regex_patterns =
  [(s2l "prepare_text_for_dbml", [s2l "('''|')"]);
   (s2l "prepare_text_for_sql", [s2l "\\\n"]);
   (s2l "remove_indentation", [s2l "^\s*"]);
   (s2l "strip_empty_lines", [s2l "^([ \t]*\n)*(?P<content>[\s\S]+?)(\n[ \t]*)*$"])].
Proof. reflexivity. Qed.

Lemma database_defaults_expected :
  gen_database_default_allow_properties = false
  /\ gen_database_default_renderers = (s2l "DefaultSQLRenderer", s2l "DefaultDBMLRenderer").
Proof. split; reflexivity. Qed.
