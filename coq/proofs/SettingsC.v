(* SettingsC.v — C01, the settings of tables and the texts of notes: table objects keep their name, schema, alias, note, header
   colour, comment, abstract flag and arbitrary properties through everything the build does (they are written only through
   set_columns / set_indexes / the owner field), and note objects keep their text (they are written only through their parent
   field).  Hence each table of the parsed database has exactly the declared settings and a note with the declared text. *)
From PyDBML Require Import PyStr Py Heap Classes Database Tools PP Actions Build Entry MonadFacts RuleFacts ContainerInv ContainerFull TableInv BuildInv BuildLinks BuildRules BuildDocs BuildRefs BuildRaises Frame Counts Sticky ColumnsC.
From Coq Require Import Lia.
Import ListNotations.

Definition tset (tb : table) := (t_name tb, t_schema tb, t_alias tb, t_note tb, t_header_color tb, t_comment tb, t_abstract tb, t_properties tb).
(* tables keep their settings, notes keep their text *)
Definition Rs (h h' : heap) : Prop :=
  (forall x tb, nth_error h x = Some (OTable tb) -> exists tb', nth_error h' x = Some (OTable tb') /\ tset tb' = tset tb) /\
  (forall x nn, nth_error h x = Some (ONote nn) -> exists nn', nth_error h' x = Some (ONote nn') /\ n_text nn' = n_text nn).
Lemma Rs_refl h : Rs h h. Proof. split; intros x o H; eauto. Qed.
Lemma Rs_trans a b c : Rs a b -> Rs b c -> Rs a c.
Proof.
  intros [T1 N1] [T2 N2]. split.
  - intros x tb H. destruct (T1 _ _ H) as (t1 & A & B). destruct (T2 _ _ A) as (t2 & C & D). exists t2. split; [exact C|congruence].
  - intros x nn H. destruct (N1 _ _ H) as (n1 & A & B). destruct (N2 _ _ A) as (n2 & C & D). exists n2. split; [exact C|congruence].
Qed.
Lemma Rs_alloc h ob : Rs h (h ++ [ob]).
Proof. split; intros x o H; exists o; (split; [rewrite nth_error_app1 by (eapply nth_some_lt; exact H); exact H|reflexivity]). Qed.
(* a store over an object that is neither a table nor a note *)
Lemma Rs_store_other h i v : (forall tb, nth_error h i <> Some (OTable tb)) -> (forall nn, nth_error h i <> Some (ONote nn)) -> Rs h (replace_nth i v h).
Proof.
  intros Ht Hn. split; intros x o H; exists o; (split; [|reflexivity]); (destruct (Nat.eq_dec i x) as [->|Ne]; [exfalso; first [eapply Ht; exact H|eapply Hn; exact H]|rewrite nth_replace_other by exact Ne; exact H]).
Qed.
Lemma Rs_store_table h i tb tb' : nth_error h i = Some (OTable tb) -> tset tb' = tset tb -> Rs h (replace_nth i (OTable tb') h).
Proof.
  intros Hi E. split; intros x o H.
  - destruct (Nat.eq_dec i x) as [->|Ne]; [rewrite Hi in H; inversion H; subst; exists tb'; split; [apply nth_replace_same; eapply nth_some_lt; exact Hi|exact E]|].
    exists o. split; [rewrite nth_replace_other by exact Ne; exact H|reflexivity].
  - exists o. split; [|reflexivity]. destruct (Nat.eq_dec i x) as [->|Ne]; [rewrite Hi in H; discriminate H|rewrite nth_replace_other by exact Ne; exact H].
Qed.
Lemma Rs_store_note h i nn nn' : nth_error h i = Some (ONote nn) -> n_text nn' = n_text nn -> Rs h (replace_nth i (ONote nn') h).
Proof.
  intros Hi E. split; intros x o H.
  - exists o. split; [|reflexivity]. destruct (Nat.eq_dec i x) as [->|Ne]; [rewrite Hi in H; discriminate H|rewrite nth_replace_other by exact Ne; exact H].
  - destruct (Nat.eq_dec i x) as [->|Ne]; [rewrite Hi in H; inversion H; subst; exists nn'; split; [apply nth_replace_same; eapply nth_some_lt; exact Hi|exact E]|].
    exists o. split; [rewrite nth_replace_other by exact Ne; exact H|reflexivity].
Qed.

Lemma gs_alloc ob : guar Rs (alloc ob). Proof. intros h h' r H. unfold alloc in H. inversion H; subst. apply Rs_alloc. Qed.
Ltac sstore Hrun Heq :=
  unfold bindM, lookup in Hrun;
  match type of Hrun with context [nth_error ?h ?i] => destruct (nth_error h i) as [ob|] eqn:Heq end;
  [|inversion Hrun; subst; apply Rs_refl].
Ltac other Heq := apply Rs_store_other; intros ?; rewrite Heq; discriminate.
Lemma gs_set_note_parent k p : guar Rs (set_note_parent k p).
Proof. intros h h' r H. unfold set_note_parent, get_note in H. sstore H E. destruct ob; inversion H; subst; try apply Rs_refl. eapply Rs_store_note; [exact E|reflexivity]. Qed.
Lemma gs_upd_table t f : (forall x, tset (f x) = tset x) -> guar Rs (upd_table t f).
Proof. intros Hf h h' r H. unfold upd_table, get_table in H. sstore H E. destruct ob; inversion H; subst; try apply Rs_refl. eapply Rs_store_table; [exact E|apply Hf]. Qed.
Lemma gs_upd_column t f : guar Rs (upd_column t f).
Proof. intros h h' r H. unfold upd_column, get_column in H. sstore H E. destruct ob; inversion H; subst; try apply Rs_refl. other E. Qed.
Lemma gs_upd_index t f : guar Rs (upd_index t f).
Proof. intros h h' r H. unfold upd_index, get_index in H. sstore H E. destruct ob; inversion H; subst; try apply Rs_refl. other E. Qed.
Lemma gs_upd_db t f : guar Rs (upd_db t f).
Proof. intros h h' r H. unfold upd_db, get_database in H. sstore H E. destruct ob; inversion H; subst; try apply Rs_refl. other E. Qed.
Lemma gs_set_obj_database o v : guar Rs (set_obj_database o v).
Proof.
  intros h h' r H. unfold set_obj_database in H. sstore H E.
  destruct ob; inversion H; subst; try apply Rs_refl; try (other E). eapply Rs_store_table; [exact E|reflexivity].
Qed.
Lemma gs_enum_store e f : guar Rs (do! x <- get_enum e ;; match e_items x with
                                    | Some its => store e (OEnum (mkEnum (e_database x) (e_name x) (e_schema x) (e_comment x) (Some (f its))))
                                    | None => raise EAttributeError end).
Proof.
  intros h h' r H. unfold get_enum in H. sstore H E. destruct ob; inversion H; subst; try apply Rs_refl.
  cbv beta iota in H. unfold ret in H. destruct (e_items e0); inversion H; subst; try apply Rs_refl. other E.
Qed.
Ltac gs :=
  repeat first [ apply gs_alloc | apply gs_set_note_parent | apply gs_upd_column | apply gs_upd_index | apply gs_upd_db | apply gs_set_obj_database
               | apply gs_upd_table; intros ?; reflexivity
               | apply (g_ro _ Rs_refl); solve [ro_any | apply ro_lift | apply ro_locate_table | apply ro_group_items | apply ro_table_getitem]
               | apply (g_bind _ Rs_trans); [|intros ?]
               | apply (g_iterM _ Rs_refl Rs_trans); intros ?
               | apply (g_mapMM _ Rs_refl Rs_trans); intros ?
               | match goal with |- guar _ (match ?x with _ => _ end) => destruct x end
               | match goal with |- guar _ (if ?x then _ else _) => destruct x end ].
Lemma gs_new_note_from a : guar Rs (new_note_from a). Proof. unfold new_note_from. gs. Qed.
Lemma gs_enum_add_item e a : guar Rs (enum_add_item e a).
Proof.
  unfold enum_add_item. destruct a as [o|s].
  - apply (g_bind _ Rs_trans); [apply (g_ro _ Rs_refl), ro_lookup|intros ob]. destruct ob; try (apply (g_ro _ Rs_refl), ro_ret). apply (gs_enum_store e (fun its => its ++ [o])).
  - apply (g_bind _ Rs_trans); [unfold new_enumitem; apply (g_bind _ Rs_trans); [apply gs_new_note_from|intros k]; gs|intros i]. apply (gs_enum_store e (fun its => its ++ [i])).
Qed.
Ltac gs2 :=
  repeat first [ apply gs_new_note_from | apply gs_enum_add_item | gs_step_fail
               | apply gs_alloc | apply gs_set_note_parent | apply gs_upd_column | apply gs_upd_index | apply gs_upd_db | apply gs_set_obj_database
               | apply gs_upd_table; intros ?; reflexivity
               | apply (g_ro _ Rs_refl); solve [ro_any | apply ro_lift | apply ro_locate_table | apply ro_group_items | apply ro_table_getitem]
               | apply (g_bind _ Rs_trans); [|intros ?]
               | apply (g_iterM _ Rs_refl Rs_trans); intros ?
               | apply (g_mapMM _ Rs_refl Rs_trans); intros ?
               | match goal with |- guar _ (match ?x with _ => _ end) => destruct x end
               | match goal with |- guar _ (if ?x then _ else _) => destruct x end ]
with gs_step_fail := fail.

Lemma gs_db_add d o : guar Rs (db_add d o).
Proof.
  unfold db_add. apply (g_bind _ Rs_trans); [apply (g_ro _ Rs_refl), ro_lookup|intros ob].
  destruct ob; try (apply (g_ro _ Rs_refl), ro_raise).
  - unfold db_add_table. gs2.
  - unfold db_add_reference. gs2.
  - unfold db_add_enum. gs2.
  - unfold db_add_sticky_note. gs2.
  - unfold db_add_project, db_delete_project. gs2.
  - unfold db_add_table_group. gs2.
Qed.
Lemma gs_build_enum bp : guar Rs (build_enum bp).
Proof. unfold build_enum, build_enum_item, new_enum, new_enumitem. gs2. Qed.
Lemma gs_build_column d bp : guar Rs (build_column d bp). Proof. unfold build_column, new_expr, new_column. gs2. Qed.
Lemma gs_build_index bp : guar Rs (build_index bp). Proof. unfold build_index, new_index. gs2. Qed.
Lemma gs_table_add_column t c : guar Rs (table_add_column t c). Proof. unfold table_add_column. gs2. Qed.
Lemma gs_table_add_index t i : guar Rs (table_add_index t i). Proof. unfold table_add_index. gs2. Qed.
Lemma gs_idx_step t ib : guar Rs (idx_step t ib).
Proof.
  unfold idx_step. apply (g_bind _ Rs_trans); [apply gs_build_index|intros i].
  apply (g_bind _ Rs_trans); [apply (g_mapMM _ Rs_refl Rs_trans); intros s; unfold subject_of, new_expr; gs2|intros subs].
  apply (g_bind _ Rs_trans); [apply gs_upd_index|intros _]. apply gs_table_add_index.
Qed.
Lemma gs_build_table_body d t cols idxs : guar Rs (build_table_body d t cols idxs).
Proof.
  unfold build_table_body. apply (g_bind _ Rs_trans); [apply (g_iterM _ Rs_refl Rs_trans); intros cb; apply (g_bind _ Rs_trans); [apply gs_build_column|intros c; apply gs_table_add_column]|intros _].
  apply (g_bind _ Rs_trans); [apply (g_iterM _ Rs_refl Rs_trans); intros ib; apply gs_idx_step|intros _]. apply (g_ro _ Rs_refl), ro_ret.
Qed.
Lemma gs_build_sticky bp : guar Rs (build_sticky bp). Proof. unfold build_sticky, new_sticky. gs2. Qed.
Lemma gs_build_project bp : guar Rs (build_project bp). Proof. unfold build_project, new_project. gs2. Qed.
Lemma gs_build_group d bp : guar Rs (build_group d bp). Proof. unfold build_group, new_group. gs2. Qed.
Lemma gs_build_reference d bp : guar Rs (build_reference d bp). Proof. unfold build_reference, new_reference. gs2. Qed.
Lemma gs_new_table nm sc al nt hc c ab props : guar Rs (new_table nm sc al [] [] nt hc c ab props).
Proof. unfold new_table. cbn [iterM]. gs2. Qed.
Lemma gs_build_table d bp : guar Rs (build_table d bp).
Proof.
  destruct bp as [| | | | | | |tag dd]; try (unfold build_table; apply (g_ro _ Rs_refl), ro_stuck).
  destruct (N.eq_dec tag 7) as [->|Nt].
  - intros h h' r H. rewrite build_table_eq in H. revert h h' r H.
    apply (g_bind _ Rs_trans); [apply (g_ro _ Rs_refl), ro_lift|intros nt]. apply (g_bind _ Rs_trans); [apply gs_new_table|intros t]. apply gs_build_table_body.
  - unfold build_table. destruct tag as [|p]; [apply (g_ro _ Rs_refl), ro_stuck|].
    destruct p as [q|q|]; try (apply (g_ro _ Rs_refl), ro_stuck). destruct q as [r0|r0|]; try (apply (g_ro _ Rs_refl), ro_stuck).
    destruct r0; try (apply (g_ro _ Rs_refl), ro_stuck). congruence.
Qed.
Lemma gs_build_rest st d : guar Rs (build_rest st d).
Proof.
  unfold build_rest.
  apply (g_bind _ Rs_trans); [apply (g_iterM _ Rs_refl Rs_trans); intros bp; apply (g_bind _ Rs_trans); [apply gs_build_enum|intros x; apply gs_db_add]|intros _].
  apply (g_bind _ Rs_trans); [apply (g_iterM _ Rs_refl Rs_trans); intros bp; apply (g_bind _ Rs_trans); [apply gs_build_table|intros x; apply gs_db_add]|intros _].
  apply (g_bind _ Rs_trans); [apply (g_iterM _ Rs_refl Rs_trans); intros bp; apply (g_bind _ Rs_trans); [apply gs_build_group|intros x; apply gs_db_add]|intros _].
  apply (g_bind _ Rs_trans); [apply (g_iterM _ Rs_refl Rs_trans); intros bp; apply (g_bind _ Rs_trans); [apply gs_build_sticky|intros x; apply gs_db_add]|intros _].
  apply (g_bind _ Rs_trans); [destruct (ps_project st); [apply (g_bind _ Rs_trans); [apply gs_build_project|intros x; apply gs_db_add]|apply (g_ro _ Rs_refl), ro_ret]|intros _].
  apply (g_bind _ Rs_trans); [apply (g_iterM _ Rs_refl Rs_trans); intros bp; apply (g_bind _ Rs_trans); [apply gs_build_reference|intros x; apply gs_db_add]|intros _].
  apply (g_ro _ Rs_refl), ro_ret.
Qed.

From PyDBML Require Import EnumC.

Lemma new_table_exact nm sc al a hc c ab props tx h : note_arg_text a = Some tx ->
  new_table nm sc al [] [] a hc c ab props h =
  (h ++ [ONote (mkNote tx (Some (S (length h)))); OTable (mkTable None nm sc [] [] (or_none al) (length h) hc c ab props)], Ok (S (length h))).
Proof.
  intros Ha. unfold new_table. unfold bindM at 1.
  assert (E : new_note_from a h = (h ++ [ONote (mkNote tx None)], Ok (length h))).
  { destruct a; inversion Ha; subst; reflexivity. }
  rewrite E. cbv beta iota. unfold bindM at 1. unfold alloc at 1. cbv beta iota. cbn [iterM].
  unfold bindM at 1. unfold ret at 1. cbv beta iota. unfold bindM at 1. unfold ret at 1. cbv beta iota.
  unfold bindM at 1. unfold set_note_parent, get_note. unfold bindM at 1. unfold bindM at 1. unfold lookup.
  rewrite <- app_assoc. cbn [app]. rewrite nth_app_len. cbv beta iota. unfold ret. cbv beta iota. unfold store.
  rewrite replace_app_len. rewrite app_length. cbn [length]. rewrite Nat.add_1_r. reflexivity.
Qed.

Lemma nth_app2_0 {A} (h : list A) a b : nth_error (h ++ [a; b]) (length h) = Some a.
Proof. apply nth_app_len. Qed.
Lemma nth_app2_1 {A} (h : list A) a b : nth_error (h ++ [a; b]) (S (length h)) = Some b.
Proof. rewrite nth_error_app2 by lia. replace (S (length h) - length h) with 1 by lia. reflexivity. Qed.

(* what a table blueprint declares about the table itself *)
Definition table_settings_hold (h : heap) (bp : pyv) (t : oid) : Prop :=
  exists dd tb nn a tx, bp = PVBlue 7 dd /\ nth_error h t = Some (OTable tb) /\
    t_name tb = fstr_of dd "name" /\ t_schema tb = Some (match fstr_of dd "schema" with Some s => s | None => K "public" end) /\
    t_alias tb = or_none (fstr_of dd "alias") /\ t_header_color tb = fstr_of dd "header_color" /\ t_comment tb = fstr_of dd "comment" /\
    t_abstract tb = false /\ t_properties tb = fdict_of dd "properties" /\
    nth_error h (t_note tb) = Some (ONote nn) /\ n_text nn = tx /\ note_text_of dd "note" = Ok a /\ note_arg_text a = Some tx.

Lemma settings_Rs h h' bp t : Rs h h' -> table_settings_hold h bp t -> table_settings_hold h' bp t.
Proof.
  intros [RT RN] (dd & tb & nn & a & tx & A & B & C). destruct (RT _ _ B) as (tb' & B' & E). unfold tset in E. inversion E as [[E1 E2 E3 E4 E5 E6 E7 E8]].
  destruct C as (C1 & C2 & C3 & C4 & C5 & C6 & C7 & C8 & C9 & C10 & C11). destruct (RN _ _ C8) as (nn' & N' & En).
  exists dd, tb', nn', a, tx. split; [exact A|]. split; [exact B'|]. rewrite E1, E2, E3, E4, E5, E6, E7, E8, En. repeat split; assumption.
Qed.

Lemma build_table_settings d dd h h' t : build_table d (PVBlue 7 dd) h = (h', Ok t) -> table_settings_hold h' (PVBlue 7 dd) t.
Proof.
  intros H. rewrite build_table_eq in H.
  apply bindM_inv in H as [[e [_ H]]|[a [h1 [H1 H]]]]; [discriminate H|]. unfold lift in H1. destruct (note_text_of dd "note") as [a0|] eqn:En; inversion H1; subst. clear H1.
  destruct (note_text_of_arg _ _ _ En) as (tx & Ha).
  apply bindM_inv in H as [[e [_ H]]|[t0 [h2 [H2 H]]]]; [discriminate H|].
  rewrite (new_table_exact _ _ _ _ _ _ _ _ tx h1 Ha) in H2. inversion H2; subst. clear H2.
  assert (T0 : table_settings_hold (h1 ++ [ONote (mkNote tx (Some (S (length h1)))); OTable (mkTable None (fstr_of dd "name") (Some (match fstr_of dd "schema" with Some s => s | None => K "public" end)) [] [] (or_none (fstr_of dd "alias")) (length h1) (fstr_of dd "header_color") (fstr_of dd "comment") false (fdict_of dd "properties"))]) (PVBlue 7 dd) (S (length h1))).
  { eexists dd, _, _, a, tx. split; [reflexivity|]. split; [apply nth_app2_1|].
    cbn [t_name t_schema t_alias t_header_color t_comment t_abstract t_properties t_note]. repeat split; try reflexivity; try exact Ha; try exact En.
    - apply nth_app2_0.
    - reflexivity. }
  assert (Et : t = S (length h1)).
  { unfold build_table_body in H. apply bindM_inv in H as [[e [_ H]]|[u [h3 [_ H]]]]; [discriminate H|]. apply bindM_inv in H as [[e [_ H]]|[u2 [h4 [_ H]]]]; [discriminate H|]. inversion H. reflexivity. }
  subst t. exact (settings_Rs _ _ _ _ (gs_build_table_body _ _ _ _ _ _ _ H) T0).
Qed.

Lemma settings_phase d refs groups proj stickies : forall l h hfin v db,
  Forall good_table_bp l -> h_database h d = Some db ->
  build_rest (mkPState l refs [] groups proj stickies) d h = (hfin, Ok v) ->
  exists ts hb dbb, iterM (step d) l h = (hb, Ok tt) /\ h_database hb d = Some dbb /\ d_tables dbb = d_tables db ++ ts /\
    Forall2 (table_settings_hold hfin) l ts.
Proof.
  induction l as [|bp l IH]; intros h hfin v db Hg Hdb H.
  - exists [], h, db. rewrite app_nil_r. split; [reflexivity|]. split; [exact Hdb|]. split; [reflexivity|constructor].
  - inversion Hg as [|? ? Hgb Hgl]; subst.
    rewrite build_rest_tables in H. cbn [iterM] in H. unfold bindM at 1 in H. unfold bindM at 1 in H.
    destruct (step d bp h) as [h1 [[]|x]] eqn:E1; [|discriminate H].
    change (build_rest (mkPState l refs [] groups proj stickies) d h1 = (hfin, Ok v)) in H.
    destruct (step_ok_is_table _ _ _ _ E1) as (dd & ->).
    destruct (tstep_fixes d dd h h1 db Hgb Hdb E1) as (t & _ & _ & _ & db1 & Hdb1 & Htl & _ & hx & Bx).
    pose proof (build_table_settings _ _ _ _ _ Bx) as S0.
    assert (Hadd : db_add d t hx = (h1, Ok tt)) by (unfold step in E1; unfold bindM in E1; rewrite Bx in E1; exact E1).
    pose proof (settings_Rs _ _ _ _ (gs_db_add _ _ _ _ _ Hadd) S0) as S1.
    pose proof (settings_Rs _ _ _ _ (gs_build_rest _ _ _ _ _ H) S1) as S2.
    destruct (IH h1 hfin v db1 Hgl Hdb1 H) as (ts & hb & dbb & Hit & Hdbb & Hts & F).
    exists (t :: ts), hb, dbb. split; [cbn [iterM]; unfold bindM; rewrite E1; exact Hit|]. split; [exact Hdbb|].
    split; [rewrite Hts, Htl, <- app_assoc; reflexivity|]. constructor; [exact S2|exact F].
Qed.

Theorem build_database_table_settings s allow sq dq h0 h1 dd :
  WW h0 -> (forall t tb, h_table h0 t = Some tb -> NoDup (names_of tb)) -> Forall good_table_bp (ps_tables s) ->
  build_database s allow sq dq h0 = (h1, Ok dd) ->
  exists db, h_database h1 dd = Some db /\ Forall2 (table_settings_hold h1) (ps_tables s) (d_tables db).
Proof.
  intros HW Hgood Hg H. set (d := length h0).
  destruct (build_database_runs _ _ _ _ _ _ _ H) as (ha & hb & hc & hd & he & -> & A1 & B1 & C1 & D1 & E1 & F1). fold d in A1, B1, C1, D1, E1, F1 |- *.
  set (db0 := mkDatabase [] [] [] [] [] [] None allow sq dq) in *.
  destruct (JTC_initial [] [] h0 allow sq dq HW Hgood) as [HJ0 _]. fold d in HJ0. fold db0 in HJ0.
  assert (Hdb0 : h_database (h0 ++ [ODatabase db0]) d = Some db0).
  { unfold h_database, d. rewrite nth_error_app2 by lia. rewrite Nat.sub_diag. reflexivity. }
  (* enums *)
  destruct (phase_grows d KEnum (estep d) build_enum (ps_enums s)) with (h := h0 ++ [ODatabase db0]) (h' := ha) (db := db0) as [HJa (dba & osa & Hdba & La & Lena & Oa & Fa)]; [|exact HJ0|exact Hdb0|exact A1|].
  { intros bp h h' _ HJ Hst. apply (add_built_grows d (build_enum bp) KEnum h h' HJ); [|apply gdb_of_Rext, gR_build_enum|apply post_build_enum|discriminate|exact Hst].
    intros h1' r Hb. eapply J_Rext; [eapply gR_build_enum; exact Hb|exact HJ]. }
  (* tables *)
  rewrite Forall_forall in Hg.
  destruct (phase_grows d KTable (step d) (build_table d) (ps_tables s)) with (h := ha) (h' := hb) (db := dba) as [HJb (dbb & osb & Hdbb & Lb & Lenb & Ob & Fb)]; [|exact HJa|exact Hdba|exact B1|].
  { intros bp h h' Hin HJ Hst. apply (add_built_grows d (build_table d bp) KTable h h' HJ); [|apply gdb_build_table, Hg, Hin| |discriminate|exact Hst].
    - intros h1' r Hb. exact (proj1 (build_table_keeps_J d bp h h1' r (Hg bp Hin) HJ Hb)).
    - intros hx hy t Hb. apply kind_of_tbl. eapply post_build_table_tbl; exact Hb. }
  (* groups *)
  destruct (phase_grows d KGroup (gstep d) (build_group d) (ps_groups s)) with (h := hb) (h' := hc) (db := dbb) as [HJc (dbc & osc & Hdbc & Lc & Lenc & Oc & Fc)]; [|exact HJb|exact Hdbb|exact C1|].
  { intros bp h h' _ HJ Hst. apply (add_built_grows d (build_group d bp) KGroup h h' HJ); [|apply gdb_of_Rext, gR_build_group|apply post_build_group|discriminate|exact Hst].
    intros h1' r Hb. eapply J_Rext; [eapply gR_build_group; exact Hb|exact HJ]. }
  (* sticky notes *)
  destruct (phase_grows d KSticky (sstep d) build_sticky (ps_stickies s)) with (h := hc) (h' := hd) (db := dbc) as [HJd (dbd & osd & Hdbd & Ld & Lend & Od & Fd)]; [|exact HJc|exact Hdbc|exact D1|].
  { intros bp h h' _ HJ Hst. apply (add_built_grows d (build_sticky bp) KSticky h h' HJ); [|apply gdb_of_Rext, gR_build_sticky|apply post_build_sticky|discriminate|exact Hst].
    intros h1' r Hb. eapply J_Rext; [eapply gR_build_sticky; exact Hb|exact HJ]. }
  (* project *)
  assert (P : J d he /\ exists dbe, h_database he d = Some dbe /\ (forall k', k' <> KProject -> klist k' dbe = klist k' dbd) /\
                                 (d_project dbe = None <-> ps_project s = None /\ d_project dbd = None)).
  { unfold pstep in E1. destruct (ps_project s) as [bp|].
    - apply bindM_inv in E1 as [[e [_ E1]]|[x [hp [X1 X2]]]]; [discriminate E1|].
      assert (HJ1 : J d hp) by (eapply J_Rext; [eapply gR_build_project; exact X1|exact HJd]).
      split; [exact (proj1 (pres_db_add d x _ _ _ HJ1 Logic.I X2))|].
      destruct (J_InvDB _ _ HJ1) as (db1 & ID1 & Hdb1). pose proof (gdb_of_Rext d _ (gR_build_project bp) _ _ _ X1 dbd Hdbd) as Hdb1'. rewrite Hdb1 in Hdb1'. inversion Hdb1'; subst db1.
      destruct (db_add_step hp d dbd x ID1) as [[e R]|(db' & h2 & ob & k0 & Hrun & ID' & Ho & Hk & _ & _ & Hl2 & [Hoth _] & _)].
      { rewrite R in X2. discriminate X2. }
      rewrite Hrun in X2. inversion X2; subst h2.
      destruct (post_build_project _ _ _ _ X1) as (ob' & Hn & Hk'). rewrite Ho in Hn. inversion Hn; subst ob'. rewrite Hk in Hk'. inversion Hk'; subst k0.
      exists db'. split; [destruct ID' as [[A _ _ _ _ _] _ _]; exact A|]. split; [exact Hoth|].
      pose proof (Hl2 eq_refl) as L2. cbn in L2. split; [intros Hn0; rewrite Hn0 in L2; discriminate L2|intros [Hn0 _]; discriminate Hn0].
    - inversion E1; subst. split; [exact HJd|]. exists dbd. split; [exact Hdbd|]. split; [reflexivity|]. tauto. }
  destruct P as [HJe (dbe & Hdbe & Oe & Pe)].
  (* references *)
  destruct (phase_grows d KRef (rstep d) (build_reference d) (ps_refs s)) with (h := he) (h' := h1) (db := dbe) as [HJf (dbf & osf & Hdbf & Lf & Lenf & Of & Ff)]; [|exact HJe|exact Hdbe|exact F1|].
  { intros bp h h' _ HJ Hst. apply (add_built_grows d (build_reference d bp) KRef h h' HJ); [|apply gdb_of_Rext, gR_build_reference|apply post_build_reference|discriminate|exact Hst].
    intros h1' r Hb. eapply J_Rext; [eapply gR_build_reference; exact Hb|exact HJ]. }
  assert (Run : build_rest (mkPState (ps_tables s) (ps_refs s) [] (ps_groups s) (ps_project s) (ps_stickies s)) d ha = (h1, Ok d)).
  { change (bindM (iterM (estep d) []) (fun _ => bindM (iterM (step d) (ps_tables s)) (fun _ => bindM (iterM (gstep d) (ps_groups s)) (fun _ =>
              bindM (iterM (sstep d) (ps_stickies s)) (fun _ => bindM (pstep d (ps_project s)) (fun _ => bindM (iterM (rstep d) (ps_refs s)) (fun _ => ret d)))))) ha = (h1, Ok d)).
    cbn [iterM]. unfold bindM at 1. unfold ret at 1. unfold bindM at 1. rewrite B1. unfold bindM at 1. rewrite C1. unfold bindM at 1. rewrite D1.
    unfold bindM at 1. rewrite E1. unfold bindM at 1. rewrite F1. reflexivity. }
  assert (Hg' : Forall good_table_bp (ps_tables s)) by (apply Forall_forall; exact Hg).
  destruct (settings_phase d (ps_refs s) (ps_groups s) (ps_project s) (ps_stickies s) (ps_tables s) ha h1 d dba Hg' Hdba Run) as (ts & hb' & dbb' & Hit & Hdbb' & Hts & FT).
  rewrite B1 in Hit. inversion Hit; subst hb'. rewrite Hdbb in Hdbb'. inversion Hdbb'; subst dbb'.
  exists dbf. split; [exact Hdbf|].
  assert (Tb : d_tables dbf = ts).
  { change (klist KTable dbf = ts). rewrite (Of KTable ltac:(discriminate)), (Oe KTable ltac:(discriminate)), (Od KTable ltac:(discriminate)), (Oc KTable ltac:(discriminate)).
    change (d_tables dbb = ts). rewrite Hts. change (klist KTable dba ++ ts = ts). rewrite (Oa KTable ltac:(discriminate)). reflexivity. }
  rewrite Tb. exact FT.
Qed.

Theorem parser_parse_table_settings source allow sq dq h0 h1 d :
  WW h0 -> (forall t tb, h_table h0 t = Some tb -> NoDup (names_of tb)) ->
  (forall st, blueprints_of source allow h0 = (h0, Ok st) -> Forall good_table_bp (ps_tables st)) ->
  parser_parse source allow sq dq h0 = (h1, Ok d) ->
  exists st db, blueprints_of source allow h0 = (h0, Ok st) /\ h_database h1 d = Some db /\ Forall2 (table_settings_hold h1) (ps_tables st) (d_tables db).
Proof.
  intros HW Hgood Hbp H. unfold parser_parse in H. apply bindM_inv in H as [[e [_ H]]|[st [hx [H1 H2]]]]; [discriminate H|].
  pose proof (ro_blueprints_of _ _ _ _ _ H1) as ->.
  destruct (build_database_table_settings _ _ _ _ _ _ _ HW Hgood (Hbp st H1) H2) as (db & Hdb & C).
  exists st, db. split; [exact H1|]. split; [exact Hdb|exact C].
Qed.
