(* ApiFacts.v — C17 (inconsistent models are refused), C16 (dispatch), C10 (edit locality). *)
From PyDBML Require Import PyStr Py Heap Classes Tools RenderSQL RenderDBML Script GenClasses GenTie.
Import ListNotations.

Definition is_sql_class (ob : obj) : bool :=
  match ob with
  | OTable _ | OColumn _ | OIndex _ | OReference _ | OEnum _ | OEnumItem _ | ONote _ | OExpr _ => true
  | _ => false
  end.

(* ---- C17: a required attribute (as listed in the source) that is None ---- *)
Lemma sql_render_missing_attribute h o ob :
  nth_error h o = Some ob -> is_sql_class ob = true ->
  check_generic gen_required_attributes ob = Raise EAttributeMissing ->
  sql_render h o = Raise EAttributeMissing.
Proof.
  intros Hn Hc Hg. unfold sql_render. rewrite Hn.
  pose proof (check_attributes_matches_source ob) as M.
  destruct ob; try discriminate Hc; rewrite M, Hg; reflexivity.
Qed.

(* ---- C17: a reference one of whose columns is not attached to a table ---- *)
Definition detached (h : heap) (c : oid) : bool :=
  match h_column h c with Some cc => match c_table cc with None => true | Some _ => false end | None => false end.
Definition is_col (h : heap) (c : oid) : bool := match h_column h c with Some _ => true | None => false end.

Lemma mapM_table_check_detached h l :
  forallb (is_col h) l = true -> existsb (detached h) l = true ->
  mapM (fun c => match h_column h c with
                 | Some cc => match c_table cc with Some _ => Ok tt | None => Raise ETableNotFound end
                 | None => Raise (EStuck 55)
                 end) l = Raise ETableNotFound.
Proof.
  induction l as [|c l IH]; cbn; [discriminate|].
  unfold is_col, detached. intros Hall Hex.
  destruct (h_column h c) as [cc|] eqn:Hc; [|discriminate Hall]. cbn in Hall.
  destruct (c_table cc) eqn:Ht; cbn; [|reflexivity].
  cbn in Hex. fold (detached h) in Hex. rewrite IH; [reflexivity|exact Hall|exact Hex].
Qed.

Lemma validate_detached h r c1 c2 :
  r_col1 r = Some c1 -> r_col2 r = Some c2 ->
  forallb (is_col h) (c1 ++ c2) = true -> existsb (detached h) (c1 ++ c2) = true ->
  validate_ref_cols h r = Raise ETableNotFound.
Proof.
  intros H1 H2 Ha He. unfold validate_ref_cols. rewrite H1, H2.
  rewrite mapM_table_check_detached by assumption. reflexivity.
Qed.

Lemma sql_reference_detached h rid r c1 c2 ty :
  r_type r = Some ty -> r_col1 r = Some c1 -> r_col2 r = Some c2 ->
  forallb (is_col h) (c1 ++ c2) = true -> existsb (detached h) (c1 ++ c2) = true ->
  sql_reference h rid r = Raise ETableNotFound.
Proof.
  intros Ht H1 H2 Ha He. unfold sql_reference. cbn [check_attributes]. rewrite Ht, H1, H2. cbn.
  erewrite validate_detached; eauto.
Qed.

Lemma dbml_reference_detached h r c1 c2 :
  r_col1 r = Some c1 -> r_col2 r = Some c2 ->
  forallb (is_col h) (c1 ++ c2) = true -> existsb (detached h) (c1 ++ c2) = true ->
  dbml_reference h r = Raise ETableNotFound.
Proof.
  intros H1 H2 Ha He. unfold dbml_reference. erewrite validate_detached; eauto.
Qed.

(* ---- C17: one side mixes columns of different tables ---- *)
Lemma ref_validate_mixed_side1 h r c0 rest t0 :
  r_col1 r = Some (c0 :: rest) -> col_table h c0 = Ok t0 ->
  (exists ts, mapM (col_table h) (c0 :: rest) = Ok ts /\ existsb (fun t => negb (otable_eqb h t t0)) ts = true) ->
  ref_validate h r = Raise EDBML.
Proof.
  intros H1 H0 [ts [Hm He]]. unfold ref_validate. rewrite H1, H0. cbn [bind].
  rewrite Hm. cbn [bind]. rewrite He. reflexivity.
Qed.

Lemma ref_table1_mixed h r c0 rest t0 :
  r_col1 r = Some (c0 :: rest) -> col_table h c0 = Ok t0 ->
  (exists ts, mapM (col_table h) (c0 :: rest) = Ok ts /\ existsb (fun t => negb (otable_eqb h t t0)) ts = true) ->
  ref_table1 h r = Raise EDBML.
Proof. intros. unfold ref_table1. erewrite ref_validate_mixed_side1; eauto. Qed.

Lemma dbml_reference_mixed h r c0 rest t0 c2 :
  r_col1 r = Some (c0 :: rest) -> r_col2 r = Some c2 -> col_table h c0 = Ok t0 ->
  (exists ts, mapM (col_table h) (c0 :: rest) = Ok ts /\ existsb (fun t => negb (otable_eqb h t t0)) ts = true) ->
  validate_ref_cols h r = Ok (c0 :: rest, c2) -> ref_inline r = false ->
  dbml_reference h r = Raise EDBML.
Proof.
  intros H1 H2 H0 Hex Hv Hi. unfold dbml_reference. rewrite Hv. cbn [bind]. rewrite Hi.
  erewrite ref_table1_mixed; eauto.
Qed.

(* ---- C17: a composite reference cannot be rendered inline in DBML ---- *)
Lemma dbml_reference_composite_inline h r c1 a b rest :
  validate_ref_cols h r = Ok (c1, a :: b :: rest) -> ref_inline r = true ->
  dbml_reference h r = Raise EDBML.
Proof. intros Hv Hi. unfold dbml_reference. rewrite Hv. cbn [bind]. rewrite Hi. reflexivity. Qed.

(* ---- C17: detached table / column asked for its references ---- *)
Lemma table_get_refs_detached h t tb :
  h_table h t = Some tb -> t_database tb = None ->
  table_get_refs t h = (h, Raise EUnknownDatabase).
Proof.
  intros Ht Hd. unfold table_get_refs, bindM, get_table, lookup, bindM. unfold h_table in Ht.
  destruct (nth_error h t) as [[]|]; try discriminate Ht. inversion Ht; subst. cbn. rewrite Hd. reflexivity.
Qed.

Lemma column_get_refs_detached h c cc :
  h_column h c = Some cc -> c_table cc = None ->
  column_get_refs c h = (h, Raise ETableNotFound).
Proof.
  intros Hc Hd. unfold column_get_refs, bindM, get_column, lookup, bindM. unfold h_column in Hc.
  destruct (nth_error h c) as [[]|]; try discriminate Hc. inversion Hc; subst. cbn. rewrite Hd. reflexivity.
Qed.

(* ---- C16: dispatch through a configured (custom) renderer class ---- *)
Lemma custom_renderer_unsupported rd rs k def h o ob :
  nth_error rs k = Some def -> nth_error h o = Some ob ->
  assocN (kind_code ob) (rd_handlers def) = None ->
  render_generic rd rs (S (S k)) h o = Ok [].
Proof. intros Hr Ho Ha. cbn. rewrite Hr, Ho, Ha. reflexivity. Qed.

Lemma custom_renderer_const rd rs k def h o ob s :
  nth_error rs k = Some def -> nth_error h o = Some ob ->
  assocN (kind_code ob) (rd_handlers def) = Some (HConst s) ->
  render_generic rd rs (S (S k)) h o = Ok s.
Proof. intros Hr Ho Ha. cbn. rewrite Hr, Ho, Ha. reflexivity. Qed.

(* an element attached to a database renders through that database's classes, a detached one
   through the defaults *)
Lemma obj_sql_uses_database_renderer rs h o ob d db :
  nth_error h o = Some ob -> obj_database h ob = Some d -> h_database h d = Some db ->
  match ob with ODatabase _ | OSticky _ | OProject _ | OGroup _ => True
  | _ => obj_sql rs h o = render_via rs (d_sql_renderer db) h o end.
Proof.
  intros Ho Hd Hdb. destruct ob; try exact I; unfold obj_sql; rewrite Ho; unfold db_sql_renderer; rewrite Hd, Hdb; reflexivity.
Qed.

Lemma obj_dbml_uses_database_renderer rs h o ob d db :
  nth_error h o = Some ob -> obj_database h ob = Some d -> h_database h d = Some db ->
  match ob with ODatabase _ => True
  | _ => obj_dbml rs h o = render_via rs (d_dbml_renderer db) h o end.
Proof.
  intros Ho Hd Hdb. destruct ob; try exact I; unfold obj_dbml; rewrite Ho; unfold db_dbml_renderer; rewrite Hd, Hdb; reflexivity.
Qed.

Lemma obj_dbml_detached_uses_default rs h o ob :
  nth_error h o = Some ob -> obj_database h ob = None ->
  match ob with ODatabase _ => True | _ => obj_dbml rs h o = render_via rs 1 h o end.
Proof. intros Ho Hd. destruct ob; try exact I; unfold obj_dbml; rewrite Ho; unfold db_dbml_renderer; rewrite Hd; reflexivity. Qed.

(* the database text is the "\n\n"-join of the texts of its elements, each element once, in the
   stated order; with all elements attached these are the elements' own .dbml *)
Lemma mapM_ext {A B} (f g : A -> res B) l : (forall x, In x l -> f x = g x) -> mapM f l = mapM g l.
Proof.
  induction l as [|x l IH]; intros H; [reflexivity|]. cbn. rewrite (H x (or_introl eq_refl)).
  rewrite IH; [reflexivity|]. intros y Hy. apply H. right. exact Hy.
Qed.

Definition dbml_items (h : heap) (d : database) : list oid :=
  (match d_project d with Some p => [p] | None => [] end) ++ d_enums d ++ d_tables d
  ++ filter (fun rid => match h_reference h rid with Some r => negb (ref_inline r) | None => true end) (d_refs d)
  ++ d_table_groups d ++ d_sticky_notes d.

Lemma database_dbml_is_join rs h did d :
  h_database h did = Some d ->
  (forall o, In o (dbml_items h d) -> exists ob, nth_error h o = Some ob /\ obj_database h ob = Some did
                                               /\ match ob with ODatabase _ => False | _ => True end) ->
  render_db rs (d_dbml_renderer d) h d = dbml_render_db_with (render_via rs (d_dbml_renderer d)) h d ->
  render_db rs (d_dbml_renderer d) h d =
    do comps <- mapM (obj_dbml rs h) (dbml_items h d); Ok (join [cLF; cLF] comps).
Proof.
  intros Hd Hall ->. unfold dbml_render_db_with. fold (dbml_items h d).
  erewrite mapM_ext; [reflexivity|].
  intros o Ho. destruct (Hall o Ho) as [ob [Hn [Hdb Hk]]].
  pose proof (obj_dbml_uses_database_renderer rs h o ob did d Hn Hdb Hd) as E.
  destruct ob; try (symmetry; exact E). destruct Hk.
Qed.

(* ---- C10: an attribute assignment touches the assigned object only (no hidden copies) ---- *)
Lemma replace_nth_other {A} n m (v : A) l : n <> m -> nth_error (replace_nth n v l) m = nth_error l m.
Proof.
  revert n m. induction l as [|x l IH]; intros [|n] [|m] H; cbn; try reflexivity; try congruence.
  apply IH. congruence.
Qed.

Lemma store_other o ob h m : o <> m -> nth_error (fst (store o ob h)) m = nth_error h m.
Proof. intros H. cbn. apply replace_nth_other. exact H. Qed.
