(* Counts.v — C01: nothing dropped, nothing invented, at the level of the lists of the Database.  For every parser state (lists of
   blueprints) on which build_database succeeds, the database holds exactly one table per table blueprint, one enum per enum
   blueprint, one reference per reference blueprint, one group per group blueprint, one sticky note per sticky-note blueprint —
   each list grows by exactly the object built from the next blueprint, in blueprint order, and no step touches another list —
   and a project exactly when a project blueprint was collected. *)
From PyDBML Require Import PyStr Py Heap Classes Database Tools PP Actions Build Entry MonadFacts RuleFacts ContainerInv ContainerFull TableInv BuildInv BuildLinks BuildRules BuildDocs BuildRaises.
From Coq Require Import Lia.
Import ListNotations.

(* one "build the element, add it to the database" step appends exactly the built object to the list of its kind *)
Lemma add_built_grows d (b : M oid) k h h' :
  J d h -> (forall h1 r, b h = (h1, r) -> J d h1) -> guar (Rd d) b -> post b (kind_is k) -> k <> KProject ->
  (do! x <- b ;; db_add d x) h = (h', Ok tt) ->
  J d h' /\ forall db, h_database h d = Some db ->
    exists db' o, h_database h' d = Some db' /\ klist k db' = klist k db ++ [o] /\ (forall k', k' <> k -> klist k' db' = klist k' db) /\
                  (exists hx, b h = (hx, Ok o)).
Proof.
  intros HJ Hb Gd Pk Nk H. apply bindM_inv in H as [[e [_ H]]|[x [h1 [H1 H2]]]]; [discriminate H|].
  pose proof (Hb _ _ H1) as HJ1. split.
  - exact (proj1 (pres_db_add d x _ _ _ HJ1 Logic.I H2)).
  - intros db Hdb. destruct (J_InvDB _ _ HJ1) as (db1 & ID1 & Hdb1). pose proof (Gd _ _ _ H1 db Hdb) as Hdb1'. rewrite Hdb1 in Hdb1'. inversion Hdb1'; subst db1.
    destruct (db_add_step h1 d db x ID1) as [[e R]|(db' & h2 & ob & k0 & Hrun & ID' & Ho & Hk & _ & Hl1 & _ & [Hoth _] & _)].
    { rewrite R in H2. discriminate H2. }
    rewrite Hrun in H2. inversion H2; subst h2.
    destruct (Pk _ _ _ H1) as (ob' & Hn & Hk'). rewrite Ho in Hn. inversion Hn; subst ob'. rewrite Hk in Hk'. inversion Hk'; subst k0.
    exists db', x. split; [destruct ID' as [[A _ _ _ _ _] _ _]; exact A|]. split; [exact (Hl1 Nk)|split; [exact Hoth|exists h1; exact H1]].
Qed.

(* a phase: the list of kind k grows by one object per blueprint, the others stay *)
Lemma phase_grows d k (stepf : pyv -> M unit) (b : pyv -> M oid) l :
  (forall bp h h', In bp l -> J d h -> stepf bp h = (h', Ok tt) ->
     J d h' /\ forall db, h_database h d = Some db ->
       exists db' o, h_database h' d = Some db' /\ klist k db' = klist k db ++ [o] /\ (forall k', k' <> k -> klist k' db' = klist k' db) /\
                     (exists hx, b bp h = (hx, Ok o))) ->
  forall h h' db, J d h -> h_database h d = Some db -> iterM stepf l h = (h', Ok tt) ->
    J d h' /\ exists db' os, h_database h' d = Some db' /\ klist k db' = klist k db ++ os /\ length os = length l /\
                            (forall k', k' <> k -> klist k' db' = klist k' db) /\
                            Forall2 (fun bp o => exists hx hy, b bp hx = (hy, Ok o)) l os.
Proof.
  induction l as [|bp l IH]; intros Hs h h' db HJ Hdb H.
  - cbn in H. inversion H; subst. split; [exact HJ|]. exists db, []. rewrite app_nil_r. repeat split; auto.
  - cbn [iterM] in H. apply bindM_inv in H as [[e [_ H]]|[[] [h1 [H1 H2]]]]; [discriminate H|].
    destruct (Hs bp h h1 (or_introl eq_refl) HJ H1) as [HJ1 G]. destruct (G db Hdb) as (db1 & o & Hdb1 & L1 & O1 & (hx & B1)).
    destruct (IH (fun bp0 a b0 Hin => Hs bp0 a b0 (or_intror Hin)) h1 h' db1 HJ1 Hdb1 H2) as [HJ' (db' & os & Hdb' & L' & Len & O' & F')].
    split; [exact HJ'|]. exists db', (o :: os). split; [exact Hdb'|]. split; [rewrite L', L1, <- app_assoc; reflexivity|].
    split; [cbn; rewrite Len; reflexivity|]. split; [intros k' Nk; rewrite (O' k' Nk); apply O1; exact Nk|].
    constructor; [exists h, hx; exact B1|exact F'].
Qed.

Lemma kind_of_tbl h t : is_tbl h t -> kind_is KTable h t.
Proof. unfold is_tbl, h_table, kind_is. intros H. destruct (nth_error h t) as [[]|]; try (exfalso; apply H; reflexivity). eexists. split; reflexivity. Qed.

Lemma kp_none db : d_project db = None <-> klist KProject db = [].
Proof. cbn. destruct (d_project db); split; intros H; try reflexivity; discriminate H. Qed.

(* o is what b returned for the blueprint bp (in some heap) *)
Definition built_by (b : pyv -> M oid) (bp : pyv) (o : oid) : Prop := exists hx hy, b bp hx = (hy, Ok o).
(* every list of the database is, element by element and in order, what was built from the blueprints of that kind *)
Definition counts_ok (d : oid) (s : pstate) (db : database) : Prop :=
  Forall2 (built_by (build_table d)) (ps_tables s) (d_tables db) /\ Forall2 (built_by build_enum) (ps_enums s) (d_enums db) /\
  Forall2 (built_by (build_reference d)) (ps_refs s) (d_refs db) /\ Forall2 (built_by (build_group d)) (ps_groups s) (d_table_groups db) /\
  Forall2 (built_by build_sticky) (ps_stickies s) (d_sticky_notes db) /\ (d_project db = None <-> ps_project s = None).

Theorem build_database_counts s allow sq dq h0 h1 dd :
  WW h0 -> (forall t tb, h_table h0 t = Some tb -> NoDup (names_of tb)) -> Forall good_table_bp (ps_tables s) ->
  build_database s allow sq dq h0 = (h1, Ok dd) ->
  exists db, h_database h1 dd = Some db /\ counts_ok dd s db.
Proof.
  intros HW Hgood Hg H. set (d := length h0).
  destruct (build_database_runs _ _ _ _ _ _ _ H) as (ha & hb & hc & hd & he & -> & A1 & B1 & C1 & D1 & E1 & F1). fold d in A1, B1, C1, D1, E1, F1 |- *.
  set (db0 := mkDatabase [] [] [] [] [] [] None allow sq dq) in *.
  destruct (JTC_initial [] [] h0 allow sq dq HW Hgood) as [HJ0 _]. fold d in HJ0. fold db0 in HJ0.
  assert (Hdb0 : h_database (h0 ++ [ODatabase db0]) d = Some db0).
  { unfold h_database, d. rewrite nth_error_app2 by lia. rewrite Nat.sub_diag. reflexivity. }
  (* enums *)
  destruct (phase_grows d KEnum (estep d) build_enum (ps_enums s)) with (h := h0 ++ [ODatabase db0]) (h' := ha) (db := db0) as [HJa (dba & osa & Hdba & La & Lena & Oa & Fa)]; [|exact HJ0|exact Hdb0|exact A1|].
  { intros bp h h' _ HJ Hst. apply (add_built_grows d (build_enum bp) KEnum h h' HJ); [|apply gdb_of_Rext, gR_build_enum|apply post_build_enum|discriminate|exact Hst].
    intros h1' r Hb. eapply J_Rext; [eapply gR_build_enum; exact Hb|exact HJ]. }
  (* tables *)
  rewrite Forall_forall in Hg.
  destruct (phase_grows d KTable (step d) (build_table d) (ps_tables s)) with (h := ha) (h' := hb) (db := dba) as [HJb (dbb & osb & Hdbb & Lb & Lenb & Ob & Fb)]; [|exact HJa|exact Hdba|exact B1|].
  { intros bp h h' Hin HJ Hst. apply (add_built_grows d (build_table d bp) KTable h h' HJ); [|apply gdb_build_table, Hg, Hin| |discriminate|exact Hst].
    - intros h1' r Hb. exact (proj1 (build_table_keeps_J d bp h h1' r (Hg bp Hin) HJ Hb)).
    - intros hx hy t Hb. apply kind_of_tbl. eapply post_build_table_tbl; exact Hb. }
  (* groups *)
  destruct (phase_grows d KGroup (gstep d) (build_group d) (ps_groups s)) with (h := hb) (h' := hc) (db := dbb) as [HJc (dbc & osc & Hdbc & Lc & Lenc & Oc & Fc)]; [|exact HJb|exact Hdbb|exact C1|].
  { intros bp h h' _ HJ Hst. apply (add_built_grows d (build_group d bp) KGroup h h' HJ); [|apply gdb_of_Rext, gR_build_group|apply post_build_group|discriminate|exact Hst].
    intros h1' r Hb. eapply J_Rext; [eapply gR_build_group; exact Hb|exact HJ]. }
  (* sticky notes *)
  destruct (phase_grows d KSticky (sstep d) build_sticky (ps_stickies s)) with (h := hc) (h' := hd) (db := dbc) as [HJd (dbd & osd & Hdbd & Ld & Lend & Od & Fd)]; [|exact HJc|exact Hdbc|exact D1|].
  { intros bp h h' _ HJ Hst. apply (add_built_grows d (build_sticky bp) KSticky h h' HJ); [|apply gdb_of_Rext, gR_build_sticky|apply post_build_sticky|discriminate|exact Hst].
    intros h1' r Hb. eapply J_Rext; [eapply gR_build_sticky; exact Hb|exact HJ]. }
  (* project *)
  assert (P : J d he /\ exists dbe, h_database he d = Some dbe /\ (forall k', k' <> KProject -> klist k' dbe = klist k' dbd) /\
                                 (d_project dbe = None <-> ps_project s = None /\ d_project dbd = None)).
  { unfold pstep in E1. destruct (ps_project s) as [bp|].
    - apply bindM_inv in E1 as [[e [_ E1]]|[x [hp [X1 X2]]]]; [discriminate E1|].
      assert (HJ1 : J d hp) by (eapply J_Rext; [eapply gR_build_project; exact X1|exact HJd]).
      split; [exact (proj1 (pres_db_add d x _ _ _ HJ1 Logic.I X2))|].
      destruct (J_InvDB _ _ HJ1) as (db1 & ID1 & Hdb1). pose proof (gdb_of_Rext d _ (gR_build_project bp) _ _ _ X1 dbd Hdbd) as Hdb1'. rewrite Hdb1 in Hdb1'. inversion Hdb1'; subst db1.
      destruct (db_add_step hp d dbd x ID1) as [[e R]|(db' & h2 & ob & k0 & Hrun & ID' & Ho & Hk & _ & _ & Hl2 & [Hoth _] & _)].
      { rewrite R in X2. discriminate X2. }
      rewrite Hrun in X2. inversion X2; subst h2.
      destruct (post_build_project _ _ _ _ X1) as (ob' & Hn & Hk'). rewrite Ho in Hn. inversion Hn; subst ob'. rewrite Hk in Hk'. inversion Hk'; subst k0.
      exists db'. split; [destruct ID' as [[A _ _ _ _ _] _ _]; exact A|]. split; [exact Hoth|].
      pose proof (Hl2 eq_refl) as L2. cbn in L2. split; [intros Hn0; rewrite Hn0 in L2; discriminate L2|intros [Hn0 _]; discriminate Hn0].
    - inversion E1; subst. split; [exact HJd|]. exists dbd. split; [exact Hdbd|]. split; [reflexivity|]. tauto. }
  destruct P as [HJe (dbe & Hdbe & Oe & Pe)].
  (* references *)
  destruct (phase_grows d KRef (rstep d) (build_reference d) (ps_refs s)) with (h := he) (h' := h1) (db := dbe) as [HJf (dbf & osf & Hdbf & Lf & Lenf & Of & Ff)]; [|exact HJe|exact Hdbe|exact F1|].
  { intros bp h h' _ HJ Hst. apply (add_built_grows d (build_reference d bp) KRef h h' HJ); [|apply gdb_of_Rext, gR_build_reference|apply post_build_reference|discriminate|exact Hst].
    intros h1' r Hb. eapply J_Rext; [eapply gR_build_reference; exact Hb|exact HJ]. }
  exists dbf. split; [exact Hdbf|]. unfold counts_ok.
  (* tables *)
  assert (T : d_tables dbf = osb).
  { change (klist KTable dbf = osb). rewrite (Of KTable ltac:(discriminate)), (Oe KTable ltac:(discriminate)), (Od KTable ltac:(discriminate)), (Oc KTable ltac:(discriminate)), Lb, (Oa KTable ltac:(discriminate)). reflexivity. }
  assert (En : d_enums dbf = osa).
  { change (klist KEnum dbf = osa). rewrite (Of KEnum ltac:(discriminate)), (Oe KEnum ltac:(discriminate)), (Od KEnum ltac:(discriminate)), (Oc KEnum ltac:(discriminate)), (Ob KEnum ltac:(discriminate)), La. reflexivity. }
  assert (Rf : d_refs dbf = osf).
  { change (klist KRef dbf = osf). rewrite Lf, (Oe KRef ltac:(discriminate)), (Od KRef ltac:(discriminate)), (Oc KRef ltac:(discriminate)), (Ob KRef ltac:(discriminate)), (Oa KRef ltac:(discriminate)). reflexivity. }
  assert (Gr : d_table_groups dbf = osc).
  { change (klist KGroup dbf = osc). rewrite (Of KGroup ltac:(discriminate)), (Oe KGroup ltac:(discriminate)), (Od KGroup ltac:(discriminate)), Lc, (Ob KGroup ltac:(discriminate)), (Oa KGroup ltac:(discriminate)). reflexivity. }
  assert (St : d_sticky_notes dbf = osd).
  { change (klist KSticky dbf = osd). rewrite (Of KSticky ltac:(discriminate)), (Oe KSticky ltac:(discriminate)), Ld, (Oc KSticky ltac:(discriminate)), (Ob KSticky ltac:(discriminate)), (Oa KSticky ltac:(discriminate)). reflexivity. }
  rewrite T, En, Rf, Gr, St. unfold built_by. split; [exact Fb|]. split; [exact Fa|]. split; [exact Ff|]. split; [exact Fc|]. split; [exact Fd|]. split.
  - intros Hp. apply Pe. apply kp_none. rewrite <- (Of KProject ltac:(discriminate)). apply kp_none. exact Hp.
  - intros Hp. apply kp_none. rewrite (Of KProject ltac:(discriminate)). apply kp_none. apply Pe. split; [exact Hp|].
    apply kp_none. rewrite (Od KProject ltac:(discriminate)), (Oc KProject ltac:(discriminate)), (Ob KProject ltac:(discriminate)), (Oa KProject ltac:(discriminate)). reflexivity.
Qed.

Lemma F2_len {A B} (R : A -> B -> Prop) l l' : Forall2 R l l' -> length l' = length l.
Proof. induction 1; cbn; congruence. Qed.

Corollary build_database_lengths s allow sq dq h0 h1 dd :
  WW h0 -> (forall t tb, h_table h0 t = Some tb -> NoDup (names_of tb)) -> Forall good_table_bp (ps_tables s) ->
  build_database s allow sq dq h0 = (h1, Ok dd) ->
  exists db, h_database h1 dd = Some db /\
    length (d_tables db) = length (ps_tables s) /\ length (d_enums db) = length (ps_enums s) /\
    length (d_refs db) = length (ps_refs s) /\ length (d_table_groups db) = length (ps_groups s) /\
    length (d_sticky_notes db) = length (ps_stickies s) /\ (d_project db = None <-> ps_project s = None).
Proof.
  intros HW Hgood Hg H. destruct (build_database_counts _ _ _ _ _ _ _ HW Hgood Hg H) as (db & Hdb & A & B & C & D & E & F).
  exists db. split; [exact Hdb|].
  rewrite (F2_len _ _ _ A), (F2_len _ _ _ B), (F2_len _ _ _ C), (F2_len _ _ _ D), (F2_len _ _ _ E).
  repeat split; apply F.
Qed.

(* the same for PyDBMLParser.parse: the blueprints are the ones the parse actions collected from the source *)
Theorem parser_parse_counts source allow sq dq h0 h1 d :
  WW h0 -> (forall t tb, h_table h0 t = Some tb -> NoDup (names_of tb)) ->
  (forall st, blueprints_of source allow h0 = (h0, Ok st) -> Forall good_table_bp (ps_tables st)) ->
  parser_parse source allow sq dq h0 = (h1, Ok d) ->
  exists st db, blueprints_of source allow h0 = (h0, Ok st) /\ h_database h1 d = Some db /\ counts_ok d st db.
Proof.
  intros HW Hgood Hbp H. unfold parser_parse in H. apply bindM_inv in H as [[e [_ H]]|[st [hx [H1 H2]]]]; [discriminate H|].
  pose proof (ro_blueprints_of _ _ _ _ _ H1) as ->.
  destruct (build_database_counts _ _ _ _ _ _ _ HW Hgood (Hbp st H1) H2) as (db & Hdb & C).
  exists st, db. split; [exact H1|]. split; [exact Hdb|exact C].
Qed.
