From PyDBML Require Import PyStr Py PP Analyses Actions GenClasses GenGrammar.
Import ListNotations.

(* FirstChar.v — C07: a verified first-character analysis of the regenerated grammar.  [look] computes, for an expression and a
   character c, whether the expression cannot succeed (VF) or can only succeed without consuming (VS) on an input whose next
   character is c; [look_sound] proves the verdict against the interpreter PP.run for every fuel, input and parse-action table.
   Instantiated on the regenerated grammar it gives: a document whose first character is printable and none of  / E N P R T e n p r t
   is rejected, whatever follows. *)
(* what an expression can do on an input whose next character is c (c no whitespace of the element):
   VF  it cannot succeed;  VS  if it succeeds it consumes nothing;  VU  unknown *)
Inductive verdict := VF | VS | VU.
Section Stay.
  Variable env : N -> option pexpr.
  Variable c : ch.
  Definition ws_ok (a : pattrs) : bool := negb (a_skip_ws a) || negb (mem c (a_ws a)).
  Definition head_differs (s : pystr) : bool := match s with x :: _ => negb (N.eqb x c) | [] => false end.
  Definition vor (a b : verdict) : verdict :=      (* alternatives: both are tried *)
    match a, b with VF, x | x, VF => x | VS, VS => VS | _, _ => VU end.
  Fixpoint and_verdict (f : pexpr -> verdict) (l : list pitem) : verdict :=
    match l with
    | [] => VS
    | IErrorStop :: l' => and_verdict f l'
    | IElem e1 :: l' => match f e1 with VF => VF | VS => and_verdict f l' | VU => VU end
    end.
  Definition alt_verdict (f : pexpr -> verdict) (es : list pexpr) : verdict := fold_right (fun e1 acc => vor (f e1) acc) VF es.
  Fixpoint look (n : nat) (e : pexpr) : verdict :=
    match n with
    | O => VU
    | S k =>
      if negb (ws_ok (e_attrs e)) then VU else
      match e_core e with
      | PLit s => match s with [] => VF | x :: _ => if N.eqb x c then VU else VF end
      | PCaseless um _ => match um with x :: _ => if N.eqb x (upper_c c) then VU else VF | [] => VS end
      | PWord init _ _ _ _ _ _ => if mem c init then VU else VF
      | PQuoted q _ _ _ _ _ => match q with x :: _ => if N.eqb x c then VU else VF | [] => VU end
      | PCharsNotIn cs _ _ => if mem c cs then VF else VU
      | PWhite cs _ _ => if mem c cs then VU else VF
      | PAltLits alts => if forallb head_differs alts then VF else VU
      | PLineEnd => if N.eqb c cLF then VU else VF
      | PStringEnd | PNoMatch => VF
      | PWordStart _ | PWordEnd _ | PEmpty => VS
      | PAnd items => and_verdict (look k) items
      | PMatchFirst es | POr es => alt_verdict (look k) es
      | PZeroOrMore e1 | POpt e1 => match look k e1 with VU => VU | _ => VS end
      | POneOrMore e1 | PCombine e1 _ | PSuppress e1 | PGroup e1 | POrigText e1 => look k e1
      | PSkipTo _ _ => VU
      | PForward id => match env id with Some e1 => look k e1 | None => VF end
      | PNotAny _ => VS
      | PFollowedBy e1 => match look k e1 with VF => VF | _ => VS end
      end
    end.
End Stay.

(* ====================== soundness of [look] with respect to the interpreter ====================== *)
Section Sound.
  Variable env : N -> option pexpr.
  Variable act : N -> pystr -> nat -> pr -> action_result.
  Variable src : pystr.
  Variable c : ch.
  Variable rest0 : pystr.

  (* the positions the analysis speaks about: the next character is c *)
  Definition at_c (p : pos) : Prop := exists r, p_rest p = c :: r /\ p_past p = false.

  (* what a verdict says about an outcome obtained at position p *)
  Definition sem (v : verdict) (p : pos) (o : outcome) : Prop :=
    match v with
    | VF => forall p' r eff, o <> POk p' r eff
    | VS => forall p' r eff, o = POk p' r eff -> p' = p
    | VU => True
    end.

  Lemma sem_VF_VS p o : sem VF p o -> sem VS p o.
  Proof. intros H p' r eff E. exfalso. exact (H _ _ _ E). Qed.

  Lemma preparse_at a p : ws_ok c a = true -> at_c p -> preparse a p = p.
  Proof.
    intros Hw (r & Hr & _). unfold preparse. unfold ws_ok in Hw. destruct (a_skip_ws a); [|reflexivity]. cbn in Hw.
    rewrite Hr. cbn [length skip_ws]. rewrite Hr. apply Bool.negb_true_iff in Hw. rewrite Hw. reflexivity.
  Qed.

  Lemma act_loop_pos a loc q : forall l r eff p' r' e', act_loop act src a loc q l r eff = POk p' r' e' -> p' = q.
  Proof.
    induction l as [|g l IH]; intros r eff p' r' e' H; cbn [act_loop] in H; [inversion H; reflexivity|].
    destruct (act g src loc r); try discriminate H; eapply IH; exact H.
  Qed.
  Lemma finish_pos doact a loc q x eff p' r e : finish_with act src doact a loc q x eff = POk p' r e -> p' = q.
  Proof.
    unfold finish_with. destruct doact; [apply act_loop_pos|intros H; inversion H; reflexivity].
  Qed.

  Lemma finish_sem_VS doact a loc q x eff : sem VS q (finish_with act src doact a loc q x eff).
  Proof. intros ? ? ? H. eapply finish_pos; eauto. Qed.

  (* the verdict of a terminal, as [look] computes it *)
  Definition look_terminal (core : pcore) : verdict :=
    match core with
    | PLit s => match s with [] => VF | x :: _ => if N.eqb x c then VU else VF end
    | PCaseless um _ => match um with x :: _ => if N.eqb x (upper_c c) then VU else VF | [] => VS end
    | PWord init _ _ _ _ _ _ => if mem c init then VU else VF
    | PQuoted q _ _ _ _ _ => match q with x :: _ => if N.eqb x c then VU else VF | [] => VU end
    | PCharsNotIn cs _ _ => if mem c cs then VF else VU
    | PWhite cs _ _ => if mem c cs then VU else VF
    | PAltLits alts => if forallb (head_differs c) alts then VF else VU
    | PLineEnd => if N.eqb c cLF then VU else VF
    | PStringEnd | PNoMatch => VF
    | PWordStart _ | PWordEnd _ | PEmpty => VS
    | _ => VU
    end.

  Definition isem (v : verdict) (p : pos) (o : ioutcome) : Prop :=
    match v with
    | VF => forall p' x eff, o <> IOk p' x eff
    | VS => forall p' x eff, o = IOk p' x eff -> p' = p
    | VU => True
    end.

  Lemma terminal_sound core p : at_c p -> isem (look_terminal core) p (run_terminal core p).
  Proof.
    intros (r & Hr & Hpast). destruct core; cbn [look_terminal]; try exact I.
    - (* PLit *) destruct s as [|x s]; cbn [isem].
      + intros p' y eff H. cbn [run_terminal match_prefix] in H. discriminate H.
      + destruct (N.eqb x c) eqn:E; [exact I|]. intros p' y eff H. cbn [run_terminal] in H. rewrite Hr in H. cbn [match_prefix] in H. rewrite E in H. discriminate H.
    - (* PCaseless *) destruct upper_match as [|x um]; cbn [isem].
      + intros p' y eff H. cbn [run_terminal length firstn upper map str_eqb] in H. inversion H. reflexivity.
      + destruct (N.eqb x (upper_c c)) eqn:E; [exact I|]. intros p' y eff H. cbn [run_terminal length] in H. rewrite Hr in H.
        cbn [firstn upper map str_eqb] in H. rewrite N.eqb_sym, E in H. cbn in H. discriminate H.
    - (* PWord *) destruct (mem c init) eqn:E; [exact I|]. intros p' y eff H. cbn [run_terminal] in H. rewrite Hr, E in H. discriminate H.
    - (* PQuoted *) destruct q as [|x q]; [exact I|]. destruct (N.eqb x c) eqn:E; [exact I|]. intros p' y eff H.
      cbn [run_terminal] in H. unfold quoted_scan in H. rewrite Hr in H. cbn [match_prefix] in H. rewrite E in H. discriminate H.
    - (* PCharsNotIn *) destruct (mem c cs) eqn:E; [|exact I]. intros p' y eff H. cbn [run_terminal] in H. rewrite Hr, E in H. discriminate H.
    - (* PWhite *) destruct (mem c cs) eqn:E; [exact I|]. intros p' y eff H. cbn [run_terminal] in H. rewrite Hr, E in H. discriminate H.
    - (* PAltLits *) destruct (forallb (head_differs c) alts) eqn:E; [|exact I]. intros p' y eff H. cbn [run_terminal] in H. rewrite Hpast, Hr in H.
      induction alts as [|a alts IH]; [discriminate H|]. cbn [forallb] in E. apply andb_true_iff in E as [Ea E].
      destruct a as [|x a]; [discriminate Ea|]. cbn [head_differs] in Ea. apply negb_true_iff in Ea. cbn [match_prefix] in H. rewrite Ea in H. exact (IH E H).
    - (* PLineEnd *) destruct (N.eqb c cLF) eqn:E; [exact I|]. intros p' y eff H. cbn [run_terminal] in H. rewrite Hpast, Hr, E in H. discriminate H.
    - (* PStringEnd *) intros p' y eff H. cbn [run_terminal] in H. rewrite Hpast, Hr in H. discriminate H.
    - (* PWordStart *) intros p' y eff H. cbn [run_terminal] in H. rewrite Hr in H.
      destruct (Nat.eqb (p_loc p) 0); [inversion H; reflexivity|].
      destruct (match p_prev p with Some x => mem x cs | None => false end || negb (mem c cs)); [discriminate H|inversion H; reflexivity].
    - (* PWordEnd *) intros p' y eff H. cbn [run_terminal] in H. rewrite Hr in H.
      match type of H with (if ?b then _ else _) = _ => destruct b end; [discriminate H|inversion H; reflexivity].
    - (* PEmpty *) intros p' y eff H. cbn [run_terminal] in H. inversion H. reflexivity.
    - (* PNoMatch *) intros p' y eff H. cbn [run_terminal] in H. discriminate H.
  Qed.

  Lemma sem_notok v p o : (forall p' r eff, o <> POk p' r eff) -> sem v p o.
  Proof. intros H. destruct v; cbn; [exact H|intros p' r eff E; exfalso; exact (H _ _ _ E)|exact I]. Qed.

  Section Loops.
    Variable sub : pexpr -> pos -> bool -> outcome.
    Variable finish : pos -> raw -> list pyv -> outcome.
    Variable f : pexpr -> verdict.
    Hypothesis Hfin : forall q x e, sem VS q (finish q x e).
    Variable p : pos.
    Hypothesis Hp : at_c p.
    Hypothesis Hsub : forall e cp, sem (f e) p (sub e p cp).

    Lemma and_loop_sound : forall l acc eff stop, sem (and_verdict f l) p (and_loop sub finish l p acc eff stop).
    Proof.
      induction l as [|[ei|] l IH]; intros acc eff stop; cbn [and_verdict and_loop].
      - apply Hfin.
      - pose proof (Hsub ei true) as Hs. destruct (f ei) eqn:Ef; cbn [sem] in Hs.
        + apply sem_notok. intros ? ? ? H. destruct (sub ei p true) eqn:E; try discriminate H; [exact (Hs _ _ _ eq_refl)|destruct stop; discriminate H].
        + destruct (sub ei p true) as [p2 r2 eff2| | | |] eqn:E.
          * rewrite (Hs _ _ _ eq_refl). apply IH.
          * apply sem_notok. intros ? ? ? H. destruct stop; discriminate H.
          * apply sem_notok. intros ? ? ? H. discriminate H.
          * apply sem_notok. intros ? ? ? H. discriminate H.
          * apply sem_notok. intros ? ? ? H. discriminate H.
        + exact I.
      - apply IH.
    Qed.

    Lemma sem_vor_l v acc o : v <> VU -> sem acc p o -> sem (vor v acc) p o.
    Proof. destruct v, acc; cbn; intros N H; try exact H; try exact I; try congruence; try (intros p' r eff E; exfalso; exact (H _ _ _ E)). Qed.

    Lemma first_loop_sound : forall l, sem (alt_verdict f l) p (first_loop sub finish p l).
    Proof.
      induction l as [|ei l IH]; cbn [alt_verdict fold_right first_loop].
      - intros ? ? ? H. discriminate H.
      - fold (alt_verdict f l). pose proof (Hsub ei true) as Hs. destruct (f ei) eqn:Ef; cbn [sem] in Hs.
        + destruct (sub ei p true) eqn:E; try (apply sem_notok; intros ? ? ? H; discriminate H).
          * exfalso. exact (Hs _ _ _ eq_refl).
          * apply sem_vor_l; [discriminate|exact IH].
        + destruct (sub ei p true) as [p2 r2 eff2| | | |] eqn:E; try (apply sem_notok; intros ? ? ? H; discriminate H).
          * rewrite (Hs _ _ _ eq_refl). destruct (alt_verdict f l); cbn [vor sem]; try exact I; apply Hfin.
          * apply sem_vor_l; [discriminate|exact IH].
        + destruct (alt_verdict f l); exact I.
    Qed.

    Lemma rep_loop_sound e1 : f e1 <> VU -> forall n acc eff, sem VS p (rep_loop sub finish e1 n p acc eff).
    Proof.
      intros Hne. induction n as [|n IH]; intros acc eff; cbn [rep_loop]; [intros ? ? ? H; discriminate H|].
      pose proof (Hsub e1 true) as Hs. destruct (sub e1 p true) as [p2 r2 eff2| | | |] eqn:E; try (intros ? ? ? H; discriminate H).
      - assert (p2 = p).
        { destruct (f e1); cbn [sem] in Hs; [exfalso; exact (Hs _ _ _ eq_refl)|exact (Hs _ _ _ eq_refl)|congruence]. }
        subst p2. apply IH.
      - apply Hfin.
    Qed.
  End Loops.

  (* ---- Or ---- *)
  Lemma sort_matches_in (m : list (nat * pexpr)) x : In x (sort_matches m) -> In x m.
  Proof.
    unfold sort_matches. induction m as [|y m IH]; cbn [fold_right]; [intros []|].
    set (acc := fold_right _ [] m) in *. intros H.
    assert (G : forall l, In x ((fix ins (l : list (nat * pexpr)) := match l with [] => [y] | z :: r => if Nat.leb (fst z) (fst y) then y :: l else z :: ins r end) l) -> x = y \/ In x l).
    { induction l as [|z l IHl]; cbn; [intros [<-|[]]; left; reflexivity|].
      destruct (Nat.leb (fst z) (fst y)); cbn; [intros [<-|[<-|H']]; auto|intros [<-|H']; [auto|destruct (IHl H'); auto]]. }
    destruct (G _ H) as [->|H']; [left; reflexivity|right; apply IH; exact H'].
  Qed.

  Section OrLoop.
    Variable suba : pexpr -> pos -> bool -> outcome.
    Variable finish : pos -> raw -> list pyv -> outcome.
    Hypothesis Hfin : forall q x e, sem VS q (finish q x e).
    Variable p : pos.
    Variable es : list pexpr.
    Hypothesis Hsub : forall e, In e es -> sem VS p (suba e p true).

    Lemma or_loop_VS hf : forall l longest, (forall x, In x l -> In (snd x) es) ->
      (forall pl r e, longest = Some (pl, r, e) -> pl = p) -> sem VS p (or_loop suba finish hf p l longest).
    Proof.
      induction l as [|[loc1 e1] l IH]; intros longest Hl Hlong; cbn [or_loop].
      - destruct longest as [[[pl r] e]|]; [rewrite (Hlong _ _ _ eq_refl); apply Hfin|destruct hf; intros ? ? ? H; discriminate H].
      - match goal with |- sem _ _ (if ?b then _ else _) => destruct b end.
        + destruct longest as [[[pl r] e]|]; [rewrite (Hlong _ _ _ eq_refl); apply Hfin|intros ? ? ? H; discriminate H].
        + pose proof (Hsub e1 (Hl (loc1, e1) (or_introl eq_refl))) as Hs.
          assert (Hl' : forall x, In x l -> In (snd x) es) by (intros x Hx; apply Hl; right; exact Hx).
          destruct (suba e1 p true) as [p2 r2 eff2| | | |] eqn:E; try (intros ? ? ? H; discriminate H).
          * rewrite (Hs _ _ _ eq_refl). destruct (Nat.leb loc1 (p_loc p)); [apply Hfin|].
            destruct longest as [[[pl r] e]|].
            -- destruct (Nat.ltb (p_loc pl) (p_loc p)); apply IH; try exact Hl'; [intros ? ? ? H; inversion H; reflexivity|exact Hlong].
            -- apply IH; [exact Hl'|intros ? ? ? H; inversion H; reflexivity].
          * apply IH; assumption.
    Qed.
  End OrLoop.

  Lemma find_some_pred {A} (g : A -> bool) l x : find g l = Some x -> g x = true.
  Proof. induction l as [|y l IH]; cbn; [discriminate|]. destruct (g y) eqn:E; [intros H; inversion H; subst; exact E|exact IH]. Qed.

  Section OrMain.
    Variable R : bool -> pexpr -> pos -> bool -> outcome.      (* run f *)
    Variable finish : pos -> raw -> list pyv -> outcome.
    Hypothesis Hfin : forall q x e, sem VS q (finish q x e).
    Variable p : pos.
    Variable es : list pexpr.
    Definition or_outcome (doact : bool) : outcome :=
      let tries := map (fun ei => (ei, R false ei p true)) es in
      if existsb (fun t => match snd t with POutOfFuel => true | _ => false end) tries then POutOfFuel else
      match find (fun t => match snd t with PRaise _ => true | _ => false end) tries with
      | Some (_, o) => o
      | None =>
        let matches := flat_map (fun t => match snd t with POk p2 _ _ => [(p_loc p2, fst t)] | _ => [] end) tries in
        let has_fatal := existsb (fun t => match snd t with PFatal => true | _ => false end) tries in
        match sort_matches matches with
        | [] => if has_fatal then PFatal else PFail
        | (_, best) :: _ =>
            if negb doact then
              match R false best p true with
              | POk p2 r2 eff2 => finish p2 (RRes r2) eff2
              | o => o
              end
            else or_loop (R true) finish has_fatal p (sort_matches matches) None
        end
      end.

    Lemma matches_in : forall x, In x (flat_map (fun t : pexpr * outcome => match snd t with POk p2 _ _ => [(p_loc p2, fst t)] | _ => [] end)
                                               (map (fun ei => (ei, R false ei p true)) es)) -> In (snd x) es.
    Proof.
      intros x H. apply in_flat_map in H as (t & Ht & Hx). apply in_map_iff in Ht as (ei & <- & Hei). cbn [snd fst] in Hx.
      destruct (R false ei p true); try (destruct Hx; fail). destruct Hx as [<-|[]]. exact Hei.
    Qed.

    Lemma or_VS doact : (forall e d, In e es -> sem VS p (R d e p true)) -> sem VS p (or_outcome doact).
    Proof.
      intros Hs. unfold or_outcome. match goal with |- sem _ _ (if ?b then _ else _) => destruct b end; [intros ? ? ? H; discriminate H|].
      destruct (find _ _) as [[e0 o]|] eqn:Ef.
      - apply find_some_pred in Ef. cbn [snd] in Ef. destruct o; try discriminate Ef. intros ? ? ? H; discriminate H.
      - destruct (sort_matches _) as [|[n best] l] eqn:Es; [match goal with |- sem _ _ (if ?b then _ else _) => destruct b end; intros ? ? ? H; discriminate H|].
        assert (Hb : In best es).
        { apply (matches_in (n, best)). apply sort_matches_in. rewrite Es. left. reflexivity. }
        destruct (negb doact).
        + pose proof (Hs best false Hb) as Hsb. destruct (R false best p true) as [p2 r2 eff2| | | |] eqn:E; try (intros ? ? ? H; discriminate H).
          rewrite (Hsb _ _ _ eq_refl). apply Hfin.
        + apply (or_loop_VS (R true) finish Hfin p es (fun e He => Hs e true He)).
          * intros x Hx. apply matches_in. apply sort_matches_in. rewrite Es. exact Hx.
          * intros ? ? ? H. discriminate H.
    Qed.

    Lemma or_VF doact : (forall e d, In e es -> sem VF p (R d e p true)) -> sem VF p (or_outcome doact).
    Proof.
      intros Hs. unfold or_outcome. match goal with |- sem _ _ (if ?b then _ else _) => destruct b end; [intros ? ? ? H; discriminate H|].
      destruct (find _ _) as [[e0 o]|] eqn:Ef.
      - apply find_some_pred in Ef. cbn [snd] in Ef. destruct o; try discriminate Ef. intros ? ? ? H; discriminate H.
      - assert (M : flat_map (fun t : pexpr * outcome => match snd t with POk p2 _ _ => [(p_loc p2, fst t)] | _ => [] end)
                             (map (fun ei => (ei, R false ei p true)) es) = []).
        { clear Ef. induction es as [|ei l IH]; [reflexivity|]. cbn [map flat_map snd fst].
          pose proof (Hs ei false (or_introl eq_refl)) as H1. destruct (R false ei p true) eqn:E; [exfalso; exact (H1 _ _ _ eq_refl)| | | |];
            cbn [app]; apply IH; intros e9 d9 He9; apply Hs; right; exact He9. }
        rewrite M. cbn. match goal with |- forall _ _ _, (if ?b then _ else _) <> _ => destruct b end; intros ? ? ? H; discriminate H.
    Qed.
  End OrMain.

  Lemma alt_verdict_VF (f : pexpr -> verdict) es : alt_verdict f es = VF -> forall e, In e es -> f e = VF.
  Proof.
    induction es as [|x es IH]; cbn [alt_verdict fold_right]; [intros _ e []|]. fold (alt_verdict f es).
    intros H e [<-|He]; destruct (f x), (alt_verdict f es); cbn in H; try discriminate H; try reflexivity; apply IH; try reflexivity; exact He.
  Qed.
  Lemma alt_verdict_VS (f : pexpr -> verdict) es : alt_verdict f es = VS -> forall e, In e es -> f e <> VU.
  Proof.
    induction es as [|x es IH]; cbn [alt_verdict fold_right]; [intros _ e []|]. fold (alt_verdict f es).
    intros H e [<-|He].
    - destruct (f x) eqn:Ex, (alt_verdict f es) eqn:Ea; cbn in H; try discriminate H; congruence.
    - destruct (f x) eqn:Ex, (alt_verdict f es) eqn:Ea; cbn in H; try discriminate H;
        first [ apply IH; [reflexivity|exact He] | rewrite (alt_verdict_VF f es Ea e He); discriminate ].
  Qed.
  Lemma sem_weaken v p o : v <> VU -> sem v p o -> sem VS p o.
  Proof. destruct v; cbn; intros N H; [apply sem_VF_VS; exact H|exact H|congruence]. Qed.

  (* ---- the analysis is sound for the interpreter ---- *)
  Theorem look_sound : forall f k doact e p cp, at_c p -> sem (look env c k e) p (run env act src f doact e p cp).
  Proof.
    induction f as [|f IH]; intros k doact e p cp Hp; [apply sem_notok; intros ? ? ? H; discriminate H|].
    destruct k as [|k]; [exact I|]. cbn [look].
    destruct (ws_ok c (e_attrs e)) eqn:Hw; cbn [negb]; [|exact I].
    cbn [run].
    assert (Epre : (if cp && a_call_preparse (e_attrs e) then preparse (e_attrs e) p else p) = p).
    { destruct (cp && a_call_preparse (e_attrs e)); [apply preparse_at; assumption|reflexivity]. }
    rewrite !Epre.
    set (finish := finish_with act src doact (e_attrs e) (p_loc p)).
    assert (Hfin : forall q x e0, sem VS q (finish q x e0)) by (intros; apply finish_sem_VS).
    assert (Hsub : forall e1 cp1, sem (look env c k e1) p (run env act src f doact e1 p cp1)) by (intros; apply IH; exact Hp).
    destruct (e_core e) as [s|um ret|init body mn mx ms kw rm|q endq esc ml unq cw|cs mn mx|cs mn mx|alts| | |cs|cs| | |items|es|es|e0|e0|e0|e0 incl|e0 joinstr|e0|e0|id|e0|e0|e0] eqn:Ec;
      try (pose proof (terminal_sound _ p Hp : isem (look_terminal (e_core e)) p (run_terminal (e_core e) p)) as HT; rewrite Ec in HT; cbn [look_terminal] in HT).
    (* terminals *)
    1-13: try (unfold outcome_of;
      match goal with
      | |- sem ?v ?pp (match ?t with _ => _ end) =>
          destruct t as [p1 x1 eff1| | | |] eqn:Et; try (apply sem_notok; intros ? ? ? H; discriminate H);
          destruct v eqn:Ev; cbn [isem] in HT; try exact I;
          [exfalso; exact (HT _ _ _ eq_refl)|rewrite (HT _ _ _ eq_refl); apply Hfin]
      end).
    all: try exact I.
    - (* PAnd *) destruct items as [|[e0|] rest]; try (apply sem_notok; intros ? ? ? H; discriminate H).
      cbn [and_verdict]. pose proof (Hsub e0 false) as Hs. destruct (look env c k e0) eqn:E0; cbn [sem] in Hs; [| |exact I].
      + apply sem_notok. intros ? ? ? H. destruct (run env act src f doact e0 p false) eqn:E; try discriminate H. exact (Hs _ _ _ eq_refl).
      + destruct (run env act src f doact e0 p false) as [p1 r1 eff1| | | |] eqn:E; try (apply sem_notok; intros ? ? ? H; discriminate H).
        rewrite (Hs _ _ _ eq_refl). apply (and_loop_sound _ finish (look env c k) Hfin p Hsub).
    - (* PMatchFirst *) apply (first_loop_sound _ finish (look env c k) Hfin p Hsub).
    - (* POr *)
      assert (Epre2 : (if forallb (fun ei => a_call_preparse (e_attrs ei)) es then preparse (e_attrs e) p else p) = p).
      { destruct (forallb _ es); [apply preparse_at; assumption|reflexivity]. }
      rewrite !Epre2. change (sem (alt_verdict (look env c k) es) p (or_outcome (run env act src f) finish p es doact)).
      destruct (alt_verdict (look env c k) es) eqn:Ea; [| |exact I].
      + apply or_VF. intros e1 d1 He1. pose proof (IH k d1 e1 p true Hp) as H1. rewrite (alt_verdict_VF _ _ Ea e1 He1) in H1. exact H1.
      + apply or_VS; [exact Hfin|]. intros e1 d1 He1. pose proof (IH k d1 e1 p true Hp) as H1.
        exact (sem_weaken _ _ _ (alt_verdict_VS _ _ Ea e1 He1) H1).
    - (* PZeroOrMore *) pose proof (Hsub e0 true) as Hs. destruct (look env c k e0) eqn:E0; [| |exact I].
      + destruct (run env act src f doact e0 p true) eqn:E; try (apply sem_notok; intros ? ? ? H; discriminate H); [exfalso; exact (Hs _ _ _ eq_refl)|apply Hfin].
      + destruct (run env act src f doact e0 p true) as [p1 r1 eff1| | | |] eqn:E; try (apply sem_notok; intros ? ? ? H; discriminate H); [|apply Hfin].
        rewrite (Hs _ _ _ eq_refl). apply (rep_loop_sound _ finish (look env c k) Hfin p Hsub). rewrite E0. discriminate.
    - (* POneOrMore *) pose proof (Hsub e0 true) as Hs. destruct (look env c k e0) eqn:E0; [| |exact I].
      + apply sem_notok. intros ? ? ? H. destruct (run env act src f doact e0 p true) eqn:E; try discriminate H. exact (Hs _ _ _ eq_refl).
      + destruct (run env act src f doact e0 p true) as [p1 r1 eff1| | | |] eqn:E; try (apply sem_notok; intros ? ? ? H; discriminate H).
        rewrite (Hs _ _ _ eq_refl). apply (rep_loop_sound _ finish (look env c k) Hfin p Hsub). rewrite E0. discriminate.
    - (* POpt *) pose proof (Hsub e0 false) as Hs. destruct (look env c k e0) eqn:E0; [| |exact I].
      + destruct (run env act src f doact e0 p false) eqn:E; try (apply sem_notok; intros ? ? ? H; discriminate H); [exfalso; exact (Hs _ _ _ eq_refl)|apply Hfin].
      + destruct (run env act src f doact e0 p false) as [p1 r1 eff1| | | |] eqn:E; try (apply sem_notok; intros ? ? ? H; discriminate H); [|apply Hfin].
        rewrite (Hs _ _ _ eq_refl). apply Hfin.
    - (* PCombine *) pose proof (Hsub e0 false) as Hs. destruct (look env c k e0) eqn:E0; [| |exact I];
        (destruct (run env act src f doact e0 p false) as [p1 r1 eff1| | | |] eqn:E; try (apply sem_notok; intros ? ? ? H; discriminate H)).
      + exfalso. exact (Hs _ _ _ eq_refl).
      + rewrite (Hs _ _ _ eq_refl). destruct (as_string_list r1 joinstr); [|intros ? ? ? H; discriminate H].
        destruct (a_rname (e_attrs e)); [destruct (negb _)|]; apply Hfin.
    - (* PSuppress *) pose proof (Hsub e0 false) as Hs. destruct (look env c k e0) eqn:E0; [| |exact I];
        (destruct (run env act src f doact e0 p false) as [p1 r1 eff1| | | |] eqn:E; try (apply sem_notok; intros ? ? ? H; discriminate H)).
      + exfalso. exact (Hs _ _ _ eq_refl).
      + rewrite (Hs _ _ _ eq_refl). apply Hfin.
    - (* PGroup *) pose proof (Hsub e0 false) as Hs. destruct (look env c k e0) eqn:E0; [| |exact I];
        (destruct (run env act src f doact e0 p false) as [p1 r1 eff1| | | |] eqn:E; try (apply sem_notok; intros ? ? ? H; discriminate H)).
      + exfalso. exact (Hs _ _ _ eq_refl).
      + rewrite (Hs _ _ _ eq_refl). apply Hfin.
    - (* PForward *) destruct (env id) as [e1|]; [|intros ? ? ? H; discriminate H].
      pose proof (Hsub e1 false) as Hs. destruct (look env c k e1) eqn:E0; [| |exact I];
        (destruct (run env act src f doact e1 p false) as [p1 r1 eff1| | | |] eqn:E; try (apply sem_notok; intros ? ? ? H; discriminate H)).
      + exfalso. exact (Hs _ _ _ eq_refl).
      + rewrite (Hs _ _ _ eq_refl). apply Hfin.
    - (* POrigText *) pose proof (Hsub e0 true) as Hs. destruct (look env c k e0) eqn:E0; [| |exact I];
        (destruct (run env act src f doact e0 p true) as [p1 r1 eff1| | | |] eqn:E; try (apply sem_notok; intros ? ? ? H; discriminate H)).
      + exfalso. exact (Hs _ _ _ eq_refl).
      + rewrite (Hs _ _ _ eq_refl). apply Hfin.
    - (* PNotAny *) destruct (run env act src f false e0 p true); try (intros ? ? ? H; discriminate H); apply Hfin.
    - (* PFollowedBy *) pose proof (Hsub e0 true) as Hs. destruct (look env c k e0) eqn:E0.
      + apply sem_notok. intros ? ? ? H. destruct (run env act src f doact e0 p true) eqn:E; try discriminate H. exact (Hs _ _ _ eq_refl).
      + destruct (run env act src f doact e0 p true); try (intros ? ? ? H; discriminate H). apply Hfin.
      + destruct (run env act src f doact e0 p true); try (intros ? ? ? H; discriminate H). apply Hfin.
  Qed.
End Sound.

(* ====================== consequences for documents ====================== *)
From PyDBML Require Import Heap Build Entry MonadFacts.

Lemma look_ws_ok env c k e : look env c (S k) e <> VU -> ws_ok c (e_attrs e) = true.
Proof. cbn [look]. destruct (ws_ok c (e_attrs e)); [reflexivity|cbn; congruence]. Qed.

(* a text whose first character is c is not parsed by [top] with parse_all, whenever the analysis has a verdict for c *)
Theorem first_char_rejected env act (c : ch) (rest : pystr) k top fuel ws :
  look env c k top <> VU -> mem c ws = false ->
  forall p r eff, parse_string env act (c :: rest) fuel top ws true <> POk p r eff.
Proof.
  intros Hv Hws p r eff H. destruct k as [|k]; [apply Hv; reflexivity|]. unfold parse_string in H.
  assert (Hp : at_c c (pos_start (c :: rest))) by (exists rest; split; reflexivity).
  pose proof (look_sound env act (c :: rest) c fuel (S k) true top (pos_start (c :: rest)) true Hp) as HS.
  destruct (run env act (c :: rest) fuel true top (pos_start (c :: rest)) true) as [p1 r1 eff1| | | |] eqn:E; try discriminate H.
  destruct (look env c (S k) top) eqn:El; cbn [sem] in HS; [exact (HS _ _ _ eq_refl)| |congruence].
  rewrite (HS _ _ _ eq_refl) in H.
  rewrite (preparse_at c (e_attrs top) (pos_start (c :: rest))) in H; [|apply (look_ws_ok env c k); rewrite El; discriminate|exact Hp].
  cbn [pos_start p_rest length skip_ws] in H. rewrite Hws in H. cbn [p_rest] in H. discriminate H.
Qed.

Lemma expandtabs_head (c : ch) (rest : pystr) : N.eqb c cTAB = false -> exists rest', expandtabs (c :: rest) = c :: rest'.
Proof. intros H. unfold expandtabs. cbn [expandtabs_aux]. rewrite H. destruct (N.eqb c cLF || N.eqb c cCR); eexists; reflexivity. Qed.

(* the characters a document may begin with: for every other character (no TAB, no default whitespace) the parser returns
   no database, whatever follows *)
Definition first_ok (allow : bool) (c : ch) : bool :=
  match look gen_env c 80 (if allow then gen_top_on else gen_top_off) with VU => true | _ => false end.

Lemma blueprints_of_needs_a_parse (source : pystr) (allow : bool) (h h' : heap) (st : pstate) :
  (forall p r eff, parse_string gen_env act (expandtabs source) (parse_fuel (expandtabs source))
                     (if allow then gen_top_on else gen_top_off) gen_default_whitespace
                     (if allow then gen_parse_all_on else gen_parse_all_off) <> POk p r eff) ->
  blueprints_of source allow h <> (h', Ok st).
Proof.
  intros HR H. unfold blueprints_of in H. cbv zeta in H.
  destruct (parse_string gen_env act (expandtabs source) (parse_fuel (expandtabs source))
              (if allow then gen_top_on else gen_top_off) gen_default_whitespace
              (if allow then gen_parse_all_on else gen_parse_all_off)) as [p1 r1 eff1| | |e1|] eqn:E.
  - exact (HR _ _ _ eq_refl).
  - unfold raise in H. discriminate H.
  - unfold raise in H. discriminate H.
  - unfold raise in H. discriminate H.
  - unfold stuck, raise in H. discriminate H.
Qed.

Lemma first_ok_verdict allow c : first_ok allow c = false -> look gen_env c 80 (if allow then gen_top_on else gen_top_off) <> VU.
Proof. unfold first_ok. intros Hf E. rewrite E in Hf. discriminate Hf. Qed.

Lemma parse_all_always (allow : bool) : (if allow then gen_parse_all_on else gen_parse_all_off) = true.
Proof. destruct allow; reflexivity. Qed.

Lemma first_char_no_blueprints (source_rest : pystr) (c : ch) (allow : bool) (h h' : heap) (st : pstate) :
  first_ok allow c = false -> mem c gen_default_whitespace = false -> N.eqb c cTAB = false ->
  blueprints_of (c :: source_rest) allow h <> (h', Ok st).
Proof.
  intros Hf Hws Htab. apply blueprints_of_needs_a_parse.
  destruct (expandtabs_head c source_rest Htab) as (rest' & Ex). rewrite Ex. rewrite parse_all_always.
  exact (first_char_rejected gen_env act c rest' 80 _ _ _ (first_ok_verdict allow c Hf) Hws).
Qed.

Theorem document_first_character (source_rest : pystr) (c : ch) allow sq dq h :
  first_ok allow c = false -> mem c gen_default_whitespace = false -> N.eqb c cTAB = false ->
  forall h' d, parser_parse (c :: source_rest) allow sq dq h <> (h', Ok d).
Proof.
  intros Hf Hws Htab h' d H. unfold parser_parse in H. apply bindM_inv in H as [[e [_ H]]|[st [h1 [B _]]]]; [discriminate H|].
  exact (first_char_no_blueprints source_rest c allow h h1 st Hf Hws Htab B).
Qed.

(* ====================== the regenerated grammar ====================== *)
Definition printable : list ch := map N.of_nat (seq 33 94).
(* '/' and the initials of Enum, Note, Project, Ref, Table / TableGroup in either case *)
Definition may_begin : list ch := [47; 69; 78; 80; 82; 84; 101; 110; 112; 114; 116]%N.

Lemma first_characters_computed :
  forallb (fun c => mem c may_begin
                    || (negb (first_ok false c) && negb (first_ok true c) && negb (mem c gen_default_whitespace) && negb (N.eqb c cTAB)))
          printable = true.
Proof. vm_compute. reflexivity. Qed.

Opaque first_ok.
Theorem stray_first_character_rejected (c : ch) (rest : pystr) allow sq dq h h' d :
  In c printable -> ~ In c may_begin -> parser_parse (c :: rest) allow sq dq h <> (h', Ok d).
Proof.
  intros Hin Hno. pose proof first_characters_computed as F. rewrite forallb_forall in F. specialize (F c Hin).
  assert (M : mem c may_begin = false).
  { destruct (mem c may_begin) eqn:E; [|reflexivity]. exfalso. apply Hno. clear - E.
    induction may_begin as [|x l IH]; [discriminate E|]. cbn [mem] in E. apply orb_true_iff in E as [E|E]; [left; apply N.eqb_eq in E; congruence|right; exact (IH E)]. }
  rewrite M in F. cbn [orb] in F. apply andb_true_iff in F as [F Htab]. apply andb_true_iff in F as [F Hws]. apply andb_true_iff in F as [Foff Fon].
  apply negb_true_iff in Htab, Hws, Foff, Fon.
  apply document_first_character; [destruct allow; [exact Fon|exact Foff]|exact Hws|exact Htab].
Qed.

Transparent first_ok.
(* the hypothesis is satisfiable and the statement is not vacuous: '@' is printable and may not begin a document; 'T' may *)
Example stray_example : In 64%N printable /\ ~ In 64%N may_begin /\ first_ok false 84%N = true.
Proof. split; [vm_compute; tauto|]. split; [intros H; vm_compute in H; repeat destruct H as [H|H]; try discriminate H; exact H|vm_compute; reflexivity]. Qed.
