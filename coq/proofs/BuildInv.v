(* BuildInv.v — C05: PyDBMLParser.build_database establishes the container invariant Inv (ContainerFull / TableInv) for the
   database it returns, for EVERY list of blueprints: every step of every Blueprint.build either extends the heap neutrally
   (new unattached objects; existing objects keep the views the invariants look at) or is a guarded container operation. *)
From PyDBML Require Import PyStr Py Heap Classes Database Tools PP Actions Build MonadFacts RuleFacts ContainerInv ContainerFull TableInv.
From Coq Require Import Lia.
Import ListNotations.

(* ====================== part 1 ====================== *)

(* ---- neutral extension of the heap: existing objects keep both views, new objects are unattached ---- *)
Definition new_ok (ob : obj) : Prop :=
  match ob with
  | OTable tb => t_columns tb = [] /\ t_indexes tb = [] /\ NoDup (names_of tb)
  | OColumn c => c_table c = None
  | OIndex i => i_table i = None
  | _ => True
  end.

Definition views (ob : obj) : cview * dview := (cview_of ob, dview_of ob).

Lemma new_ok_views a b : views a = views b -> new_ok a -> new_ok b.
Proof.
  unfold views. intros E. inversion E as [[E1 E2]]. clear E.
  destruct a, b; unfold cview_of in E1; unfold dview_of in E2; try discriminate E1; try discriminate E2; unfold new_ok; auto.
  - inversion E1; inversion E2. intros (A & B & C). repeat split; congruence.
  - inversion E1. congruence.
  - inversion E1. congruence.
Qed.

Record Rext (h h' : heap) : Prop := {
  re_len : length h <= length h';
  re_old : forall x, x < length h -> option_map views (nth_error h' x) = option_map views (nth_error h x);
  re_new : forall x ob, length h <= x -> nth_error h' x = Some ob -> new_ok ob }.

Lemma Rext_refl h : Rext h h.
Proof. split; [lia|reflexivity|]. intros x ob Hx Hn. apply nth_some_lt in Hn. lia. Qed.

Lemma Rext_trans a b c : Rext a b -> Rext b c -> Rext a c.
Proof.
  intros [L1 O1 N1] [L2 O2 N2]. split; [lia| |].
  - intros x Hx. rewrite O2 by lia. apply O1; exact Hx.
  - intros x ob Hx Hn. destruct (Nat.lt_ge_cases x (length b)) as [Hb|Hb].
    + pose proof (O2 x Hb) as E. rewrite Hn in E. cbn in E. destruct (nth_error b x) as [ob0|] eqn:Eb; [|discriminate E].
      cbn in E. assert (E' : views ob = views ob0) by congruence. eapply new_ok_views; [symmetry; exact E'|]. eapply N1; eauto.
    + eapply N2; eauto.
Qed.

Lemma views_c a b : views a = views b -> cview_of a = cview_of b. Proof. unfold views. congruence. Qed.
Lemma views_d a b : views a = views b -> dview_of a = dview_of b. Proof. unfold views. congruence. Qed.

Lemma Rext_old_obj h h' x ob : Rext h h' -> nth_error h x = Some ob -> exists ob', nth_error h' x = Some ob' /\ views ob' = views ob.
Proof.
  intros [L O N] Hx. pose proof (O x (nth_some_lt _ _ _ Hx)) as E. rewrite Hx in E. cbn in E.
  destruct (nth_error h' x) as [ob'|]; [|discriminate E]. cbn in E. exists ob'. split; [reflexivity|congruence].
Qed.
Lemma Rext_back h h' x ob' : Rext h h' -> nth_error h' x = Some ob' ->
  (x < length h /\ exists ob, nth_error h x = Some ob /\ views ob' = views ob) \/ (length h <= x /\ new_ok ob').
Proof.
  intros [L O N] Hx. destruct (Nat.lt_ge_cases x (length h)) as [Hl|Hl].
  - left. split; [exact Hl|]. pose proof (O x Hl) as E. rewrite Hx in E. cbn in E.
    destruct (nth_error h x) as [ob|]; [|discriminate E]. cbn in E. exists ob. split; [reflexivity|congruence].
  - right. split; [exact Hl|]. eapply N; eauto.
Qed.

Lemma views_table ob tb : views ob = views (OTable tb) ->
  exists tb', ob = OTable tb' /\ t_columns tb' = t_columns tb /\ t_indexes tb' = t_indexes tb /\
              t_database tb' = t_database tb /\ names_of tb' = names_of tb.
Proof.
  unfold views. intros E. inversion E as [[E1 E2]]. clear E.
  destruct ob; unfold cview_of in E1; unfold dview_of in E2; try discriminate E1. inversion E1; inversion E2.
  exists t. split; [reflexivity|]. repeat split; congruence.
Qed.

(* both invariants survive a neutral extension *)
Theorem W_Rext k h h' : Rext h h' -> W k h -> W k h'.
Proof.
  intros R [ND FW BW]. split.
  - intros t tb Ht. apply h_table_nth in Ht. destruct (Rext_back _ _ _ _ R Ht) as [[Hl (ob & A & B)]|[Hl Hn]].
    + symmetry in B. destruct (views_table _ _ B) as (tb0 & -> & C1 & C2 & _).
      assert (Ht0 : h_table h t = Some tb0) by (unfold h_table; rewrite A; reflexivity).
      specialize (ND t tb0 Ht0). destruct k; cbn in *; congruence.
    + destruct Hn as (A & B & _). destruct k; cbn; rewrite ?A, ?B; constructor.
  - intros t tb c Ht Hin. apply h_table_nth in Ht. destruct (Rext_back _ _ _ _ R Ht) as [[Hl (ob & A & B)]|[Hl Hn]].
    + symmetry in B. destruct (views_table _ _ B) as (tb0 & -> & C1 & C2 & _).
      assert (Ht0 : h_table h t = Some tb0) by (unfold h_table; rewrite A; reflexivity).
      assert (Hin0 : In c (children k tb0)) by (destruct k; cbn in *; congruence).
      destruct (FW t tb0 c Ht0 Hin0) as (cob & Hc & Hown).
      destruct (Rext_old_obj _ _ _ _ R Hc) as (cob' & Hc' & Ev). exists cob'. split; [exact Hc'|].
      rewrite (cview_cowner k _ _ (views_c _ _ Ev)). exact Hown.
    + destruct Hn as (A & B & _). destruct k; cbn in Hin; rewrite ?A, ?B in Hin; destruct Hin.
  - intros c ob t Hc Hown. destruct (Rext_back _ _ _ _ R Hc) as [[Hl (ob0 & A & B)]|[Hl Hn]].
    + rewrite (cview_cowner k _ _ (views_c _ _ B)) in Hown. destruct (BW c ob0 t A Hown) as (tb & Ht & Hin).
      apply h_table_nth in Ht. destruct (Rext_old_obj _ _ _ _ R Ht) as (tob' & Ht' & Ev).
      destruct (views_table _ _ Ev) as (tb' & -> & C1 & C2 & _). exists tb'.
      split; [unfold h_table; rewrite Ht'; reflexivity|]. destruct k; cbn in *; congruence.
    + destruct k, ob; try discriminate Hown; cbn in Hown, Hn; congruence.
Qed.

Lemma Rext_db h h' d db : Rext h h' -> h_database h d = Some db -> h_database h' d = Some db.
Proof.
  intros R Hd. apply h_database_nth in Hd. destruct (Rext_old_obj _ _ _ _ R Hd) as (ob' & A & B).
  apply views_d in B. unfold h_database. rewrite A. destruct ob'; try discriminate B. cbn in B. inversion B. reflexivity.
Qed.
Lemma Rext_table_fwd h h' t tb : Rext h h' -> h_table h t = Some tb ->
  exists tb', h_table h' t = Some tb' /\ t_columns tb' = t_columns tb /\ t_indexes tb' = t_indexes tb /\
              t_database tb' = t_database tb /\ names_of tb' = names_of tb.
Proof.
  intros R Ht. apply h_table_nth in Ht. destruct (Rext_old_obj _ _ _ _ R Ht) as (ob' & A & B).
  destruct (views_table _ _ B) as (tb' & -> & C). exists tb'. split; [unfold h_table; rewrite A; reflexivity|exact C].
Qed.

Theorem InvDB_Rext h h' d db : Rext h h' -> InvDB h d db -> InvDB h' d db.
Proof.
  intros R [[Idb Ind Ik Ig If Ib] IM IN].
  split; [split|..]; auto.
  - eapply Rext_db; eauto.
  - intros t tb Ht. apply h_table_nth in Ht. destruct (Rext_back _ _ _ _ R Ht) as [[Hl (ob & A & B)]|[Hl Hn]].
    + symmetry in B. destruct (views_table _ _ B) as (tb0 & -> & _ & _ & _ & En).
      assert (Ht0 : h_table h t = Some tb0) by (unfold h_table; rewrite A; reflexivity).
      rewrite <- En. eapply Ig; eauto.
    + destruct Hn as (_ & _ & C). exact C.
  - intros t Hin. destruct (If t Hin) as (tb & Ht & Hown & Hk).
    destruct (Rext_table_fwd _ _ _ _ R Ht) as (tb' & Ht' & _ & _ & Eo & En). exists tb'. split; [exact Ht'|]. split; [congruence|].
    intros k Hkin. apply Hk. rewrite <- En. exact Hkin.
  - intros k t Hg. destruct (Ib k t Hg) as (Hin & tb & Ht & Hk).
    destruct (Rext_table_fwd _ _ _ _ R Ht) as (tb' & Ht' & _ & _ & Eo & En). split; [exact Hin|]. exists tb'. split; [exact Ht'|]. rewrite En. exact Hk.
  - intros k o Hin. destruct (IM k o Hin) as (ob & A & B & C).
    destruct (Rext_old_obj _ _ _ _ R A) as (ob' & A' & Ev). apply views_d in Ev. exists ob'. split; [exact A'|].
    destruct ob; try discriminate B; destruct ob'; try discriminate Ev; cbn in *; inversion Ev; split; congruence.
Qed.

Theorem Inv_Rext h h' d db : Rext h h' -> Inv h d db -> Inv h' d db.
Proof. intros R [A B]. split; [eapply InvDB_Rext; eauto|intros k; eapply W_Rext; eauto]. Qed.

(* ====================== part 2 ====================== *)

(* ---- computations that only extend the heap neutrally ---- *)
Lemma gR_alloc ob : new_ok ob -> guar Rext (alloc ob).
Proof.
  intros Hn h h' r H. unfold alloc in H. inversion H; subst. split.
  - rewrite app_length. lia.
  - intros x Hx. rewrite nth_error_app1 by exact Hx. reflexivity.
  - intros x ob' Hx Hnth. destruct (Nat.eq_dec x (length h)) as [->|N].
    + rewrite nth_error_app2 in Hnth by lia. rewrite Nat.sub_diag in Hnth. cbn in Hnth. inversion Hnth; subst. exact Hn.
    + apply nth_some_lt in Hnth. rewrite app_length in Hnth. cbn in Hnth. lia.
Qed.

Lemma Rext_store_same h o ob ob' : nth_error h o = Some ob -> views ob' = views ob -> Rext h (replace_nth o ob' h).
Proof.
  intros Ho E. split.
  - rewrite length_replace_nth. lia.
  - intros x Hx. apply (store_same_view views _ _ _ _ Ho E).
  - intros x ob0 Hx Hn. apply nth_some_lt in Hn. rewrite length_replace_nth in Hn. lia.
Qed.

Lemma gR_set_note_parent n p : guar Rext (set_note_parent n p).
Proof.
  intros h h' r H. unfold set_note_parent, get_note, bindM, lookup in H. destruct (nth_error h n) as [ob|] eqn:E.
  - destruct ob; inversion H; subst; try apply Rext_refl. eapply Rext_store_same; [exact E|reflexivity].
  - inversion H; subst. apply Rext_refl.
Qed.

(* filling in the subjects of an index that is not attached yet *)
Lemma upd_index_subjects_Rext i subs h h' r :
  (exists ix, nth_error h i = Some (OIndex ix) /\ i_table ix = None) ->
  upd_index i (fun x => mkIndex (Some subs) (i_table x) (i_name x) (i_unique x) (i_type x) (i_pk x) (i_note x) (i_comment x)) h = (h', r) ->
  Rext h h'.
Proof.
  intros (ix & E & Hd) H. unfold upd_index, get_index, bindM, lookup in H. rewrite E in H. inversion H; subst.
  eapply Rext_store_same; [exact E|]. unfold views, cview_of, dview_of. cbn [i_table i_subjects okind]. rewrite Hd. reflexivity.
Qed.

Ltac gR_step :=
  first [ apply gR_set_note_parent
        | apply gR_alloc; cbn; solve [auto]
        | apply (g_ro _ Rext_refl); solve [ro_any]
        | apply (g_bind _ Rext_trans); [|intros ?]
        | apply (g_iterM _ Rext_refl Rext_trans); intros ?
        | apply (g_mapMM _ Rext_refl Rext_trans); intros ?
        | match goal with |- guar _ (match ?x with _ => _ end) => destruct x end
        | match goal with |- guar _ (if ?x then _ else _) => destruct x end ].
Ltac gR := repeat gR_step.

Lemma gR_new_note_from a : guar Rext (new_note_from a). Proof. unfold new_note_from. gR. Qed.
Lemma gR_new_expr t : guar Rext (new_expr t). Proof. unfold new_expr. gR. Qed.
Lemma gR_new_column n ty u nn pk ai d nt c p : guar Rext (new_column n ty u nn pk ai d nt c p).
Proof. unfold new_column. gR; try apply gR_new_note_from. Qed.
Lemma gR_new_index s n u ty pk nt c : guar Rext (new_index s n u ty pk nt c).
Proof. unfold new_index. gR; try apply gR_new_note_from. Qed.
Lemma gR_new_enumitem n nt c : guar Rext (new_enumitem n nt c).
Proof. unfold new_enumitem. gR; try apply gR_new_note_from. Qed.

Lemma gR_enum_store e f :
  guar Rext (do! x <- get_enum e ;;
             match e_items x with
             | Some its => store e (OEnum (mkEnum (e_database x) (e_name x) (e_schema x) (e_comment x) (Some (f its))))
             | None => raise EAttributeError
             end).
Proof.
  intros h h' r H. unfold get_enum, bindM, lookup in H.
  destruct (nth_error h e) as [[t|c|i|rf|en|ei|n|s|x|p|g|d]|] eqn:E; try (inversion H; subst; apply Rext_refl).
  cbv beta iota in H. unfold ret in H. destruct (e_items en); inversion H; subst; try apply Rext_refl.
  eapply Rext_store_same; [exact E|reflexivity].
Qed.

Lemma gR_enum_add_item e a : guar Rext (enum_add_item e a).
Proof.
  unfold enum_add_item. destruct a as [o|s].
  - apply (g_bind _ Rext_trans); [apply (g_ro _ Rext_refl), ro_lookup|intros ob].
    destruct ob; try (apply (g_ro _ Rext_refl), ro_ret). apply (gR_enum_store e (fun its => its ++ [o])).
  - apply (g_bind _ Rext_trans); [apply gR_new_enumitem|intros i]. apply (gR_enum_store e (fun its => its ++ [i])).
Qed.

Lemma gR_new_enum n items s c : guar Rext (new_enum n items s c).
Proof. unfold new_enum. gR. apply gR_enum_add_item. Qed.
Lemma gR_new_sticky n t : guar Rext (new_sticky n t). Proof. unfold new_sticky. gR. Qed.
Lemma gR_new_project n i nt c : guar Rext (new_project n i nt c).
Proof. unfold new_project. gR; try apply gR_new_note_from. Qed.
Lemma gR_new_group n i c nt col : guar Rext (new_group n i c nt col). Proof. unfold new_group. gR. Qed.
Lemma gR_new_reference ty c1 c2 n c u d i : guar Rext (new_reference ty c1 c2 n c u d i). Proof. unfold new_reference. gR. Qed.

(* ====================== part 3 ====================== *)

Definition J (d : oid) (h : heap) : Prop := exists db, Inv h d db.

Lemma J_Rext d h h' : Rext h h' -> J d h -> J d h'.
Proof. intros R [db I]. exists db. eapply Inv_Rext; eauto. Qed.

(* facts about single objects that survive neutral extensions and table-level steps *)
Definition is_tbl (h : heap) (t : oid) : Prop := h_table h t <> None.
Definition detached_col (h : heap) (c : oid) : Prop := exists cc, nth_error h c = Some (OColumn cc) /\ c_table cc = None.
Definition detached_idx (h : heap) (i : oid) : Prop := exists ix, nth_error h i = Some (OIndex ix) /\ i_table ix = None.

Lemma is_tbl_Rext h h' t : Rext h h' -> is_tbl h t -> is_tbl h' t.
Proof.
  unfold is_tbl. intros R H. destruct (h_table h t) as [tb|] eqn:E; [|congruence].
  destruct (Rext_table_fwd _ _ _ _ R E) as (tb' & E' & _). congruence.
Qed.
Lemma detached_col_Rext h h' c : Rext h h' -> detached_col h c -> detached_col h' c.
Proof.
  intros R (cc & A & B). destruct (Rext_old_obj _ _ _ _ R A) as (ob' & A' & Ev). apply views_c in Ev.
  destruct ob'; try discriminate Ev. cbn in Ev. inversion Ev. exists c0. split; [exact A'|congruence].
Qed.
Lemma detached_idx_Rext h h' c : Rext h h' -> detached_idx h c -> detached_idx h' c.
Proof.
  intros R (cc & A & B). destruct (Rext_old_obj _ _ _ _ R A) as (ob' & A' & Ev). apply views_c in Ev.
  destruct ob'; try discriminate Ev. cbn in Ev. inversion Ev. exists i. split; [exact A'|congruence].
Qed.
Lemma is_tbl_dview h h' t : same_dview h h' -> is_tbl h t -> is_tbl h' t.
Proof.
  unfold is_tbl. intros S H. destruct (h_table h t) as [tb|] eqn:E; [|congruence].
  destruct (same_dview_table _ _ _ _ (same_dview_sym _ _ S) E) as (tb' & E' & _). congruence.
Qed.

(* the object a constructor returns *)
Lemma alloc_then_post {A} ob (g : oid -> M A) (P : heap -> oid -> Prop) :
  (forall h, P (h ++ [ob]) (length h)) -> (forall x, guar Rext (g x)) ->
  (forall h h' x, Rext h h' -> P h x -> P h' x) ->
  forall h h' x, (do! x <- alloc ob ;; do!! g x ;; ret x) h = (h', Ok x) -> P h' x.
Proof.
  intros Hinit Hg Hst h h' x H. unfold bindM at 1 in H. unfold alloc in H. cbv beta iota in H.
  unfold bindM in H. destruct (g (length h) (h ++ [ob])) as [h2 [a|e]] eqn:E; [|discriminate H].
  unfold ret in H. inversion H; subst. eapply Hst; [eapply Hg; eauto|apply Hinit].
Qed.

Lemma new_column_post n ty u nn pk ai d nt c p h h' x :
  new_column n ty u nn pk ai d nt c p h = (h', Ok x) -> detached_col h' x.
Proof.
  unfold new_column. intros H. apply bindM_inv in H as [[e [_ H]]|[nid [h1 [_ H]]]]; [discriminate H|].
  revert H. apply alloc_then_post.
  - intros h0. eexists. split; [rewrite nth_error_app2 by lia; rewrite Nat.sub_diag; reflexivity|reflexivity].
  - intros y. apply gR_set_note_parent.
  - intros a b y. apply detached_col_Rext.
Qed.
Lemma new_index_post s n u ty pk nt c h h' x :
  new_index s n u ty pk nt c h = (h', Ok x) -> detached_idx h' x.
Proof.
  unfold new_index. intros H. apply bindM_inv in H as [[e [_ H]]|[nid [h1 [_ H]]]]; [discriminate H|].
  revert H. apply alloc_then_post.
  - intros h0. eexists. split; [rewrite nth_error_app2 by lia; rewrite Nat.sub_diag; reflexivity|reflexivity].
  - intros y. apply gR_set_note_parent.
  - intros a b y. apply detached_idx_Rext.
Qed.

(* build_column / build_index: neutral, and the result is detached *)
Lemma gR_lift {A} (r : res A) : guar Rext (lift r). Proof. apply (g_ro _ Rext_refl), ro_lift. Qed.

Ltac gRb := gR; try first [apply gR_new_expr | apply gR_new_column | apply gR_new_index | apply gR_lift | apply gR_new_note_from
                          | apply gR_new_enumitem | apply gR_new_enum | apply gR_new_sticky | apply gR_new_project
                          | apply gR_new_group | apply gR_new_reference ].
Lemma gR_build_column d bp : guar Rext (build_column d bp).
Proof. unfold build_column. gRb. Qed.
Lemma gR_build_index bp : guar Rext (build_index bp).
Proof. unfold build_index. gRb. Qed.

(* postconditions on the returned object, in the final heap *)
Definition post {A} (m : M A) (P : heap -> A -> Prop) : Prop := forall h h' x, m h = (h', Ok x) -> P h' x.
Lemma post_bind {A B} (m : M A) (f : A -> M B) P : (forall a, post (f a) P) -> post (bindM m f) P.
Proof.
  intros Hf h h' x H. apply bindM_inv in H as [[e [_ H]]|[a [h1 [_ H]]]]; [discriminate H|]. eapply Hf; eauto.
Qed.
Lemma post_raise {A} e (P : heap -> A -> Prop) : post (raise e) P. Proof. intros h h' x H. discriminate H. Qed.
Lemma post_stuck {A} n (P : heap -> A -> Prop) : post (stuck n) P. Proof. intros h h' x H. discriminate H. Qed.

Lemma post_new_column n ty u nn pk ai d nt c p : post (new_column n ty u nn pk ai d nt c p) detached_col.
Proof. intros h h' x H. eapply new_column_post; eauto. Qed.
Lemma post_new_index s n u ty pk nt c : post (new_index s n u ty pk nt c) detached_idx.
Proof. intros h h' x H. eapply new_index_post; eauto. Qed.

Ltac postb :=
  repeat first [ apply post_new_column | apply post_new_index | apply post_raise | apply post_stuck
               | apply post_bind; intros ?
               | match goal with |- post (match ?x with _ => _ end) _ => destruct x end
               | match goal with |- post (if ?x then _ else _) _ => destruct x end ].

Lemma post_build_column d bp : post (build_column d bp) detached_col.
Proof. unfold build_column. postb. Qed.
Lemma post_build_index bp : post (build_index bp) detached_idx.
Proof. unfold build_index. postb. Qed.

(* ====================== part 4 ====================== *)

(* J and a stable side fact P are kept by m, whatever its outcome *)
Definition pres {A} (d : oid) (P : heap -> Prop) (m : M A) : Prop :=
  forall h h' r, J d h -> P h -> m h = (h', r) -> J d h' /\ P h'.

Lemma pres_bind {A B} d P (m : M A) (f : A -> M B) : pres d P m -> (forall a, pres d P (f a)) -> pres d P (bindM m f).
Proof.
  intros Hm Hf h h' r HJ HP H. apply bindM_inv in H as [[e [H1 _]]|[a [h1 [H1 H2]]]].
  - eapply Hm; eauto.
  - destruct (Hm _ _ _ HJ HP H1) as [HJ1 HP1]. eapply Hf; eauto.
Qed.
Lemma pres_iterM {A} d P (f : A -> M unit) l : (forall a, pres d P (f a)) -> pres d P (iterM f l).
Proof.
  intros Hf. induction l as [|x l IH]; cbn [iterM].
  - intros h h' r HJ HP H. inversion H; subst. auto.
  - apply pres_bind; [apply Hf|intros _; exact IH].
Qed.
Lemma pres_Rext {A} d (P : heap -> Prop) (m : M A) : guar Rext m -> (forall h h', Rext h h' -> P h -> P h') -> pres d P m.
Proof. intros G St h h' r HJ HP H. pose proof (G _ _ _ H) as R. split; [eapply J_Rext; eauto|eapply St; eauto]. Qed.

(* one column of a table under construction *)
Lemma pres_add_built_column d t cb : pres d (fun h => is_tbl h t) (do! c <- build_column d cb ;; table_add_column t c).
Proof.
  intros h h' r HJ HP H. apply bindM_inv in H as [[e [H1 _]]|[c [h1 [H1 H2]]]].
  - pose proof (gR_build_column _ _ _ _ _ H1) as R. split; [eapply J_Rext; eauto|eapply is_tbl_Rext; eauto].
  - pose proof (gR_build_column _ _ _ _ _ H1) as R. pose proof (post_build_column _ _ _ _ _ H1) as (cc & Hc & Hd).
    assert (HJ1 : J d h1) by (eapply J_Rext; eauto). assert (HP1 : is_tbl h1 t) by (eapply is_tbl_Rext; eauto).
    destruct HJ1 as [db I]. split.
    + assert (G : cguard h1 (CAddCol t c)).
      { split; [exact HP1|]. intros cc' Hc'. rewrite Hc in Hc'. inversion Hc'; subst. exact Hd. }
      destruct (inv_step h1 d db (CAddCol t c) I G) as [db' I']. cbn [cexec] in I'. rewrite H2 in I'. exists db'. exact I'.
    + eapply is_tbl_dview; [|exact HP1]. eapply gd_table_add_column; eauto.
Qed.

(* one index of a table under construction *)
Definition subject_of (t : oid) (s : pyv) : M subject :=
  match s with
  | PVBlue 3 xd => match dget (K "text") xd with
                   | Some (PVStr tx) => do! x <- new_expr tx ;; ret (SubExpr x)
                   | _ => stuck 409
                   end
  | PVStr nm =>
      do! tb <- get_table t ;; do! h <- get_heap ;;
      match find (fun c => match h_column h c with
                           | Some cc => ostr_eqb (c_name cc) (Some nm)
                           | None => false
                           end) (t_columns tb) with
      | Some c => ret (SubCol c)
      | None => raise EColumnNotFound
      end
  | _ => stuck 410
  end.
Lemma gR_subject_of t s : guar Rext (subject_of t s).
Proof. unfold subject_of. gRb. Qed.

Definition set_subjects (subs : list subject) (x : index) : index :=
  mkIndex (Some subs) (i_table x) (i_name x) (i_unique x) (i_type x) (i_pk x) (i_note x) (i_comment x).

Lemma pres_add_built_index d t ib l :
  pres d (fun h => is_tbl h t)
    (do! i <- build_index ib ;; do! subs <- mapMM (subject_of t) l ;; do!! upd_index i (set_subjects subs) ;; table_add_index t i).
Proof.
  intros h h' r HJ HP H. apply bindM_inv in H as [[e [H1 _]]|[i [h1 [H1 H2]]]].
  { pose proof (gR_build_index _ _ _ _ H1) as R. split; [eapply J_Rext; eauto|eapply is_tbl_Rext; eauto]. }
  pose proof (gR_build_index _ _ _ _ H1) as R1. pose proof (post_build_index _ _ _ _ H1) as Hdi.
  apply bindM_inv in H2 as [[e [H3 _]]|[subs [h2 [H3 H4]]]].
  { pose proof (g_mapMM _ Rext_refl Rext_trans (subject_of t) l (gR_subject_of t) _ _ _ H3) as R2.
    pose proof (Rext_trans _ _ _ R1 R2) as R. split; [eapply J_Rext; eauto|eapply is_tbl_Rext; eauto]. }
  pose proof (g_mapMM _ Rext_refl Rext_trans (subject_of t) l (gR_subject_of t) _ _ _ H3) as R2.
  pose proof (detached_idx_Rext _ _ _ R2 Hdi) as Hdi2.
  apply bindM_inv in H4 as [[e [H5 _]]|[u [h3 [H5 H6]]]].
  { pose proof (upd_index_subjects_Rext _ _ _ _ _ Hdi2 H5) as R3.
    pose proof (Rext_trans _ _ _ (Rext_trans _ _ _ R1 R2) R3) as R. split; [eapply J_Rext; eauto|eapply is_tbl_Rext; eauto]. }
  pose proof (upd_index_subjects_Rext _ _ _ _ _ Hdi2 H5) as R3.
  pose proof (Rext_trans _ _ _ (Rext_trans _ _ _ R1 R2) R3) as R.
  assert (HJ3 : J d h3) by (eapply J_Rext; eauto). assert (HP3 : is_tbl h3 t) by (eapply is_tbl_Rext; eauto).
  assert (Hdi3 : detached_idx h3 i) by (eapply detached_idx_Rext; [exact (Rext_trans _ _ _ R2 R3)|exact Hdi]).
  destruct Hdi3 as (ix & Hi & Hd). destruct HJ3 as [db I]. split.
  - assert (G : cguard h3 (CAddIdx t i)).
    { split; [exact HP3|]. intros ix' Hi'. rewrite Hi in Hi'. inversion Hi'; subst. exact Hd. }
    destruct (inv_step h3 d db (CAddIdx t i) I G) as [db' I']. cbn [cexec] in I'. rewrite H6 in I'. exists db'. exact I'.
  - eapply is_tbl_dview; [|exact HP3]. eapply gd_table_add_index; eauto.
Qed.

(* ====================== part 5 ====================== *)

(* the table blueprint does not give the table an alias equal to its own full name (defect D36) *)
Definition bp_schema (dd : list (pystr * pyv)) : pystr := match fstr_of dd "schema" with Some s => s | None => K "public" end.
Definition good_table_bp (bp : pyv) : Prop :=
  match bp with
  | PVBlue 7 dd =>
      let full := bp_schema dd ++ 46%N :: fstr (fstr_of dd "name") in
      truthy (or_none (fstr_of dd "alias")) = true -> fstr (or_none (fstr_of dd "alias")) <> full
  | _ => True
  end.

Lemma names_nodup name schema alias nt hc c ab props :
  (truthy alias = true -> fstr alias <> fstr schema ++ 46%N :: fstr name) ->
  NoDup (names_of (mkTable None name schema [] [] alias nt hc c ab props)).
Proof.
  intros H. unfold names_of, table_full_name. cbn [t_schema t_name t_alias]. destruct (truthy alias) eqn:E.
  - constructor; [|constructor; [intros []|constructor]]. intros [X|[]]. apply H; auto.
  - constructor; [intros []|constructor].
Qed.

Lemma new_table_empty_Rext name schema alias nt hc c ab props :
  (truthy (or_none alias) = true -> fstr (or_none alias) <> fstr schema ++ 46%N :: fstr name) ->
  guar Rext (new_table name schema alias [] [] nt hc c ab props).
Proof.
  intros Hgood. unfold new_table. cbn [iterM].
  apply (g_bind _ Rext_trans); [apply gR_new_note_from|intros n].
  apply (g_bind _ Rext_trans); [apply gR_alloc|intros t].
  - cbn [new_ok t_columns t_indexes]. split; [reflexivity|split; [reflexivity|]]. apply names_nodup. exact Hgood.
  - gR.
Qed.

Lemma new_table_empty_post name schema alias nt hc c ab props :
  post (new_table name schema alias [] [] nt hc c ab props) is_tbl.
Proof.
  unfold new_table. cbn [iterM]. apply post_bind; intros n.
  intros h h' x H. unfold bindM at 1 in H. unfold alloc in H. cbv beta iota in H.
  apply bindM_inv in H as [[e [_ H]]|[u1 [h1 [H1 H]]]]; [discriminate H|]. unfold ret in H1. injection H1 as E1 _. subst h1.
  apply bindM_inv in H as [[e [_ H]]|[u2 [h2 [H2 H]]]]; [discriminate H|]. unfold ret in H2. injection H2 as E2 _. subst h2.
  apply bindM_inv in H as [[e [_ H]]|[u3 [h3 [H3 H]]]]; [discriminate H|].
  unfold ret in H. injection H as E4 E5. subst. eapply is_tbl_Rext; [eapply gR_set_note_parent; eauto|].
  unfold is_tbl, h_table. rewrite nth_error_app2 by lia. rewrite Nat.sub_diag. cbn. discriminate.
Qed.

Theorem build_table_keeps_J d bp h h' r : good_table_bp bp -> J d h -> build_table d bp h = (h', r) -> J d h' /\ (forall t, r = Ok t -> is_tbl h' t).
Proof.
  intros Hg HJ H. unfold build_table in H.
  destruct bp as [s0|b0|z0|f0| |d0|l0|tag dd]; try (inversion H; subst; split; [exact HJ|intros; discriminate]).
  destruct (N.eq_dec tag 7) as [->|Nt].
  2:{ assert (E : (h', r) = (h, Raise (EStuck 411))).
      { rewrite <- H. destruct tag as [|p]; [reflexivity|].
        destruct p as [q|q|]; try reflexivity. destruct q as [r0|r0|]; try reflexivity. destruct r0; try reflexivity. congruence. }
      inversion E; subst. split; [exact HJ|intros; discriminate]. }
  apply bindM_inv in H as [[e [H1 ->]]|[nt [h1 [H1 H]]]].
  { unfold lift in H1. assert (h' = h) by congruence. subst h'. split; [exact HJ|intros; discriminate]. }
  assert (h1 = h) by (unfold lift in H1; congruence). subst h1.
  apply bindM_inv in H as [[e [H2 ->]]|[t [h2 [H2 H]]]].
  { split; [|intros; discriminate]. eapply J_Rext; [|exact HJ]. eapply new_table_empty_Rext; [|exact H2]. exact Hg. }
  assert (R2 : Rext h h2) by (eapply new_table_empty_Rext; [|exact H2]; exact Hg).
  assert (HJ2 : J d h2) by (eapply J_Rext; eauto). assert (HP2 : is_tbl h2 t) by (eapply new_table_empty_post; eauto).
  apply bindM_inv in H as [[e [H3 ->]]|[u3 [h3 [H3 H]]]].
  { split; [|intros; discriminate]. eapply (pres_iterM d (fun h => is_tbl h t)); [intros cb; apply pres_add_built_column|exact HJ2|exact HP2|exact H3]. }
  destruct (pres_iterM d (fun h => is_tbl h t) _ _ (fun cb => pres_add_built_column d t cb) _ _ _ HJ2 HP2 H3) as [HJ3 HP3].
  apply bindM_inv in H as [[e [H4 ->]]|[u4 [h4 [H4 H]]]].
  { split; [|intros; discriminate].
    eapply (pres_iterM d (fun h => is_tbl h t)); [intros ib|exact HJ3|exact HP3|exact H4].
    apply (pres_add_built_index d t ib). }
  destruct (pres_iterM d (fun h => is_tbl h t) _ _ (fun ib => pres_add_built_index d t ib _) _ _ _ HJ3 HP3 H4) as [HJ4 HP4].
  inversion H; subst. split; [exact HJ4|]. intros t0 E. inversion E; subst. exact HP4.
Qed.

(* ====================== part 6 ====================== *)

Lemma ro_locate_table d s n : readonly (locate_table d s n).
Proof. unfold locate_table. ro; apply ro_get_database. Qed.
Lemma ro_table_getitem t k : readonly (table_getitem t k).
Proof. unfold table_getitem. ro; apply ro_get_table. Qed.

Lemma gR_build_enum_item bp : guar Rext (build_enum_item bp). Proof. unfold build_enum_item. gRb. Qed.
Lemma gR_build_enum bp : guar Rext (build_enum bp).
Proof. unfold build_enum. gR; try first [apply gR_build_enum_item | apply gR_new_enum | apply gR_enum_add_item]. Qed.
Lemma gR_build_sticky bp : guar Rext (build_sticky bp). Proof. unfold build_sticky. gRb. Qed.
Lemma gR_build_project bp : guar Rext (build_project bp). Proof. unfold build_project. gRb. Qed.
Lemma gR_build_reference d bp : guar Rext (build_reference d bp).
Proof.
  unfold build_reference. gR; try apply gR_new_reference;
    try (apply (g_ro _ Rext_refl); first [apply ro_locate_table | apply ro_table_getitem]).
Qed.

Lemma ro_group_items d l : forall acc, readonly (group_items d l acc).
Proof.
  induction l as [|x l IH]; intros acc; cbn [group_items]; [apply ro_ret|].
  destruct x; try apply ro_stuck.
  match goal with |- readonly (let '(sc, tb) := ?e in _) => destruct e as [sc tb] end.
  apply ro_bind; [apply ro_locate_table|intros t]. apply ro_bind; [apply ro_get_heap|intros h].
  destruct (list_has (table_eqb h) t acc); [apply ro_raise|apply IH].
Qed.

Lemma gR_build_group d bp : guar Rext (build_group d bp).
Proof.
  unfold build_group. destruct bp as [s0|b0|z0|f0| |d0|l0|tag dd]; try (apply (g_ro _ Rext_refl), ro_stuck).
  destruct tag as [|p]; try (apply (g_ro _ Rext_refl), ro_stuck).
  destruct p as [q|q|]; try (apply (g_ro _ Rext_refl), ro_stuck).
  destruct q as [r0|r0|]; try (apply (g_ro _ Rext_refl), ro_stuck).
  destruct r0 as [r1|r1|]; try (apply (g_ro _ Rext_refl), ro_stuck).
  destruct r1; try (apply (g_ro _ Rext_refl), ro_stuck).
  apply (g_bind _ Rext_trans); [apply (g_ro _ Rext_refl); apply (ro_group_items d (flist_of dd "items") [])|intros items].
  gRb.
Qed.

(* ---- PyDBMLParser.build_database ---- *)
Lemma pres_iterM_in {A} d P (f : A -> M unit) l : (forall a, In a l -> pres d P (f a)) -> pres d P (iterM f l).
Proof.
  induction l as [|x l IH]; intros Hf; cbn [iterM].
  - intros h h' r HJ HP H. inversion H; subst. auto.
  - apply pres_bind; [apply Hf; left; reflexivity|intros _; apply IH; intros a Ha; apply Hf; right; exact Ha].
Qed.

Lemma pres_db_add d o : pres d (fun _ => True) (db_add d o).
Proof.
  intros h h' r [db I] _ H. split; [|exact Logic.I]. destruct (inv_db_add h d db o I) as [db' I']. rewrite H in I'. exists db'. exact I'.
Qed.

Lemma pres_build_then_add {A} d (b : A -> M oid) bp : guar Rext (b bp) -> pres d (fun _ => True) (do! x <- b bp ;; db_add d x).
Proof.
  intros G. apply pres_bind; [apply pres_Rext; [exact G|auto]|intros x; apply pres_db_add].
Qed.

Lemma pres_table_then_add d bp : good_table_bp bp -> pres d (fun _ => True) (do! t <- build_table d bp ;; db_add d t).
Proof.
  intros Hg h h' r HJ _ H. split; [|exact Logic.I]. apply bindM_inv in H as [[e [H1 _]]|[t [h1 [H1 H2]]]].
  - eapply build_table_keeps_J; eauto.
  - destruct (build_table_keeps_J d bp h h1 (Ok t) Hg HJ H1) as [HJ1 _]. eapply pres_db_add; eauto.
Qed.

Theorem build_database_keeps_J s d :
  Forall good_table_bp (ps_tables s) ->
  pres d (fun _ => True)
    (do!! iterM (fun bp => do! e <- build_enum bp ;; db_add d e) (ps_enums s) ;;
     do!! iterM (fun bp => do! t <- build_table d bp ;; db_add d t) (ps_tables s) ;;
     do!! iterM (fun bp => do! g <- build_group d bp ;; db_add d g) (ps_groups s) ;;
     do!! iterM (fun bp => do! n <- build_sticky bp ;; db_add d n) (ps_stickies s) ;;
     do!! (match ps_project s with
           | Some bp => do! p <- build_project bp ;; db_add d p
           | None => ret tt
           end) ;;
     do!! iterM (fun bp => do! r <- build_reference d bp ;; db_add d r) (ps_refs s) ;;
     ret d).
Proof.
  intros Hg. rewrite Forall_forall in Hg.
  apply pres_bind; [apply pres_iterM; intros bp; apply pres_build_then_add, gR_build_enum|intros _].
  apply pres_bind; [apply pres_iterM_in; intros bp Hin; apply pres_table_then_add; auto|intros _].
  apply pres_bind; [apply pres_iterM; intros bp; apply (pres_build_then_add d (build_group d)), gR_build_group|intros _].
  apply pres_bind; [apply pres_iterM; intros bp; apply pres_build_then_add, gR_build_sticky|intros _].
  apply pres_bind; [destruct (ps_project s); [apply pres_build_then_add, gR_build_project|intros h h' r HJ HP H; inversion H; subst; auto]|intros _].
  apply pres_bind; [apply pres_iterM; intros bp; apply (pres_build_then_add d (build_reference d)), gR_build_reference|intros _].
  intros h h' r HJ HP H. inversion H; subst; auto.
Qed.

(* C05: whatever the blueprints, the heap after build_database satisfies Inv for the new database *)
Theorem build_database_invariant s allow sq dq h0 h1 r :
  WW h0 -> (forall t tb, h_table h0 t = Some tb -> NoDup (names_of tb)) -> Forall good_table_bp (ps_tables s) ->
  build_database s allow sq dq h0 = (h1, r) ->
  J (length h0) h1 /\ forall d, r = Ok d -> d = length h0.
Proof.
  intros HW Hgood Hg H. unfold build_database in H. unfold bindM at 1 in H. unfold new_database, alloc in H. cbv beta iota in H.
  set (db0 := mkDatabase [] [] [] [] [] [] None allow sq dq) in *.
  assert (HJ : J (length h0) (h0 ++ [ODatabase db0])).
  { exists db0. split; [apply fresh_database_full; exact Hgood|].
    intros k. eapply W_Rext; [|apply HW]. eapply (gR_alloc (ODatabase db0)); [exact Logic.I|reflexivity]. }
  destruct (build_database_keeps_J s (length h0) Hg _ _ _ HJ Logic.I H) as [HJ1 _]. split; [exact HJ1|].
  intros d E. subst r.
  (* the value returned is the database allocated first *)
  revert H. generalize (h0 ++ [ODatabase db0]). intros hh H.
  assert (P : post (do!! iterM (fun bp => do! e <- build_enum bp ;; db_add (length h0) e) (ps_enums s) ;;
     do!! iterM (fun bp => do! t <- build_table (length h0) bp ;; db_add (length h0) t) (ps_tables s) ;;
     do!! iterM (fun bp => do! g <- build_group (length h0) bp ;; db_add (length h0) g) (ps_groups s) ;;
     do!! iterM (fun bp => do! n <- build_sticky bp ;; db_add (length h0) n) (ps_stickies s) ;;
     do!! (match ps_project s with
           | Some bp => do! p <- build_project bp ;; db_add (length h0) p
           | None => ret tt
           end) ;;
     do!! iterM (fun bp => do! r <- build_reference (length h0) bp ;; db_add (length h0) r) (ps_refs s) ;;
     ret (length h0)) (fun _ x => x = length h0)).
  { do 6 (apply post_bind; intros _). intros a b x E. inversion E. reflexivity. }
  eapply P; eauto.
Qed.

(* ====================== part 7: the statement in the words of C05 ====================== *)
From PyDBML Require Import GenClasses GenGrammar Entry.

Record Linked (h : heap) (d : oid) : Prop := {
  lk_db : exists db, h_database h d = Some db /\
     (* every contained top-level object is an object of its class and points back to the database *)
     (forall k o, In o (klist k db) -> member h d k o) /\
     (* lookup by full name or alias returns the very table objects that positional lookup lists ... *)
     (forall t tb key, In t (d_tables db) -> h_table h t = Some tb -> In key (names_of tb) -> dict_get key (d_table_dict db) = Some t) /\
     (* ... and nothing else *)
     (forall key t, dict_get key (d_table_dict db) = Some t -> In t (d_tables db)) /\
     NoDup (d_tables db);
  (* every column and index points back to its owner, and is listed by the table it points to *)
  lk_cols : forall t tb c, h_table h t = Some tb -> In c (t_columns tb) -> exists cc, h_column h c = Some cc /\ c_table cc = Some t;
  lk_idxs : forall t tb i, h_table h t = Some tb -> In i (t_indexes tb) -> exists ix, h_index h i = Some ix /\ i_table ix = Some t;
  lk_cols_back : forall c cc t, h_column h c = Some cc -> c_table cc = Some t -> exists tb, h_table h t = Some tb /\ In c (t_columns tb);
  lk_idxs_back : forall i ix t, h_index h i = Some ix -> i_table ix = Some t -> exists tb, h_table h t = Some tb /\ In i (t_indexes tb) }.

Lemma J_Linked d h : J d h -> Linked h d.
Proof.
  intros [db [[[Idb Ind Ik Ig If Ib] IM IN] HW]]. split.
  - exists db. split; [exact Idb|]. split; [exact IM|]. split; [|split; [|exact Ind]].
    + intros t tb key Hin Ht Hk. destruct (If t Hin) as (tb' & Ht' & _ & Hn). rewrite Ht in Ht'. inversion Ht'; subst. apply Hn; exact Hk.
    + intros key t Hg. apply (Ib key t Hg).
  - intros t tb c Ht Hin. destruct (w_fwd _ _ (HW CKCol) t tb c Ht Hin) as (ob & A & B).
    destruct ob; try discriminate B. exists c0. split; [apply h_column_nth; exact A|]. cbn in B. congruence.
  - intros t tb c Ht Hin. destruct (w_fwd _ _ (HW CKIdx) t tb c Ht Hin) as (ob & A & B).
    destruct ob; try discriminate B. exists i. split; [apply h_index_nth; exact A|]. cbn in B. congruence.
  - intros c cc t Hc Ho. apply h_column_nth in Hc. apply (w_bwd _ _ (HW CKCol) c (OColumn cc) t Hc). cbn. rewrite Ho. reflexivity.
  - intros c cc t Hc Ho. apply h_index_nth in Hc. apply (w_bwd _ _ (HW CKIdx) c (OIndex cc) t Hc). cbn. rewrite Ho. reflexivity.
Qed.

Lemma ro_blueprints_of source allow : readonly (blueprints_of source allow).
Proof. unfold blueprints_of. ro. Qed.

(* for every source text: if the parser returns a database, that database is linked *)
Theorem parser_parse_linked source allow sq dq h0 h1 d :
  WW h0 -> (forall t tb, h_table h0 t = Some tb -> NoDup (names_of tb)) ->
  parser_parse source allow sq dq h0 = (h1, Ok d) ->
  (forall st, blueprints_of source allow h0 = (h0, Ok st) -> Forall good_table_bp (ps_tables st)) ->
  d = length h0 /\ Linked h1 d.
Proof.
  intros HW Hgood H Hbp. unfold parser_parse in H. apply bindM_inv in H as [[e [_ H]]|[st [hx [H1 H2]]]]; [discriminate H|].
  pose proof (ro_blueprints_of source allow _ _ _ H1) as E. subst hx.
  destruct (build_database_invariant st allow sq dq h0 h1 (Ok d) HW Hgood (Hbp st H1) H2) as [HJ Hd].
  rewrite (Hd d eq_refl). split; [reflexivity|]. apply J_Linked. exact HJ.
Qed.

Lemma WW_empty : WW []. Proof. apply WW_detached; intros x y H; destruct x; discriminate H. Qed.
