(* SqlFacts.v — facts about the SQL renderer model. *)
From PyDBML Require Import PyStr Py Heap Classes Tools RenderSQL.
From Coq Require Import Permutation Sorted Lia.
Import ListNotations.

(* ---- C18: the table order is a permutation and is sorted by the inline-reference count ---- *)
Lemma insert_desc_perm {A} (key : A -> nat) x l : Permutation (insert_desc key x l) (x :: l).
Proof.
  induction l as [|y r IH]; cbn; [reflexivity|].
  destruct (Nat.leb (key y) (key x)); [reflexivity|].
  rewrite IH. apply perm_swap.
Qed.

Lemma sort_desc_perm {A} (key : A -> nat) l : Permutation (sort_desc key l) l.
Proof.
  unfold sort_desc. induction l as [|x r IH]; cbn; [reflexivity|].
  rewrite insert_desc_perm. constructor. exact IH.
Qed.

Lemma reorder_tables_perm h tables refs l :
  reorder_tables_for_sql h tables refs = Ok l -> Permutation l tables.
Proof.
  unfold reorder_tables_for_sql. destruct (ref_counts h refs) as [m|e]; cbn; intros H; inversion H; subst.
  apply sort_desc_perm.
Qed.

(* the result is sorted by key, descending *)
Definition ge_key {A} (key : A -> nat) (a b : A) : Prop := key b <= key a.

Lemma insert_desc_sorted {A} (key : A -> nat) x l :
  StronglySorted (ge_key key) l -> StronglySorted (ge_key key) (insert_desc key x l).
Proof.
  induction l as [|y r IH]; cbn; intros Hs.
  - constructor; constructor.
  - inversion Hs as [|? ? Hr Hy]; subst.
    destruct (Nat.leb (key y) (key x)) eqn:E.
    + apply Nat.leb_le in E. constructor; [exact Hs|].
      constructor; [exact E|]. eapply Forall_impl; [|exact Hy]. unfold ge_key. intros a Ha. lia.
    + apply Nat.leb_gt in E. constructor; [apply IH; exact Hr|].
      assert (P : Permutation (insert_desc key x r) (x :: r)) by apply insert_desc_perm.
      eapply Permutation_Forall; [symmetry; exact P|].
      constructor; [unfold ge_key; lia | exact Hy].
Qed.

Lemma sort_desc_sorted {A} (key : A -> nat) l : StronglySorted (ge_key key) (sort_desc key l).
Proof.
  unfold sort_desc. induction l as [|x r IH]; cbn; [constructor|].
  apply insert_desc_sorted. exact IH.
Qed.

(* stability: elements with equal keys keep their relative order *)
Lemma insert_desc_filter {A} (key : A -> nat) (k : nat) x l :
  StronglySorted (ge_key key) l ->
  filter (fun a => Nat.eqb (key a) k) (insert_desc key x l) =
  filter (fun a => Nat.eqb (key a) k) (x :: l).
Proof.
  induction l as [|y r IH]; intros Hs; [reflexivity|].
  cbn [insert_desc]. destruct (Nat.leb (key y) (key x)) eqn:E; [reflexivity|].
  apply Nat.leb_gt in E. inversion Hs as [|? ? Hr Hy]; subst.
  cbn [filter]. rewrite IH by exact Hr. cbn [filter].
  destruct (Nat.eqb (key x) k) eqn:Ex; destruct (Nat.eqb (key y) k) eqn:Ey; try reflexivity.
  apply Nat.eqb_eq in Ex. apply Nat.eqb_eq in Ey. lia.
Qed.

Lemma sort_desc_stable {A} (key : A -> nat) (k : nat) l :
  filter (fun a => Nat.eqb (key a) k) (sort_desc key l) = filter (fun a => Nat.eqb (key a) k) l.
Proof.
  unfold sort_desc. induction l as [|x r IH]; [reflexivity|].
  cbn [fold_right]. rewrite insert_desc_filter by apply sort_desc_sorted.
  cbn [filter]. unfold sort_desc in IH. rewrite IH. reflexivity.
Qed.

(* ---- C04: which table hosts an inline FOREIGN KEY clause ---- *)
Lemma references_for_sql_char h tid t d db l :
  t_database t = Some d -> h_database h d = Some db ->
  references_for_sql h tid t = Ok l ->
  forall rid, In rid l <->
    In rid (d_refs db) /\ exists r, h_reference h rid = Some r /\ holds_key h r tid = Ok true.
Proof.
  intros Hd Hdb. unfold references_for_sql. rewrite Hd, Hdb.
  generalize (d_refs db) as refs. intros refs. revert l.
  induction refs as [|x refs IH]; intros l H rid.
  - inversion H; subst. cbn. split; [tauto|]. intros [[] _].
  - cbn [refs_for_sql_loop] in H. destruct (h_reference h x) as [r|] eqn:Hr; [|discriminate H].
    destruct (holds_key h r tid) as [keep|e] eqn:Hk; cbn [bind] in H; [|discriminate H].
    destruct (refs_for_sql_loop h tid refs) as [tl|e] eqn:Hg; cbn [bind] in H; [|discriminate H].
    inversion H; subst l; clear H.
    specialize (IH tl eq_refl rid).
    destruct keep; cbn [In].
    + rewrite IH. split.
      * intros [->|[Hin Hex]]; [split; [left; reflexivity| eauto] | split; [right; exact Hin | exact Hex]].
      * intros [[->|Hin] Hex]; [left; reflexivity | right; split; assumption].
    + rewrite IH. split.
      * intros [Hin Hex]. split; [right; exact Hin | exact Hex].
      * intros [[->|Hin] [r' [Hr' Hk']]]; [|split; eauto].
        rewrite Hr in Hr'. inversion Hr'; subst r'. rewrite Hk in Hk'. discriminate Hk'.
Qed.

(* the references rendered at database level are exactly the non-inline ones; a many-to-many
   reference is never inline *)
Lemma m2m_never_inline r : ostr_eqb (r_type r) (Some MANY_TO_MANY) = true -> ref_inline r = false.
Proof. unfold ref_inline. intros ->. apply andb_false_r. Qed.

Lemma inline_refs_subset h tid t l :
  inline_references_for_sql h tid t = Ok l ->
  forall rid, In rid l -> exists r, h_reference h rid = Some r /\ ref_inline r = true /\ t_abstract t = false.
Proof.
  unfold inline_references_for_sql. destruct (t_abstract t) eqn:Ha; intros H rid Hin.
  - inversion H; subst. destruct Hin.
  - destruct (references_for_sql h tid t) as [rs|e]; cbn in H; [|discriminate H]. inversion H; subst l.
    apply filter_In in Hin as [_ Hf]. destruct (h_reference h rid) as [r|]; [|discriminate Hf]. eauto.
Qed.

(* ---- C03: database-level composition ---- *)
Definition noninline_refs (h : heap) (d : database) : list oid :=
  filter (fun rid => match h_reference h rid with Some r => negb (ref_inline r) | None => true end) (d_refs d).

Lemma sql_render_db_structure render h d s :
  sql_render_db_with render h d = Ok s ->
  exists order comps,
    Permutation order (d_tables d) /\
    mapM (render h) (d_enums d ++ order ++ noninline_refs h d) = Ok comps /\
    s = join [cLF; cLF] comps.
Proof.
  unfold sql_render_db_with. destruct (reorder_tables_for_sql h (d_tables d) (d_refs d)) as [order|e] eqn:Ho; cbn [bind]; [|discriminate].
  fold (noninline_refs h d).
  destruct (mapM (render h) (d_enums d ++ order ++ noninline_refs h d)) as [comps|e] eqn:Hm; cbn [bind]; [|discriminate].
  intros H. inversion H; subst. exists order, comps. split; [|split; [exact Hm|reflexivity]].
  eapply reorder_tables_perm; eauto.
Qed.
