(* Names.v — C15: which results names a parse result can carry.  [noname k n e]: the name k is attached to no element under e
   (Forward bodies are covered by a separate hypothesis on the environment).  [names_sound]: then no result of running e has the
   key k — so with the option off, where the name `property` occurs nowhere in the grammar, every parse action sees
   [properties_of r = None]. *)
From PyDBML Require Import PyStr Py PP Analyses Actions GenClasses GenGrammar GrammarFacts.
From Coq Require Import Lia.
Import ListNotations.

Lemma seqb_refl (s : pystr) : str_eqb s s = true.
Proof. induction s as [|x s IH]; [reflexivity|]. cbn. rewrite N.eqb_refl. exact IH. Qed.
Lemma seqb_eq (a b : pystr) : str_eqb a b = true -> a = b.
Proof.
  revert b. induction a as [|x a IH]; intros [|y b] H; try discriminate H; [reflexivity|].
  cbn in H. apply andb_true_iff in H as [H1 H2]. apply N.eqb_eq in H1. rewrite (IH _ H2), H1. reflexivity.
Qed.

Definition key_in (k : pystr) (n : list (pystr * list (ptok * Z))) : bool := match named_get k n with Some _ => true | None => false end.
Definition has_key (r : pr) (k : pystr) : bool := key_in k (pr_named r).

Lemma key_in_add k k' v n : key_in k (named_add k' v n) = str_eqb k k' || key_in k n.
Proof.
  unfold key_in. induction n as [|[k0 vs] n IH]; cbn [named_add named_get].
  - destruct (str_eqb k k'); reflexivity.
  - destruct (str_eqb k' k0) eqn:E0; cbn [named_get].
    + apply seqb_eq in E0. subst k0. destruct (str_eqb k k'); reflexivity.
    + destruct (str_eqb k k0) eqn:E1; [rewrite orb_true_r; reflexivity|]. exact IH.
Qed.

(* r += o adds only keys of o *)
Lemma has_key_iadd r o k : has_key (pr_iadd r o) k = true -> has_key r k = true \/ has_key o k = true.
Proof.
  unfold pr_iadd. destruct (negb (pr_truthy o)); [intros H; left; exact H|]. unfold has_key. cbn [pr_named].
  generalize (pr_named r) as acc0. generalize (Z.of_nat (length (pr_toks r))) as off.
  intros off. induction (pr_named o) as [|[k1 vs1] no IH]; intros acc0 H; cbn [fold_left] in H; [left; exact H|].
  apply IH in H. destruct H as [H|H]; [|right; cbn [key_in named_get]; unfold key_in in H |- *; cbn [named_get]; destruct (str_eqb k k1); [reflexivity|exact H]].
  (* the inner fold adds only the key k1 *)
  assert (G : forall vs acc, key_in k (fold_left (fun acc2 v => named_add k1 (fst v, (if (snd v <? 0)%Z then off else (snd v + off)%Z)) acc2) vs acc) = true ->
              key_in k acc = true \/ str_eqb k k1 = true).
  { induction vs as [|v vs IHv]; intros acc G; cbn [fold_left] in G; [left; exact G|].
    apply IHv in G. destruct G as [G|G]; [|right; exact G]. rewrite key_in_add in G. apply orb_true_iff in G as [G|G]; [right|left]; exact G. }
  cbn [fst snd] in H. apply G in H. destruct H as [H|H]; [left; exact H|right]. unfold key_in. cbn [named_get]. rewrite H. reflexivity.
Qed.

(* ParseResults(tokens, name, ...) adds at most the key name *)
Lemma has_key_wrap x name aslist modal k : has_key (wrap x name aslist modal) k = true ->
  (match x with RRes r => has_key r k = true | _ => False end) \/ name = Some k.
Proof.
  unfold wrap.
  set (base := match x with RStr s => PR [PTStr s] [] [] | REmptyList => pr_empty | RRes r => r | RListOfRes r => PR [PTRes r] [] []
                            | RVal (PVList l) => PR (map (fun v => match v with PVStr s => PTStr s | _ => PTVal v end) l) [] []
                            | RVal (PVStr s) => PR [PTStr s] [] [] | RVal v => PR [PTVal v] [] [] end).
  assert (Hb : has_key base k = true -> match x with RRes r => has_key r k = true | _ => False end).
  { unfold base. destruct x as [s| |r|r|v]; try (intros H; discriminate H); [intros H; exact H|]. destruct v; try (intros H; discriminate H). }
  destruct name as [nm|]; [|intros H; left; exact (Hb H)]. destruct nm as [|c0 nm]; [intros H; left; exact (Hb H)|].
  assert (We : forall e al, has_key (PR (pr_toks base) (named_add (c0 :: nm) (e, 0%Z) (pr_named base)) al) k = true ->
               (match x with RRes r => has_key r k = true | _ => False end) \/ Some (c0 :: nm) = Some k).
  { intros e al H. unfold has_key in H. cbn [pr_named] in H. rewrite key_in_add in H. apply orb_true_iff in H as [H|H]; [right; apply seqb_eq in H; rewrite H; reflexivity|left; exact (Hb H)]. }
  assert (Ne : forall al, has_key (PR (pr_toks base) (pr_named base) al) k = true -> (match x with RRes r => has_key r k = true | _ => False end) \/ Some (c0 :: nm) = Some k).
  { intros al H. left. exact (Hb H). }
  destruct x as [s| |r|r|v].
  - destruct aslist; apply We.
  - apply Ne.
  - destruct aslist; [apply We|]. destruct (pr_toks r); [apply Ne|apply We].
  - destruct aslist; apply We.
  - destruct v; try apply We. destruct l; [apply Ne|]. destruct aslist; apply We.
Qed.

Section Names.
  Variable env : N -> option pexpr.
  Variable act : N -> pystr -> nat -> pr -> action_result.
  Variable src : pystr.
  Variable k : pystr.

  Definition rname_ok (a : pattrs) : bool := match a_rname a with Some n => negb (str_eqb n k) | None => true end.
  Fixpoint noname (n : nat) (e : pexpr) : bool :=
    match n with
    | O => false
    | S m => rname_ok (e_attrs e) && forallb (noname m) (children_of (e_core e))
    end.
  Hypothesis Henv : forall id body, env id = Some body -> exists n, noname n body = true.

  Definition raw_nokey (x : raw) : Prop := match x with RRes r => has_key r k = false | _ => True end.

  Lemma wrap_nokey x name aslist modal : raw_nokey x -> name <> Some k -> has_key (wrap x name aslist modal) k = false.
  Proof.
    intros Hx Hn. destruct (has_key (wrap x name aslist modal) k) eqn:E; [|reflexivity]. exfalso.
    apply has_key_wrap in E as [E|E]; [|contradiction]. destruct x; try contradiction. cbn in Hx. congruence.
  Qed.
  Lemma rname_ok_neq a : rname_ok a = true -> a_rname a <> Some k.
  Proof. unfold rname_ok. intros H E. rewrite E in H. rewrite seqb_refl in H. discriminate H. Qed.

  Lemma act_loop_nokey a loc q : rname_ok a = true -> forall l r eff p' r' e', has_key r k = false ->
    act_loop act src a loc q l r eff = POk p' r' e' -> has_key r' k = false.
  Proof.
    intros Ha. induction l as [|g l IH]; intros r eff p' r' e' Hr H; cbn [act_loop] in H; [inversion H; subst; exact Hr|].
    destruct (act g src loc r) as [|v|v|ex|]; try discriminate H.
    - eapply IH; eauto.
    - eapply IH; [|exact H]. apply wrap_nokey; [exact I|apply rname_ok_neq; exact Ha].
    - eapply IH; eauto.
  Qed.
  Lemma finish_nokey doact a loc q x eff p' r e : rname_ok a = true -> raw_nokey x ->
    finish_with act src doact a loc q x eff = POk p' r e -> has_key r k = false.
  Proof.
    intros Ha Hx H. unfold finish_with in H.
    assert (W : has_key (wrap x (a_rname a) (a_save_as_list a) (a_modal a)) k = false) by (apply wrap_nokey; [exact Hx|apply rname_ok_neq; exact Ha]).
    destruct doact; [eapply act_loop_nokey; eauto|inversion H; subst; exact W].
  Qed.

  Lemma iadd_nokey r o : has_key r k = false -> has_key o k = false -> has_key (pr_iadd r o) k = false.
  Proof. intros A B. destruct (has_key (pr_iadd r o) k) eqn:E; [|reflexivity]. apply has_key_iadd in E as [E|E]; congruence. Qed.

  Lemma terminal_raw c p p' x eff : run_terminal c p = IOk p' x eff -> raw_nokey x.
  Proof.
    intros H. destruct x as [s| |r|r|v]; try exact I. exfalso.
    destruct c; cbn [run_terminal] in H;
      repeat match type of H with
             | (match ?t with _ => _ end) = _ => destruct t; try discriminate H
             | (if ?b then _ else _) = _ => destruct b; try discriminate H
             | (let '(_, _) := ?t in _) = _ => destruct t
             end; try discriminate H.
    induction alts as [|a alts IH]; [discriminate H|]. destruct (match_prefix a (p_rest p)); [discriminate H|exact (IH H)].
  Qed.

  (* outcomes whose result (if any) has no key k *)
  Definition nk (o : outcome) : Prop := forall p' r eff, o = POk p' r eff -> has_key r k = false.
  Lemma nk_notok o : (forall p' r eff, o <> POk p' r eff) -> nk o.
  Proof. intros H p' r eff E. exfalso. exact (H _ _ _ E). Qed.

  Section Loops.
    Variable sub : pexpr -> pos -> bool -> outcome.
    Variable finish : pos -> raw -> list pyv -> outcome.
    Hypothesis Hfin : forall q x e, raw_nokey x -> nk (finish q x e).

    Lemma and_loop_nk : forall l pc acc eff stop, (forall ei, In (IElem ei) l -> forall q cp, nk (sub ei q cp)) -> has_key acc k = false ->
      nk (and_loop sub finish l pc acc eff stop).
    Proof.
      induction l as [|[ei|] l IH]; intros pc acc eff stop Hs Ha; cbn [and_loop].
      - apply Hfin. exact Ha.
      - destruct (sub ei pc true) as [p2 r2 eff2| | | |] eqn:E; try (apply nk_notok; intros ? ? ? H; try destruct stop; discriminate H).
        apply IH; [intros e2 H2; apply Hs; right; exact H2|]. apply iadd_nokey; [exact Ha|]. exact (Hs ei (or_introl eq_refl) pc true _ _ _ E).
      - apply IH; [intros e2 H2; apply Hs; right; exact H2|exact Ha].
    Qed.
    Lemma first_loop_nk pre : forall l, (forall ei, In ei l -> forall q cp, nk (sub ei q cp)) -> nk (first_loop sub finish pre l).
    Proof.
      induction l as [|ei l IH]; intros Hs; cbn [first_loop]; [intros ? ? ? H; discriminate H|].
      destruct (sub ei pre true) as [p2 r2 eff2| | | |] eqn:E; try (intros ? ? ? H; discriminate H).
      - apply Hfin. exact (Hs ei (or_introl eq_refl) pre true _ _ _ E).
      - apply IH. intros e2 H2. apply Hs. right. exact H2.
    Qed.
    Lemma rep_loop_nk e1 : (forall q cp, nk (sub e1 q cp)) -> forall n pc acc eff, has_key acc k = false -> nk (rep_loop sub finish e1 n pc acc eff).
    Proof.
      intros Hs. induction n as [|n IH]; intros pc acc eff Ha; cbn [rep_loop]; [intros ? ? ? H; discriminate H|].
      destruct (sub e1 pc true) as [p2 r2 eff2| | | |] eqn:E; try (intros ? ? ? H; discriminate H).
      - apply IH. apply iadd_nokey; [exact Ha|exact (Hs pc true _ _ _ E)].
      - apply Hfin. exact Ha.
    Qed.
    Lemma skip_scan_nk subq e1 incl pre : (forall q cp, nk (sub e1 q cp)) -> forall n kk pc, nk (skip_scan sub subq finish e1 incl pre kk pc n).
    Proof.
      intros Hs. induction n as [|n IH]; intros kk pc; cbn [skip_scan]; [intros ? ? ? H; discriminate H|].
      destruct (p_past pc); [intros ? ? ? H; discriminate H|].
      destruct (subq e1 pc false) as [p2 r2 eff2| | | |]; try (intros ? ? ? H; discriminate H).
      - destruct incl.
        + destruct (sub e1 pc false) as [p3 r3 eff3| | | |] eqn:E; try (intros ? ? ? H; discriminate H).
          apply Hfin. apply iadd_nokey; [reflexivity|exact (Hs pc false _ _ _ E)].
        + apply Hfin. reflexivity.
      - destruct (p_rest pc); [intros ? ? ? H; discriminate H|apply IH].
    Qed.
    Lemma or_loop_nk suba hf pre2 es : (forall e1, In e1 es -> forall q cp, nk (suba e1 q cp)) ->
      forall l longest, (forall x, In x l -> In (snd x) es) -> (forall pl r e, longest = Some (pl, r, e) -> has_key r k = false) ->
      nk (or_loop suba finish hf pre2 l longest).
    Proof.
      intros Hs. induction l as [|[loc1 e1] l IH]; intros longest Hl Hlong; cbn [or_loop].
      - destruct longest as [[[pl r] e]|]; [apply Hfin; exact (Hlong _ _ _ eq_refl)|destruct hf; intros ? ? ? H; discriminate H].
      - assert (Hl' : forall x, In x l -> In (snd x) es) by (intros x Hx; apply Hl; right; exact Hx).
        match goal with |- nk (if ?b then _ else _) => destruct b end.
        + destruct longest as [[[pl r] e]|]; [apply Hfin; exact (Hlong _ _ _ eq_refl)|intros ? ? ? H; discriminate H].
        + destruct (suba e1 pre2 true) as [p2 r2 eff2| | | |] eqn:E; try (intros ? ? ? H; discriminate H).
          * pose proof (Hs e1 (Hl (loc1, e1) (or_introl eq_refl)) pre2 true _ _ _ E) as K2.
            destruct (Nat.leb loc1 (p_loc p2)); [apply Hfin; exact K2|].
            destruct longest as [[[pl r] e]|].
            -- destruct (Nat.ltb (p_loc pl) (p_loc p2)); apply IH; try exact Hl'; [intros ? ? ? H; inversion H; subst; exact K2|exact Hlong].
            -- apply IH; [exact Hl'|intros ? ? ? H; inversion H; subst; exact K2].
          * apply IH; assumption.
    Qed.
  End Loops.

  Lemma in_items_children ei items : In (IElem ei) items -> In ei (children_of (PAnd items)).
  Proof. intros H. cbn [children_of]. apply in_flat_map. exists (IElem ei). split; [exact H|left; reflexivity]. Qed.

  Lemma sort_matches_in2 (m : list (nat * pexpr)) x : In x (sort_matches m) -> In x m.
  Proof.
    unfold sort_matches. induction m as [|y m IH]; cbn [fold_right]; [intros []|].
    set (acc := fold_right _ [] m) in *. intros H.
    assert (G : forall l, In x ((fix ins (l : list (nat * pexpr)) := match l with [] => [y] | z :: r => if Nat.leb (fst z) (fst y) then y :: l else z :: ins r end) l) -> x = y \/ In x l).
    { induction l as [|z l IHl]; cbn; [intros [<-|[]]; left; reflexivity|].
      destruct (Nat.leb (fst z) (fst y)); cbn; [intros [<-|[<-|H']]; auto|intros [<-|H']; [auto|destruct (IHl H'); auto]]. }
    destruct (G _ H) as [->|H']; [left; reflexivity|right; apply IH; exact H'].
  Qed.

  Theorem names_sound : forall f n doact e p cp, noname n e = true -> nk (run env act src f doact e p cp).
  Proof.
    induction f as [|f IH]; intros n doact e p cp Hn; [apply nk_notok; intros ? ? ? H; discriminate H|].
    destruct n as [|m]; [discriminate Hn|]. cbn [noname] in Hn. apply andb_true_iff in Hn as [Ha Hc].
    rewrite forallb_forall in Hc.
    cbn [run].
    set (pre := if cp && a_call_preparse (e_attrs e) then preparse (e_attrs e) p else p).
    set (finish := finish_with act src doact (e_attrs e) (p_loc pre)).
    assert (Hfin : forall q x e0, raw_nokey x -> nk (finish q x e0)).
    { intros q x e0 Hx p' r eff H. eapply finish_nokey; eauto. }
    assert (Hsub : forall e1, In e1 (children_of (e_core e)) -> forall d q cp1, nk (run env act src f d e1 q cp1)).
    { intros e1 H1 d q cp1. apply (IH m). apply Hc. exact H1. }
    destruct (e_core e) as [s|um ret|init body mn mx ms kw rm|q endq esc ml unq cw|cs mn mx|cs mn mx|alts| | |cs|cs| | |items|es|es|e0|e0|e0|e0 incl|e0 joinstr|e0|e0|id|e0|e0|e0] eqn:Ec.
    1-13: (unfold outcome_of; match goal with |- nk (match ?t with _ => _ end) => destruct t as [p1 x1 eff1| | | |] eqn:Et; try (intros ? ? ? H; discriminate H) end;
           apply Hfin; eapply terminal_raw; exact Et).
    - (* PAnd *) destruct items as [|[e0|] rest]; try (intros ? ? ? H; discriminate H).
      destruct (run env act src f doact e0 pre false) as [p1 r1 eff1| | | |] eqn:E; try (intros ? ? ? H; discriminate H).
      apply and_loop_nk; [exact Hfin| |exact (Hsub e0 (in_items_children e0 (IElem e0 :: rest) (or_introl eq_refl)) doact pre false _ _ _ E)].
      intros ei Hi q cp1. apply Hsub. apply (in_items_children ei (IElem e0 :: rest)). right. exact Hi.
    - (* PMatchFirst *) apply first_loop_nk; [exact Hfin|]. intros ei Hi q cp1. apply Hsub. exact Hi.
    - (* POr *)
      set (pre2 := if forallb (fun ei => a_call_preparse (e_attrs ei)) es then preparse (e_attrs e) pre else pre).
      match goal with |- nk (if ?b then _ else _) => destruct b end; [intros ? ? ? H; discriminate H|].
      destruct (find _ _) as [[ex o]|] eqn:Ef.
      + apply find_some in Ef as [_ Ef]. cbn [snd] in Ef. destruct o; try discriminate Ef. intros ? ? ? H; discriminate H.
      + set (matches := flat_map _ _).
        assert (Hm : forall x, In x matches -> In (snd x) es).
        { intros x H. unfold matches in H. apply in_flat_map in H as (t & Ht & Hx). apply in_map_iff in Ht as (ei & <- & Hei). cbn [snd fst] in Hx.
          destruct (run env act src f false ei pre2 true); try (destruct Hx; fail). destruct Hx as [<-|[]]. exact Hei. }
        destruct (sort_matches matches) as [|[nb best] l] eqn:Es; [match goal with |- nk (if ?b then _ else _) => destruct b end; intros ? ? ? H; discriminate H|].
        assert (Hb : In best es) by (apply (Hm (nb, best)); apply sort_matches_in2; rewrite Es; left; reflexivity).
        destruct (negb doact).
        * destruct (run env act src f false best pre2 true) as [p2 r2 eff2| | | |] eqn:E; try (intros ? ? ? H; discriminate H).
          apply Hfin. exact (Hsub best Hb false pre2 true _ _ _ E).
        * apply (or_loop_nk finish Hfin (run env act src f true) _ pre2 es (fun e1 H1 q cp1 => Hsub e1 H1 true q cp1)).
          -- intros x Hx. apply Hm. apply sort_matches_in2. rewrite Es. exact Hx.
          -- intros ? ? ? H. discriminate H.
    - (* PZeroOrMore *) destruct (run env act src f doact e0 pre true) as [p1 r1 eff1| | | |] eqn:E; try (intros ? ? ? H; discriminate H).
      + apply rep_loop_nk; [exact Hfin|intros q cp1; apply Hsub; left; reflexivity|exact (Hsub e0 (or_introl eq_refl) doact pre true _ _ _ E)].
      + apply Hfin. cbn [raw_nokey]. apply wrap_nokey; [exact I|apply rname_ok_neq; exact Ha].
    - (* POneOrMore *) destruct (run env act src f doact e0 pre true) as [p1 r1 eff1| | | |] eqn:E; try (intros ? ? ? H; discriminate H).
      apply rep_loop_nk; [exact Hfin|intros q cp1; apply Hsub; left; reflexivity|exact (Hsub e0 (or_introl eq_refl) doact pre true _ _ _ E)].
    - (* POpt *) destruct (run env act src f doact e0 pre false) as [p1 r1 eff1| | | |] eqn:E; try (intros ? ? ? H; discriminate H).
      + apply Hfin. exact (Hsub e0 (or_introl eq_refl) doact pre false _ _ _ E).
      + apply Hfin. exact I.
    - (* PSkipTo *) apply skip_scan_nk; [exact Hfin|]. intros q cp1. apply Hsub. left. reflexivity.
    - (* PCombine *) destruct (run env act src f doact e0 pre false) as [p1 r1 eff1| | | |] eqn:E; try (intros ? ? ? H; discriminate H).
      pose proof (Hsub e0 (or_introl eq_refl) doact pre false _ _ _ E) as K1.
      destruct (as_string_list r1 joinstr); [|intros ? ? ? H; discriminate H].
      destruct (a_rname (e_attrs e)); [destruct (negb _)|]; apply Hfin; try exact I; exact K1.
    - (* PSuppress *) destruct (run env act src f doact e0 pre false) as [p1 r1 eff1| | | |] eqn:E; try (intros ? ? ? H; discriminate H). apply Hfin. exact I.
    - (* PGroup *) destruct (run env act src f doact e0 pre false) as [p1 r1 eff1| | | |] eqn:E; try (intros ? ? ? H; discriminate H). apply Hfin. exact I.
    - (* PForward *) destruct (env id) as [e1|] eqn:Ee; [|intros ? ? ? H; discriminate H].
      destruct (Henv id e1 Ee) as (n1 & Hn1).
      destruct (run env act src f doact e1 pre false) as [p1 r1 eff1| | | |] eqn:E; try (intros ? ? ? H; discriminate H).
      apply Hfin. exact (IH n1 doact e1 pre false Hn1 _ _ _ E).
    - (* POrigText *) destruct (run env act src f doact e0 pre true) as [p1 r1 eff1| | | |] eqn:E; try (intros ? ? ? H; discriminate H). apply Hfin. exact I.
    - (* PNotAny *) destruct (run env act src f false e0 pre true); try (intros ? ? ? H; discriminate H); apply Hfin; exact I.
    - (* PFollowedBy *) destruct (run env act src f doact e0 pre true) as [p1 r1 eff1| | | |] eqn:E; try (intros ? ? ? H; discriminate H).
      apply Hfin. exact (Hsub e0 (or_introl eq_refl) doact pre true _ _ _ E).
  Qed.
End Names.

(* ====================== the regenerated grammar, option off ====================== *)
Definition PROPERTY : pystr := s2l "property".

Lemma no_property_name_off : noname PROPERTY 60 gen_top_off = true.
Proof. vm_compute. reflexivity. Qed.

Lemma no_property_name_forward : forall id body, gen_env id = Some body -> exists n, noname PROPERTY n body = true.
Proof.
  intros id body H. exists 60. unfold gen_env in H.
  repeat match type of H with (if ?b then _ else _) = _ => destruct b; [inversion H; subst body; vm_compute; reflexivity|] end.
  discriminate H.
Qed.

Lemma properties_of_nokey r : has_key r PROPERTY = false -> properties_of r = None.
Proof.
  unfold has_key, key_in, properties_of, pr_getitem. change (K "property") with PROPERTY.
  destruct (named_get PROPERTY (pr_named r)); [discriminate|reflexivity].
Qed.

(* with the option off, no parse result — of the whole grammar or of any element under it — carries arbitrary properties: the
   build actions, which read them from the key `property` only, find none *)
Theorem no_properties_when_off act src f n doact e p cp p' r eff :
  noname PROPERTY n e = true -> run gen_env act src f doact e p cp = POk p' r eff -> properties_of r = None.
Proof.
  intros Hn H. apply properties_of_nokey. exact (names_sound gen_env act src PROPERTY no_property_name_forward f n doact e p cp Hn _ _ _ H).
Qed.

(* ... while the grammar of the option on attaches the name at three places *)
Lemma property_name_on : noname PROPERTY 60 gen_top_on = false.
Proof. vm_compute. reflexivity. Qed.
