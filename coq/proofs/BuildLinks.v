(* BuildLinks.v — C05, second part: what the addresses of the document were resolved to stays in place until the end of the
   build: both endpoint lists of every contained reference are non-empty lists of columns of one listed table, table groups
   hold listed tables, a column whose type is an Enum object holds a listed enum (invariant LinkedMore, carried together
   with Inv through every Blueprint.build and build_database); consequences for Reference.table1/table2, Table.get_refs
   and the SQL key holder. *)
From PyDBML Require Import PyStr Py Heap Classes Database Tools PP Actions Build RenderSQL GenClasses GenGrammar Entry MonadFacts ToolsFacts SqlFacts RuleFacts ContainerInv ContainerFull TableInv BuildInv.
From Coq Require Import Lia.
Import ListNotations.

(* ====================== part 1 ====================== *)

(* ---- what else C05 says about a parsed database: what the addresses in the document were resolved to ---- *)
Definition ends_ok (h : heap) (db : database) (rr : reference) : Prop :=
  forall cs, (r_col1 rr = Some cs \/ r_col2 rr = Some cs) ->
    exists t tb, In t (d_tables db) /\ h_table h t = Some tb /\ incl cs (t_columns tb).
Definition ref_shape (rr : reference) : Prop :=
  exists c1 l1 c2 l2, r_col1 rr = Some (c1 :: l1) /\ r_col2 rr = Some (c2 :: l2).
Definition ref_ok (h : heap) (db : database) (rr : reference) : Prop := ends_ok h db rr /\ ref_shape rr.

Record LinkedMore (h : heap) (d : oid) (db : database) : Prop := {
  (* both endpoint lists of every contained reference are non-empty lists of columns of one listed table *)
  lm_ends : forall r rr, In r (d_refs db) -> h_reference h r = Some rr -> ref_ok h db rr;
  (* table groups hold listed tables *)
  lm_groups : forall g gg, In g (d_table_groups db) -> h_group h g = Some gg -> incl (g_items gg) (d_tables db);
  (* a column (of a table created after the database) whose type is an Enum object holds a listed enum *)
  lm_enums : forall t tb c cc e, d < t -> h_table h t = Some tb -> In c (t_columns tb) -> h_column h c = Some cc ->
               c_type cc = CTEnum e -> In e (d_enums db);
  (* the column subjects of an index (of a table created after the database) are that table's own columns *)
  lm_subjects : forall t tb i ix subs c, d < t -> h_table h t = Some tb -> In i (t_indexes tb) -> h_index h i = Some ix ->
                  i_subjects ix = Some subs -> In (SubCol c) subs -> In c (t_columns tb) }.

Definition JM (d : oid) (h : heap) : Prop := exists db, Inv h d db /\ LinkedMore h d db.

Lemma h_reference_nth h c cc : h_reference h c = Some cc <-> nth_error h c = Some (OReference cc).
Proof. unfold h_reference. destruct (nth_error h c) as [[]|]; split; intros H; try discriminate; inversion H; reflexivity. Qed.
Lemma h_group_nth h c cc : h_group h c = Some cc <-> nth_error h c = Some (OGroup cc).
Proof. unfold h_group. destruct (nth_error h c) as [[]|]; split; intros H; try discriminate; inversion H; reflexivity. Qed.

(* the part of the class view the linking statements read: columns of a table, type of a column, endpoints of a
   reference, items of a group *)
Inductive lview := LT (cols idxs : list oid) | LC (ty : coltype) | LR (c1 c2 : option (list oid)) | LG (items : list oid)
                  | LI (o : option oid) (subs : option (list subject)) | LO.
Definition lv (v : cview) : lview :=
  match v with VT cols idxs => LT cols idxs | VC _ ty _ => LC ty | VR a b => LR a b | VG i => LG i | VI o s => LI o s | _ => LO end.
Definition lview_of (ob : obj) : lview := lv (cview_of ob).

Lemma lview_ref ob r : lview_of ob = lview_of (OReference r) -> exists r', ob = OReference r' /\ r_col1 r' = r_col1 r /\ r_col2 r' = r_col2 r.
Proof. destruct ob; try discriminate. cbn. intros H; inversion H. eauto. Qed.
Lemma lview_group ob g : lview_of ob = lview_of (OGroup g) -> exists g', ob = OGroup g' /\ g_items g' = g_items g.
Proof. destruct ob; try discriminate. cbn. intros H; inversion H. eauto. Qed.
Lemma lview_col ob c : lview_of ob = lview_of (OColumn c) -> exists c', ob = OColumn c' /\ c_type c' = c_type c.
Proof. destruct ob; try discriminate. cbn. intros H; inversion H. eauto. Qed.
Lemma lview_table ob tb : lview_of ob = lview_of (OTable tb) -> exists tb', ob = OTable tb' /\ t_columns tb' = t_columns tb.
Proof. destruct ob; try discriminate. cbn. intros H; inversion H. eauto. Qed.
Lemma lview_table_idx ob tb : lview_of ob = lview_of (OTable tb) -> exists tb', ob = OTable tb' /\ t_columns tb' = t_columns tb /\ t_indexes tb' = t_indexes tb.
Proof. destruct ob; try discriminate. cbn. intros H; inversion H. eauto. Qed.
Lemma lview_idx ob ix t : lview_of ob = lview_of (OIndex ix) -> i_table ix = Some t ->
  exists ix', ob = OIndex ix' /\ i_table ix' = Some t /\ i_subjects ix' = i_subjects ix.
Proof.
  destruct ob as [x1|x2|i|x4|x5|x6|x7|x8|x9|x10|x11|x12]; try discriminate. unfold lview_of, cview_of, lv. intros H Ht. rewrite Ht in H. injection H as E1 E2.
  exists i. split; [reflexivity|]. split; [exact E1|]. rewrite E1 in E2. exact E2.
Qed.

(* a heap change that keeps that view of every object that existed; new tables are empty *)
Definition cstable (h h' : heap) : Prop :=
  (forall x ob, nth_error h x = Some ob -> exists ob', nth_error h' x = Some ob' /\ lview_of ob' = lview_of ob) /\
  (forall x ob', nth_error h' x = Some ob' -> (exists ob, nth_error h x = Some ob /\ lview_of ob' = lview_of ob) \/
                                               (nth_error h x = None /\ forall tb, ob' = OTable tb -> t_columns tb = [] /\ t_indexes tb = [])).

Lemma cstable_same_cview h h' : same_cview h h' -> cstable h h'.
Proof.
  intros S. split.
  - intros x ob Hx. specialize (S x). rewrite Hx in S. cbn in S. destruct (nth_error h' x) as [ob'|]; [|discriminate S].
    cbn in S. exists ob'. split; [reflexivity|unfold lview_of; congruence].
  - intros x ob' Hx. specialize (S x). rewrite Hx in S. cbn in S. destruct (nth_error h x) as [ob|]; [|discriminate S].
    cbn in S. left. exists ob. split; [reflexivity|unfold lview_of; congruence].
Qed.
Lemma cstable_Rext h h' : Rext h h' -> cstable h h'.
Proof.
  intros R. split.
  - intros x ob Hx. destruct (Rext_old_obj _ _ _ _ R Hx) as (ob' & A & B). exists ob'. split; [exact A|unfold lview_of; rewrite (views_c _ _ B); reflexivity].
  - intros x ob' Hx. destruct (Rext_back _ _ _ _ R Hx) as [[Hl (ob & A & B)]|[Hl Hn]].
    + left. exists ob. split; [exact A|unfold lview_of; rewrite (views_c _ _ B); reflexivity].
    + right. split; [apply nth_error_None; exact Hl|]. intros tb ->. destruct Hn as [A [B _]]. split; assumption.
Qed.

(* LinkedMore survives when the heap changes stably and the lists of the database only grow *)
Lemma LinkedMore_stable h h' d db db' :
  cstable h h' -> WW h ->
  incl (d_tables db) (d_tables db') -> incl (d_enums db) (d_enums db') ->
  (forall r, In r (d_refs db') -> In r (d_refs db) \/ (forall rr, h_reference h' r = Some rr -> ref_ok h' db' rr)) ->
  (forall g, In g (d_table_groups db') -> In g (d_table_groups db) \/
     (forall gg, h_group h' g = Some gg -> incl (g_items gg) (d_tables db'))) ->
  (forall r, In r (d_refs db) -> nth_error h r <> None) -> (forall g, In g (d_table_groups db) -> nth_error h g <> None) ->
  LinkedMore h d db -> LinkedMore h' d db'.
Proof.
  intros [Sf Sb] HW It Ie Hr Hg Hrex Hgex [LE LG LN LS]. split.
  - intros r rr Hin Hrr. destruct (Hr r Hin) as [Hold|Hnew]; [|eapply Hnew; eauto].
    apply h_reference_nth in Hrr. destruct (Sb r _ Hrr) as [(ob & A & B)|[A _]]; [|exfalso; apply (Hrex r Hold); exact A].
    destruct (lview_ref _ _ (eq_sym B)) as (r0 & -> & E1 & E2).
    destruct (LE r r0 Hold (proj2 (h_reference_nth _ _ _) A)) as [Hends (c1 & l1 & c2 & l2 & S1 & S2)].
    split; [|exists c1, l1, c2, l2; split; congruence].
    intros cs Hcs.
    assert (Hcs0 : r_col1 r0 = Some cs \/ r_col2 r0 = Some cs) by (destruct Hcs; [left|right]; congruence).
    destruct (Hends cs Hcs0) as (t & tb & Ht & Htb & Hincl).
    apply h_table_nth in Htb. destruct (Sf t _ Htb) as (ob' & A' & B'). destruct (lview_table _ _ B') as (tb' & -> & C1).
    exists t, tb'. split; [apply It; exact Ht|]. split; [unfold h_table; rewrite A'; reflexivity|]. rewrite C1. exact Hincl.
  - intros g gg Hin Hgg. destruct (Hg g Hin) as [Hold|Hnew]; [|eapply Hnew; eauto].
    apply h_group_nth in Hgg. destruct (Sb g _ Hgg) as [(ob & A & B)|[A _]]; [|exfalso; apply (Hgex g Hold); exact A].
    destruct (lview_group _ _ (eq_sym B)) as (g0 & -> & E1).
    intros x Hx. apply It. apply (LG g g0 Hold (proj2 (h_group_nth _ _ _) A)). congruence.
  - intros t tb c cc e Hd Ht Hc Hcc Hty. apply h_table_nth in Ht. destruct (Sb t _ Ht) as [(ob & A & B)|[A Hnew]].
    + destruct (lview_table _ _ (eq_sym B)) as (tb0 & -> & C1).
      assert (Ht0 : h_table h t = Some tb0) by (unfold h_table; rewrite A; reflexivity).
      assert (Hc0 : In c (t_columns tb0)) by congruence.
      destruct (w_fwd _ _ (HW CKCol) t tb0 c Ht0 Hc0) as (cob & Hcob & Hown).
      destruct cob; try discriminate Hown. destruct (Sf c _ Hcob) as (cob' & A' & B').
      destruct (lview_col _ _ B') as (c1 & -> & Ety). apply h_column_nth in Hcc. rewrite A' in Hcc. inversion Hcc; subst c1.
      apply Ie. eapply (LN t tb0 c c0 e); eauto. apply h_column_nth; exact Hcob. congruence.
    + rewrite (proj1 (Hnew tb eq_refl)) in Hc. destruct Hc.
  - intros t tb i ix subs c Hd Ht Hi Hix Hs Hc. apply h_table_nth in Ht. destruct (Sb t _ Ht) as [(ob & A & B)|[A Hnew]].
    + destruct (lview_table_idx _ _ (eq_sym B)) as (tb0 & -> & C1 & C2).
      assert (Ht0 : h_table h t = Some tb0) by (unfold h_table; rewrite A; reflexivity).
      assert (Hi0 : In i (t_indexes tb0)) by congruence.
      destruct (w_fwd _ _ (HW CKIdx) t tb0 i Ht0 Hi0) as (iob & Hiob & Hown).
      destruct iob as [x1|x2|ix0|x4|x5|x6|x7|x8|x9|x10|x11|x12]; try discriminate Hown. cbn in Hown. inversion Hown as [Hown'].
      destruct (Sf i _ Hiob) as (iob' & A' & B').
      destruct (lview_idx _ _ t B' Hown') as (ix1 & -> & _ & Es). apply h_index_nth in Hix. rewrite A' in Hix. inversion Hix; subst ix1.
      rewrite <- C1. eapply (LS t tb0 i ix0 subs c); eauto. apply h_index_nth; exact Hiob. congruence.
    + rewrite (proj2 (Hnew tb eq_refl)) in Hi. destruct Hi.
Qed.

(* ====================== part 2 ====================== *)

Lemma member_exists h d k o : member h d k o -> nth_error h o <> None.
Proof. intros (ob & A & _). congruence. Qed.

(* (A) neutral extensions *)
Lemma JM_Rext d h h' : Rext h h' -> JM d h -> JM d h'.
Proof.
  intros R (db & I & LM). exists db. split; [eapply Inv_Rext; eauto|].
  destruct I as [ID HW]. eapply LinkedMore_stable; [apply cstable_Rext; exact R|exact HW| | | | | | |exact LM]; try apply incl_refl; auto.
  - intros r Hin. eapply member_exists. apply (id_members _ _ _ ID KRef r Hin).
  - intros g Hin. eapply member_exists. apply (id_members _ _ _ ID KGroup g Hin).
Qed.

(* (B) Database.add of an object whose own links are in order *)
Definition add_ok (h : heap) (d o : oid) : Prop :=
  forall db, h_database h d = Some db ->
    (forall rr, h_reference h o = Some rr -> ref_ok h db rr) /\ (forall gg, h_group h o = Some gg -> incl (g_items gg) (d_tables db)).

Lemma klist_grows k o db db' k0 : others k db db' -> (k <> KProject -> klist k db' = klist k db ++ [o]) -> k0 <> KProject ->
  incl (klist k0 db) (klist k0 db').
Proof.
  intros [Ho _] Hk N. destruct (kind_eq_dec k0 k) as [->|Nk].
  - rewrite (Hk N). apply incl_appl, incl_refl.
  - rewrite (Ho k0 Nk). apply incl_refl.
Qed.

Lemma JM_db_add d h o h' r : JM d h -> add_ok h d o -> db_add d o h = (h', r) -> JM d h'.
Proof.
  intros (db & [ID HW] & LM) Hok H.
  assert (S : same_cview h h') by (eapply gc_db_add; eauto).
  destruct (db_add_step h d db o ID) as [[e R]|(db' & h2 & ob & k & Hrun & ID' & Ho & Hk & Hm & Hl1 & Hl2 & Hoth & Hdm)].
  { rewrite R in H. inversion H; subst. exists db. split; [split; assumption|exact LM]. }
  rewrite Hrun in H. inversion H; subst h2 r. clear H. exists db'. split; [split; [exact ID'|intros k'; eapply W_view; eauto]|].
  pose proof (id_tables _ _ _ ID) as [Idb _ _ _ _ _].
  destruct (Hok db Idb) as [Hokr Hokg].
  assert (It : incl (d_tables db) (d_tables db')) by (apply (klist_grows k o db db' KTable Hoth Hl1); discriminate).
  assert (Ie : incl (d_enums db) (d_enums db')) by (apply (klist_grows k o db db' KEnum Hoth Hl1); discriminate).
  (* transport of a table from h to h' *)
  assert (Tt : forall t tb, h_table h t = Some tb -> exists tb', h_table h' t = Some tb' /\ t_columns tb' = t_columns tb).
  { intros t tb Ht. apply h_table_nth in Ht. specialize (S t). rewrite Ht in S. cbn [option_map] in S.
    destruct (nth_error h' t) as [ob'|] eqn:E; [|discriminate S]. cbn [option_map] in S. assert (S' : cview_of ob' = cview_of (OTable tb)) by congruence.
    destruct (cview_table _ _ _ S') as (tb' & -> & A & _). exists tb'. split; [unfold h_table; rewrite E; reflexivity|exact A]. }
  eapply LinkedMore_stable; [apply cstable_same_cview; exact S|exact HW|exact It|exact Ie| | | | |exact LM].
  - intros r0 Hin. destruct (kind_eq_dec k KRef) as [->|Nk].
    + cbn in Hl1. rewrite (Hl1 ltac:(discriminate)) in Hin. apply in_app_or in Hin as [Hin|[<-|[]]]; [left; exact Hin|right].
      intros rr Hrr. apply h_reference_nth in Hrr. specialize (S o). rewrite Hrr in S. cbn [option_map] in S.
      destruct (nth_error h o) as [ob0|] eqn:E0; [|discriminate S]. cbn [option_map] in S.
      assert (S' : cview_of ob0 = cview_of (OReference rr)) by congruence.
      destruct ob0 as [x1|x2|x3|r1|x5|x6|x7|x8|x9|x10|x11|x12]; try discriminate S'. cbn in S'. inversion S' as [[E1 E2]].
      assert (Hr0 : h_reference h o = Some r1) by (unfold h_reference; rewrite E0; reflexivity).
      destruct (Hokr r1 Hr0) as [Hends (c1 & l1 & c2 & l2 & S1 & S2)].
      split; [|exists c1, l1, c2, l2; split; congruence].
      intros cs Hcs.
      assert (Hcs0 : r_col1 r1 = Some cs \/ r_col2 r1 = Some cs) by (destruct Hcs; [left|right]; congruence).
      destruct (Hends cs Hcs0) as (t & tb & Ht & Htb & Hincl). destruct (Tt t tb Htb) as (tb' & Htb' & Ec).
      exists t, tb'. split; [apply It; exact Ht|]. split; [exact Htb'|]. rewrite Ec. exact Hincl.
    + left. destruct Hoth as [Hoo _]. change (In r0 (klist KRef db')) in Hin. rewrite (Hoo KRef) in Hin by congruence. exact Hin.
  - intros g0 Hin. destruct (kind_eq_dec k KGroup) as [->|Nk].
    + cbn in Hl1. rewrite (Hl1 ltac:(discriminate)) in Hin. apply in_app_or in Hin as [Hin|[<-|[]]]; [left; exact Hin|right].
      intros gg Hgg. apply h_group_nth in Hgg. specialize (S o). rewrite Hgg in S. cbn [option_map] in S.
      destruct (nth_error h o) as [ob0|] eqn:E0; [|discriminate S]. cbn [option_map] in S.
      assert (S' : cview_of ob0 = cview_of (OGroup gg)) by congruence.
      destruct ob0 as [x1|x2|x3|x4|x5|x6|x7|x8|x9|x10|g1|x12]; try discriminate S'. cbn in S'. inversion S' as [E1].
      assert (Hg0 : h_group h o = Some g1) by (unfold h_group; rewrite E0; reflexivity).
      intros x Hx. apply It. apply (Hokg g1 Hg0). congruence.
    + left. destruct Hoth as [Hoo _]. change (In g0 (klist KGroup db')) in Hin. rewrite (Hoo KGroup) in Hin by congruence. exact Hin.
  - intros r0 Hin. eapply member_exists. apply (id_members _ _ _ ID KRef r0 Hin).
  - intros g0 Hin. eapply member_exists. apply (id_members _ _ _ ID KGroup g0 Hin).
Qed.

(* ====================== part 3 ====================== *)

(* (C) a freshly built column, whose enum type (if any) is a listed enum, becomes the last column of table t *)
Lemma LinkedMore_add_column h d db t tb c cc :
  LinkedMore h d db -> h_table h t = Some tb -> nth_error h c = Some (OColumn cc) ->
  (forall e, c_type cc = CTEnum e -> In e (d_enums db)) ->
  LinkedMore (tupd h t c (set_columns (t_columns tb ++ [c]) tb) (OColumn (set_c_table (Some t) cc))) d db.
Proof.
  intros [LE LG LN LS] Ht Hc Hty.
  set (tb2 := set_columns (t_columns tb ++ [c]) tb). set (ob2 := OColumn (set_c_table (Some t) cc)).
  assert (Hct : c <> t) by (eapply tupd_ct; eauto).
  assert (Nt : nth_error (tupd h t c tb2 ob2) t = Some (OTable tb2)) by (eapply tupd_nth_t; eauto).
  assert (Nc : nth_error (tupd h t c tb2 ob2) c = Some ob2) by (eapply tupd_nth_c; eauto).
  assert (No : forall x, x <> t -> x <> c -> nth_error (tupd h t c tb2 ob2) x = nth_error h x) by (intros; apply tupd_nth_other; auto).
  assert (Tt : forall x xb, h_table h x = Some xb -> exists xb', h_table (tupd h t c tb2 ob2) x = Some xb' /\ incl (t_columns xb) (t_columns xb')).
  { intros x xb Hx. destruct (Nat.eq_dec x t) as [->|N].
    - rewrite Ht in Hx. inversion Hx; subst xb. exists tb2. split; [unfold h_table; rewrite Nt; reflexivity|]. cbn. apply incl_appl, incl_refl.
    - exists xb. split; [|apply incl_refl]. unfold h_table. rewrite No; [exact Hx|exact N|].
      intros ->. apply h_table_nth in Hx. congruence. }
  split.
  - intros r rr Hin Hrr. apply h_reference_nth in Hrr.
    assert (Hrr0 : nth_error h r = Some (OReference rr)).
    { destruct (Nat.eq_dec r t) as [->|N1]; [rewrite Nt in Hrr; discriminate Hrr|].
      destruct (Nat.eq_dec r c) as [->|N2]; [rewrite Nc in Hrr; discriminate Hrr|]. rewrite No in Hrr by assumption. exact Hrr. }
    destruct (LE r rr Hin (proj2 (h_reference_nth _ _ _) Hrr0)) as [Hends Hshape]. split; [|exact Hshape]. intros cs Hcs.
    destruct (Hends cs Hcs) as (t0 & tb0 & A & B & C).
    destruct (Tt t0 tb0 B) as (tb0' & B' & C'). exists t0, tb0'. split; [exact A|]. split; [exact B'|]. eapply incl_tran; eauto.
  - intros g gg Hin Hgg. apply h_group_nth in Hgg.
    assert (Hgg0 : nth_error h g = Some (OGroup gg)).
    { destruct (Nat.eq_dec g t) as [->|N1]; [rewrite Nt in Hgg; discriminate Hgg|].
      destruct (Nat.eq_dec g c) as [->|N2]; [rewrite Nc in Hgg; discriminate Hgg|]. rewrite No in Hgg by assumption. exact Hgg. }
    apply (LG g gg Hin (proj2 (h_group_nth _ _ _) Hgg0)).
  - intros t1 tb1 c1 cc1 e Hd Ht1 Hc1 Hcc1 Hty1. apply h_column_nth in Hcc1.
    (* the column object c1 and its type in the old heap *)
    assert (Hcol : (c1 = c /\ c_type cc1 = c_type cc) \/ (c1 <> c /\ nth_error h c1 = Some (OColumn cc1))).
    { destruct (Nat.eq_dec c1 c) as [->|N2].
      - left. split; [reflexivity|]. rewrite Nc in Hcc1. inversion Hcc1. reflexivity.
      - right. split; [exact N2|]. destruct (Nat.eq_dec c1 t) as [->|N1]; [rewrite Nt in Hcc1; discriminate Hcc1|].
        rewrite No in Hcc1 by assumption. exact Hcc1. }
    destruct Hcol as [[-> Ety]|[N2 Hold]]; [apply Hty; congruence|].
    destruct (Nat.eq_dec t1 t) as [->|N1].
    + unfold h_table in Ht1. rewrite Nt in Ht1. inversion Ht1; subst tb1. cbn in Hc1. apply in_app_or in Hc1 as [Hc1|[<-|[]]]; [|congruence].
      eapply (LN t tb c1 cc1 e); eauto. apply h_column_nth; exact Hold.
    + assert (Ht10 : h_table h t1 = Some tb1).
      { unfold h_table in *. rewrite No in Ht1; [exact Ht1|exact N1|]. intros ->. rewrite Nc in Ht1. discriminate Ht1. }
      eapply (LN t1 tb1 c1 cc1 e); eauto. apply h_column_nth; exact Hold.
  - intros t1 tb1 i1 ix1 subs c1 Hd Ht1 Hi1 Hix1 Hs Hc1. apply h_index_nth in Hix1.
    assert (Hold : nth_error h i1 = Some (OIndex ix1)).
    { destruct (Nat.eq_dec i1 t) as [->|N1]; [rewrite Nt in Hix1; discriminate Hix1|].
      destruct (Nat.eq_dec i1 c) as [->|N2]; [rewrite Nc in Hix1; discriminate Hix1|]. rewrite No in Hix1 by assumption. exact Hix1. }
    destruct (Nat.eq_dec t1 t) as [->|N1].
    + unfold h_table in Ht1. rewrite Nt in Ht1. inversion Ht1; subst tb1. cbn in Hi1 |- *. apply in_or_app. left.
      eapply (LS t tb i1 ix1 subs c1); eauto. apply h_index_nth; exact Hold.
    + assert (Ht10 : h_table h t1 = Some tb1).
      { unfold h_table in *. rewrite No in Ht1; [exact Ht1|exact N1|]. intros ->. rewrite Nc in Ht1. discriminate Ht1. }
      eapply (LS t1 tb1 i1 ix1 subs c1); eauto. apply h_index_nth; exact Hold.
Qed.

(* (D) a detached index whose column subjects are columns of table t becomes the last index of t *)
Lemma LinkedMore_add_index h d db t tb i ix :
  LinkedMore h d db -> WW h -> h_table h t = Some tb -> nth_error h i = Some (OIndex ix) -> i_table ix = None ->
  (forall subs c, i_subjects ix = Some subs -> In (SubCol c) subs -> In c (t_columns tb)) ->
  LinkedMore (tupd h t i (set_indexes (t_indexes tb ++ [i]) tb) (OIndex (set_i_table (Some t) ix))) d db.
Proof.
  intros [LE LG LN LS] HW Ht Hi Hdet Hsub.
  set (tb2 := set_indexes (t_indexes tb ++ [i]) tb). set (ob2 := OIndex (set_i_table (Some t) ix)).
  assert (Hct : i <> t) by (eapply tupd_ct; eauto).
  assert (Nt : nth_error (tupd h t i tb2 ob2) t = Some (OTable tb2)) by (eapply tupd_nth_t; eauto).
  assert (Nc : nth_error (tupd h t i tb2 ob2) i = Some ob2) by (eapply tupd_nth_c; eauto).
  assert (No : forall x, x <> t -> x <> i -> nth_error (tupd h t i tb2 ob2) x = nth_error h x) by (intros; apply tupd_nth_other; auto).
  (* every table keeps its columns *)
  assert (Tt : forall x xb, h_table h x = Some xb -> exists xb', h_table (tupd h t i tb2 ob2) x = Some xb' /\ t_columns xb' = t_columns xb).
  { intros x xb Hx. destruct (Nat.eq_dec x t) as [->|N].
    - rewrite Ht in Hx. inversion Hx; subst xb. exists tb2. split; [unfold h_table; rewrite Nt; reflexivity|reflexivity].
    - exists xb. split; [|reflexivity]. unfold h_table. rewrite No; [exact Hx|exact N|].
      intros ->. apply h_table_nth in Hx. congruence. }
  assert (Tb : forall x xb', h_table (tupd h t i tb2 ob2) x = Some xb' ->
              (x = t /\ xb' = tb2) \/ (x <> t /\ h_table h x = Some xb')).
  { intros x xb' Hx. destruct (Nat.eq_dec x t) as [->|N].
    - left. split; [reflexivity|]. unfold h_table in Hx. rewrite Nt in Hx. inversion Hx; reflexivity.
    - right. split; [exact N|]. unfold h_table in *. rewrite No in Hx; [exact Hx|exact N|]. intros ->. rewrite Nc in Hx. discriminate Hx. }
  assert (Oo : forall x ob, nth_error (tupd h t i tb2 ob2) x = Some ob -> is_tab ob = false -> (forall z, ob <> OIndex z) -> nth_error h x = Some ob).
  { intros x ob Hx A B. destruct (Nat.eq_dec x t) as [->|N1]; [rewrite Nt in Hx; inversion Hx; subst; discriminate A|].
    destruct (Nat.eq_dec x i) as [->|N2]; [rewrite Nc in Hx; inversion Hx; subst; exfalso; eapply B; reflexivity|]. rewrite No in Hx by assumption. exact Hx. }
  split.
  - intros r rr Hin Hrr. apply h_reference_nth in Hrr. pose proof (Oo r _ Hrr eq_refl ltac:(intros z; discriminate)) as Hrr0.
    destruct (LE r rr Hin (proj2 (h_reference_nth _ _ _) Hrr0)) as [Hends Hshape]. split; [|exact Hshape]. intros cs Hcs.
    destruct (Hends cs Hcs) as (t0 & tb0 & A & B & C). destruct (Tt t0 tb0 B) as (tb0' & B' & C'). exists t0, tb0'.
    split; [exact A|]. split; [exact B'|]. rewrite C'. exact C.
  - intros g gg Hin Hgg. apply h_group_nth in Hgg. pose proof (Oo g _ Hgg eq_refl ltac:(intros z; discriminate)) as Hgg0.
    apply (LG g gg Hin (proj2 (h_group_nth _ _ _) Hgg0)).
  - intros t1 tb1 c1 cc1 e Hd Ht1 Hc1 Hcc1 Hty1. apply h_column_nth in Hcc1.
    pose proof (Oo c1 _ Hcc1 eq_refl ltac:(intros z; discriminate)) as Hold.
    destruct (Tb t1 tb1 Ht1) as [[-> ->]|[N1 Ht10]].
    + eapply (LN t tb c1 cc1 e); eauto. apply h_column_nth; exact Hold.
    + eapply (LN t1 tb1 c1 cc1 e); eauto. apply h_column_nth; exact Hold.
  - intros t1 tb1 i1 ix1 subs c1 Hd Ht1 Hi1 Hix1 Hs Hc1. apply h_index_nth in Hix1.
    destruct (Nat.eq_dec i1 i) as [->|Ni].
    + (* the index that was just attached *)
      rewrite Nc in Hix1. inversion Hix1; subst ix1. cbn [i_subjects set_i_table] in Hs.
      destruct (Tb t1 tb1 Ht1) as [[-> ->]|[N1 Ht10]]; [cbn [t_columns set_indexes tb2]; eapply Hsub; eauto|].
      exfalso. destruct (w_fwd _ _ (HW CKIdx) t1 tb1 i Ht10 Hi1) as (ob & A & B). rewrite Hi in A. inversion A; subst ob. cbn in B. congruence.
    + assert (Hold : nth_error h i1 = Some (OIndex ix1)).
      { destruct (Nat.eq_dec i1 t) as [->|N1]; [rewrite Nt in Hix1; discriminate Hix1|]. rewrite No in Hix1 by assumption. exact Hix1. }
      destruct (Tb t1 tb1 Ht1) as [[-> ->]|[N1 Ht10]].
      * cbn [t_indexes t_columns set_indexes tb2] in Hi1 |- *. apply in_app_or in Hi1 as [Hi1|[E|[]]]; [|congruence].
        eapply (LS t tb i1 ix1 subs c1); eauto. apply h_index_nth; exact Hold.
      * eapply (LS t1 tb1 i1 ix1 subs c1); eauto. apply h_index_nth; exact Hold.
Qed.

(* ====================== part 4 ====================== *)

Definition presM {A} (d : oid) (P : heap -> Prop) (m : M A) : Prop :=
  forall h h' r, JM d h -> P h -> m h = (h', r) -> JM d h' /\ P h'.

Lemma presM_bind {A B} d P (m : M A) (f : A -> M B) : presM d P m -> (forall a, presM d P (f a)) -> presM d P (bindM m f).
Proof.
  intros Hm Hf h h' r HJ HP H. apply bindM_inv in H as [[e [H1 _]]|[a [h1 [H1 H2]]]].
  - eapply Hm; eauto.
  - destruct (Hm _ _ _ HJ HP H1) as [HJ1 HP1]. eapply Hf; eauto.
Qed.
Lemma presM_iterM_in {A} d P (f : A -> M unit) l : (forall a, In a l -> presM d P (f a)) -> presM d P (iterM f l).
Proof.
  induction l as [|x l IH]; intros Hf; cbn [iterM].
  - intros h h' r HJ HP H. inversion H; subst. auto.
  - apply presM_bind; [apply Hf; left; reflexivity|intros _; apply IH; intros a Ha; apply Hf; right; exact Ha].
Qed.
Lemma presM_iterM {A} d P (f : A -> M unit) l : (forall a, presM d P (f a)) -> presM d P (iterM f l).
Proof. intros Hf. apply presM_iterM_in. intros a _. apply Hf. Qed.
Lemma presM_Rext {A} d (P : heap -> Prop) (m : M A) : guar Rext m -> (forall h h', Rext h h' -> P h -> P h') -> presM d P m.
Proof. intros G St h h' r HJ HP H. pose proof (G _ _ _ H) as R. split; [eapply JM_Rext; eauto|eapply St; eauto]. Qed.

Lemma JM_db d h : JM d h -> exists db, Inv h d db /\ LinkedMore h d db /\ h_database h d = Some db.
Proof. intros (db & I & LM). exists db. split; [exact I|]. split; [exact LM|]. destruct I as [[[A _ _ _ _ _] _ _] _]. exact A. Qed.

(* ---- a built column: detached, and an Enum type is a listed enum ---- *)
Definition built_col (d : oid) (h : heap) (c : oid) : Prop :=
  exists cc, nth_error h c = Some (OColumn cc) /\ c_table cc = None /\
             forall e, c_type cc = CTEnum e -> exists db, h_database h d = Some db /\ In e (d_enums db).

Definition col_typed (ty : coltype) (h : heap) (c : oid) : Prop :=
  exists cc, nth_error h c = Some (OColumn cc) /\ c_table cc = None /\ c_type cc = ty.
Lemma col_typed_Rext ty h h' c : Rext h h' -> col_typed ty h c -> col_typed ty h' c.
Proof.
  intros R (cc & A & B & C). destruct (Rext_old_obj _ _ _ _ R A) as (ob' & A' & Ev). apply views_c in Ev.
  destruct ob'; try discriminate Ev. cbn in Ev. inversion Ev. exists c0. repeat split; congruence.
Qed.
Lemma post_new_column_typed n ty u nn pk ai dflt nt c p : post (new_column n ty u nn pk ai dflt nt c p) (col_typed ty).
Proof.
  intros h h' x H. unfold new_column in H. apply bindM_inv in H as [[e [_ H]]|[nid [h1 [_ H]]]]; [discriminate H|].
  revert H. apply alloc_then_post.
  - intros h0. eexists. split; [rewrite nth_error_app2 by lia; rewrite Nat.sub_diag; reflexivity|split; reflexivity].
  - intros y. apply gR_set_note_parent.
  - intros a b y. apply col_typed_Rext.
Qed.

(* posts that may use the heap the computation started from *)
Definition post2 {A} (m : M A) (P : heap -> heap -> A -> Prop) : Prop := forall h h' x, m h = (h', Ok x) -> P h h' x.

Lemma build_column_post d bp h h' c db :
  h_database h d = Some db -> build_column d bp h = (h', Ok c) -> built_col d h' c.
Proof.
  intros Hdb H. pose proof (gR_build_column _ _ _ _ _ H) as R.
  assert (Hdb' : h_database h' d = Some db) by (eapply Rext_db; eauto).
  unfold build_column in H.
  destruct bp as [s0|b0|z0|f0| |d0|l0|tag dd]; try discriminate H.
  destruct (N.eq_dec tag 5) as [->|Nt].
  2:{ exfalso. destruct tag as [|p]; [discriminate H|].
      destruct p as [q|q|]; try discriminate H. destruct q as [r0|r0|]; try discriminate H. destruct r0; try discriminate H. congruence. }
  apply bindM_inv in H as [[e [_ H]]|[dflt [h1 [H1 H]]]]; [discriminate H|].
  destruct (fstr_of dd "type") as [ty|]; [|discriminate H].
  apply bindM_inv in H as [[e [_ H]]|[sn [h2 [H2 H]]]]; [discriminate H|].
  apply bindM_inv in H as [[e [_ H]]|[dbv [h3 [H3 H]]]]; [discriminate H|].
  apply bindM_inv in H as [[e [_ H]]|[hh [h4 [H4 H]]]]; [discriminate H|].
  apply bindM_inv in H as [[e [_ H]]|[nt [h5 [H5 H]]]]; [discriminate H|].
  pose proof (post_new_column_typed _ _ _ _ _ _ _ _ _ _ _ _ _ H) as (cc & A & B & C).
  exists cc. split; [exact A|]. split; [exact B|]. intros e Ety. exists db. split; [exact Hdb'|].
  (* the type was looked up in the enums of the database as it was when build_column read it *)
  assert (E3 : h3 = h2 /\ h_database h2 d = Some dbv).
  { pose proof (ro_get_database d _ _ _ H3) as ->. split; [reflexivity|].
    unfold get_database, bindM, lookup in H3. unfold h_database. destruct (nth_error h2 d) as [[]|]; inversion H3; reflexivity. }
  destruct E3 as [-> Hdbv].
  assert (E4 : h4 = h2 /\ hh = h2) by (unfold get_heap in H4; inversion H4; auto). destruct E4 as [-> ->].
  (* h2 -> h' is a neutral extension, so the database value read then is the one of the final heap *)
  assert (E5 : h5 = h2) by (unfold lift in H5; inversion H5; reflexivity). subst h5.
  assert (R2 : Rext h2 h') by (eapply gR_new_column; eauto).
  assert (Edb : dbv = db) by (pose proof (Rext_db _ _ _ _ R2 Hdbv); congruence). subst dbv.
  rewrite C in Ety.
  match type of Ety with (match find ?f ?l with _ => _ end) = _ => destruct (find f l) as [e1|] eqn:Ef end; [|discriminate Ety].
  inversion Ety; subst e1. apply find_some in Ef. apply Ef.
Qed.

Lemma Inv_db_unique h d db db' : Inv h d db -> Inv h d db' -> db' = db.
Proof. intros [[[A _ _ _ _ _] _ _] _] [[[B _ _ _ _ _] _ _] _]. congruence. Qed.

(* one column of a table under construction *)
Lemma presM_add_built_column d t cb : presM d (fun h => is_tbl h t) (do! c <- build_column d cb ;; table_add_column t c).
Proof.
  intros h h' r HJ HP H. apply bindM_inv in H as [[e [H1 _]]|[c [h1 [H1 H2]]]].
  - pose proof (gR_build_column _ _ _ _ _ H1) as R. split; [eapply JM_Rext; eauto|eapply is_tbl_Rext; eauto].
  - pose proof (gR_build_column _ _ _ _ _ H1) as R.
    destruct (JM_db _ _ HJ) as (db0 & _ & _ & Hdb0).
    destruct (build_column_post d cb h h1 c db0 Hdb0 H1) as (cc & Hc & Hd & Hty).
    assert (HJ1 : JM d h1) by (eapply JM_Rext; eauto). assert (HP1 : is_tbl h1 t) by (eapply is_tbl_Rext; eauto).
    destruct (JM_db _ _ HJ1) as (db & I & LM & Hdb).
    unfold is_tbl in HP1. destruct (h_table h1 t) as [tb|] eqn:Ht; [|congruence].
    destruct I as [ID HW].
    destruct (add_column_step h1 t tb c cc HW Ht Hc Hd) as [Erun HW']. rewrite Erun in H2. inversion H2; subst h' r. clear H2.
    assert (S : same_dview h1 (tupd h1 t c (set_columns (t_columns tb ++ [c]) tb) (OColumn (set_c_table (Some t) cc))))
      by (eapply gd_table_add_column; eauto).
    split.
    + exists db. split; [split; [eapply InvDB_view; eauto|exact HW']|].
      apply LinkedMore_add_column; auto. intros e Ety. destruct (Hty e Ety) as (db1 & A & B). congruence.
    + eapply is_tbl_dview; [exact S|]. unfold is_tbl. congruence.
Qed.

(* a column subject resolved for table t is one of t's columns, and stays one while the other subjects are resolved *)
Lemma subject_of_post t x h h' y : subject_of t x h = (h', Ok y) ->
  forall c, y = SubCol c -> h' = h /\ exists tb, h_table h t = Some tb /\ In c (t_columns tb).
Proof.
  intros H c ->. unfold subject_of in H. destruct x as [nm|b0|z0|f0| |d0|l0|tag xd]; try discriminate H.
  - apply bindM_inv in H as [[e [_ H]]|[tb [h1 [H1 H]]]]; [discriminate H|].
    pose proof (ro_get_table t _ _ _ H1) as ->.
    assert (Htb : h_table h t = Some tb).
    { unfold get_table, bindM, lookup in H1. unfold h_table. destruct (nth_error h t) as [[]|]; inversion H1; reflexivity. }
    apply bindM_inv in H as [[e [_ H]]|[hh [h2 [H2 H]]]]; [discriminate H|]. unfold get_heap in H2. inversion H2; subst h2 hh.
    match type of H with (match find ?f ?l with _ => _ end) _ = _ => destruct (find f l) as [c1|] eqn:Ef end; [|discriminate H].
    unfold ret in H. inversion H; subst. split; [reflexivity|]. exists tb. split; [exact Htb|]. apply find_some in Ef. apply Ef.
  - exfalso. destruct tag as [|p]; [discriminate H|]. destruct p as [[q|q|]|q|]; try discriminate H.
    all: destruct (dget (K "text") xd) as [[]|]; try discriminate H.
    all: apply bindM_inv in H as [[e [_ H]]|[xx [h1 [_ H]]]]; [discriminate H|]; unfold ret in H; inversion H.
Qed.

Lemma subjects_post t l : forall h h' subs, mapMM (subject_of t) l h = (h', Ok subs) ->
  forall c, In (SubCol c) subs -> exists tb, h_table h' t = Some tb /\ In c (t_columns tb).
Proof.
  induction l as [|x l IH]; intros h h' subs H c Hin; cbn [mapMM] in H.
  - inversion H; subst. destruct Hin.
  - apply bindM_inv in H as [[e [_ H]]|[y [h1 [H1 H]]]]; [discriminate H|].
    apply bindM_inv in H as [[e [_ H]]|[ys [h2 [H2 H]]]]; [discriminate H|]. unfold ret in H. inversion H; subst h2 subs. clear H.
    destruct Hin as [E|Hin]; [|eapply IH; eauto].
    destruct (subject_of_post t x h h1 y H1 c E) as (-> & tb & Ht & Hc).
    pose proof (g_mapMM _ Rext_refl Rext_trans (subject_of t) l (gR_subject_of t) _ _ _ H2) as R.
    destruct (Rext_table_fwd _ _ _ _ R Ht) as (tb' & Ht' & Ec & _). exists tb'. split; [exact Ht'|]. rewrite Ec. exact Hc.
Qed.

(* one index of a table under construction *)
Lemma presM_add_built_index d t ib l :
  presM d (fun h => is_tbl h t)
    (do! i <- build_index ib ;; do! subs <- mapMM (subject_of t) l ;; do!! upd_index i (set_subjects subs) ;; table_add_index t i).
Proof.
  intros h h' r HJ HP H. apply bindM_inv in H as [[e [H1 _]]|[i [h1 [H1 H2]]]].
  { pose proof (gR_build_index _ _ _ _ H1) as R. split; [eapply JM_Rext; eauto|eapply is_tbl_Rext; eauto]. }
  pose proof (gR_build_index _ _ _ _ H1) as R1. pose proof (post_build_index _ _ _ _ H1) as Hdi.
  apply bindM_inv in H2 as [[e [H3 _]]|[subs [h2 [H3 H4]]]].
  { pose proof (g_mapMM _ Rext_refl Rext_trans (subject_of t) l (gR_subject_of t) _ _ _ H3) as R2.
    pose proof (Rext_trans _ _ _ R1 R2) as R. split; [eapply JM_Rext; eauto|eapply is_tbl_Rext; eauto]. }
  pose proof (g_mapMM _ Rext_refl Rext_trans (subject_of t) l (gR_subject_of t) _ _ _ H3) as R2.
  pose proof (detached_idx_Rext _ _ _ R2 Hdi) as Hdi2.
  apply bindM_inv in H4 as [[e [H5 _]]|[u [h3 [H5 H6]]]].
  { pose proof (upd_index_subjects_Rext _ _ _ _ _ Hdi2 H5) as R3.
    pose proof (Rext_trans _ _ _ (Rext_trans _ _ _ R1 R2) R3) as R. split; [eapply JM_Rext; eauto|eapply is_tbl_Rext; eauto]. }
  pose proof (upd_index_subjects_Rext _ _ _ _ _ Hdi2 H5) as R3.
  pose proof (Rext_trans _ _ _ (Rext_trans _ _ _ R1 R2) R3) as R.
  assert (HJ3 : JM d h3) by (eapply JM_Rext; eauto). assert (HP3 : is_tbl h3 t) by (eapply is_tbl_Rext; eauto).
  assert (Hdi3 : detached_idx h3 i) by (eapply detached_idx_Rext; [exact (Rext_trans _ _ _ R2 R3)|exact Hdi]).
  destruct Hdi3 as (ix & Hi & Hd). destruct (JM_db _ _ HJ3) as (db & [ID HW] & LM & Hdb).
  unfold is_tbl in HP3. destruct (h_table h3 t) as [tb|] eqn:Ht; [|congruence].
  assert (S : same_dview h3 h') by (eapply gd_table_add_index; eauto).
  destruct (add_index_step h3 t tb i ix HW Ht Hi Hd) as [[e R']|[_ [Erun HW']]].
  { rewrite R' in H6. inversion H6; subst. split; [exists db; split; [split; assumption|exact LM]|unfold is_tbl; congruence]. }
  rewrite Erun in H6. inversion H6; subst h' r. clear H6. split.
  - exists db. split; [split; [eapply InvDB_view; eauto|exact HW']|].
    apply LinkedMore_add_index; auto.
    (* the subjects just stored are columns of t *)
    intros subs' c Hs Hc. destruct Hdi2 as (ix2 & Hi2 & Hd2).
    rewrite (upd_index_ok _ _ _ _ Hi2) in H5. inversion H5; subst h3.
    rewrite (nth_replace_same' _ _ _ _ Hi2) in Hi. inversion Hi; subst ix. cbn [i_subjects set_subjects] in Hs. inversion Hs; subst subs'.
    destruct (subjects_post t l _ _ _ H3 c Hc) as (tb2 & Ht2 & Hc2).
    destruct (Rext_table_fwd _ _ _ _ R3 Ht2) as (tb3 & Ht3 & Ec & _). rewrite Ht in Ht3. inversion Ht3; subst tb3. rewrite Ec. exact Hc2.
  - eapply is_tbl_dview; [exact S|]. unfold is_tbl. congruence.
Qed.

Theorem build_table_keeps_JM d bp h h' r : good_table_bp bp -> JM d h -> build_table d bp h = (h', r) -> JM d h'.
Proof.
  intros Hg HJ H. unfold build_table in H.
  destruct bp as [s0|b0|z0|f0| |d0|l0|tag dd]; try (inversion H; subst; exact HJ).
  destruct (N.eq_dec tag 7) as [->|Nt].
  2:{ assert (E : (h', r) = (h, Raise (EStuck 411))).
      { rewrite <- H. destruct tag as [|p]; [reflexivity|].
        destruct p as [q|q|]; try reflexivity. destruct q as [r0|r0|]; try reflexivity. destruct r0; try reflexivity. congruence. }
      inversion E; subst. exact HJ. }
  apply bindM_inv in H as [[e [H1 ->]]|[nt [h1 [H1 H]]]].
  { unfold lift in H1. assert (h' = h) by congruence. subst h'. exact HJ. }
  assert (h1 = h) by (unfold lift in H1; congruence). subst h1.
  apply bindM_inv in H as [[e [H2 ->]]|[t [h2 [H2 H]]]].
  { eapply JM_Rext; [|exact HJ]. eapply new_table_empty_Rext; [|exact H2]. exact Hg. }
  assert (R2 : Rext h h2) by (eapply new_table_empty_Rext; [|exact H2]; exact Hg).
  assert (HJ2 : JM d h2) by (eapply JM_Rext; eauto). assert (HP2 : is_tbl h2 t) by (eapply new_table_empty_post; eauto).
  apply bindM_inv in H as [[e [H3 ->]]|[u3 [h3 [H3 H]]]].
  { eapply (presM_iterM d (fun h => is_tbl h t)); [intros cb; apply presM_add_built_column|exact HJ2|exact HP2|exact H3]. }
  destruct (presM_iterM d (fun h => is_tbl h t) _ _ (fun cb => presM_add_built_column d t cb) _ _ _ HJ2 HP2 H3) as [HJ3 HP3].
  apply bindM_inv in H as [[e [H4 ->]]|[u4 [h4 [H4 H]]]].
  { eapply (presM_iterM d (fun h => is_tbl h t)); [intros ib|exact HJ3|exact HP3|exact H4]. apply (presM_add_built_index d t ib). }
  destruct (presM_iterM d (fun h => is_tbl h t) _ _ (fun ib => presM_add_built_index d t ib _) _ _ _ HJ3 HP3 H4) as [HJ4 HP4].
  inversion H; subst. exact HJ4.
Qed.

(* ====================== part 5 ====================== *)

(* the class of a returned object *)
Definition kind_is (k : kind) (h : heap) (x : oid) : Prop := exists ob, nth_error h x = Some ob /\ okind ob = Some k.
Lemma kind_is_Rext k h h' x : Rext h h' -> kind_is k h x -> kind_is k h' x.
Proof.
  intros R (ob & A & B). destruct (Rext_old_obj _ _ _ _ R A) as (ob' & A' & Ev). apply views_d in Ev.
  exists ob'. split; [exact A'|]. destruct ob; try discriminate B; destruct ob'; try discriminate Ev; cbn in *; congruence.
Qed.
Lemma kind_is_add_ok k h d o : kind_is k h o -> k <> KRef -> k <> KGroup -> add_ok h d o.
Proof.
  intros (ob & A & B) N1 N2 db Hdb. split.
  - intros rr Hr. apply h_reference_nth in Hr. rewrite Hr in A. inversion A; subst. cbn in B. congruence.
  - intros gg Hg. apply h_group_nth in Hg. rewrite Hg in A. inversion A; subst. cbn in B. congruence.
Qed.
Lemma alloc_post ob k : okind ob = Some k -> post (alloc ob) (kind_is k).
Proof.
  intros Hk h h' x H. unfold alloc in H. inversion H; subst. exists ob. split; [|exact Hk].
  rewrite nth_error_app2 by lia. rewrite Nat.sub_diag. reflexivity.
Qed.
Lemma alloc_then_kind {A} ob k (g : oid -> M A) : okind ob = Some k -> (forall x, guar Rext (g x)) ->
  post (do! x <- alloc ob ;; do!! g x ;; ret x) (kind_is k).
Proof.
  intros Hk Hg h h' x H. revert H. apply alloc_then_post; [| exact Hg | intros a b y; apply kind_is_Rext].
  intros h0. exists ob. split; [|exact Hk]. rewrite nth_error_app2 by lia. rewrite Nat.sub_diag. reflexivity.
Qed.

Lemma post_new_enum n items s c : post (new_enum n items s c) (kind_is KEnum).
Proof. unfold new_enum. apply alloc_then_kind; [reflexivity|]. intros x. apply (g_iterM _ Rext_refl Rext_trans). intros a. apply gR_enum_add_item. Qed.
Lemma post_new_sticky n t : post (new_sticky n t) (kind_is KSticky).
Proof. unfold new_sticky. apply alloc_post. reflexivity. Qed.
Lemma post_new_project n i nt c : post (new_project n i nt c) (kind_is KProject).
Proof. unfold new_project. apply post_bind. intros nn. apply alloc_then_kind; [reflexivity|]. intros x. apply gR_set_note_parent. Qed.

Ltac postk :=
  repeat first [ apply post_new_enum | apply post_new_sticky | apply post_new_project | apply post_raise | apply post_stuck
               | apply post_bind; intros ?
               | match goal with |- post (match ?x with _ => _ end) _ => destruct x end
               | match goal with |- post (if ?x then _ else _) _ => destruct x end ].
Lemma post_build_enum bp : post (build_enum bp) (kind_is KEnum). Proof. unfold build_enum. postk. Qed.
Lemma post_build_sticky bp : post (build_sticky bp) (kind_is KSticky). Proof. unfold build_sticky. postk. Qed.
Lemma post_build_project bp : post (build_project bp) (kind_is KProject). Proof. unfold build_project. postk. Qed.

(* ---- read-only list traversals ---- *)
Lemma mapMM_ro_post {A B} (f : A -> M B) (P : heap -> B -> Prop) l : forall h h' ys,
  (forall a h0 h1 y, f a h0 = (h1, Ok y) -> h1 = h0 /\ P h0 y) ->
  mapMM f l h = (h', Ok ys) -> h' = h /\ Forall (P h) ys.
Proof.
  induction l as [|a l IH]; intros h h' ys Hf H; cbn [mapMM] in H.
  - inversion H; subst. split; [reflexivity|constructor].
  - apply bindM_inv in H as [[e [_ H]]|[y [h1 [H1 H]]]]; [discriminate H|].
    destruct (Hf _ _ _ _ H1) as [-> Py].
    apply bindM_inv in H as [[e [_ H]]|[ys' [h2 [H2 H]]]]; [discriminate H|].
    destruct (IH _ _ _ Hf H2) as [-> Pys]. inversion H; subst. split; [reflexivity|constructor; assumption].
Qed.

Lemma mapMM_nonempty {A B} (f : A -> M B) l h h' ys : l <> [] -> mapMM f l h = (h', Ok ys) -> exists y ys', ys = y :: ys'.
Proof.
  destruct l as [|a l]; [congruence|]. intros _ H. cbn [mapMM] in H.
  apply bindM_inv in H as [[e [_ H]]|[y [h1 [_ H]]]]; [discriminate H|].
  apply bindM_inv in H as [[e [_ H]]|[ys' [h2 [_ H]]]]; [discriminate H|]. inversion H. eauto.
Qed.

(* a located table is a listed table *)
Lemma locate_table_listed h d db sc nm t h' : Inv h d db -> locate_table d sc nm h = (h', Ok t) ->
  h' = h /\ In t (d_tables db) /\ exists tb, h_table h t = Some tb.
Proof.
  intros [[[Idb _ _ _ _ Ib] _ _] _] H. destruct (locate_table_in_dict h d db sc nm t h' Idb H) as [-> [G|G]];
    (split; [reflexivity|]); destruct (Ib _ _ G) as (Hin & tb & Ht & _); eauto.
Qed.

Lemma getitem_post t k h0 h1 c : table_getitem t k h0 = (h1, Ok c) ->
  h1 = h0 /\ forall tb, h_table h0 t = Some tb -> In c (t_columns tb).
Proof.
  intros H. destruct (h_table h0 t) as [tb|] eqn:Ht.
  - destruct (table_getitem_is_own_column h0 t tb k c h1 Ht H) as [-> Hin]. split; [reflexivity|]. intros tb' E. inversion E; subst. exact Hin.
  - exfalso. unfold table_getitem, get_table, bindM, lookup in H. unfold h_table in Ht.
    destruct (nth_error h0 t) as [[]|]; try discriminate H. discriminate Ht.
Qed.

(* ---- build_reference: both endpoint lists are columns of located, hence listed, tables ---- *)
Lemma build_reference_post d bp h h' r db : Inv h d db -> build_reference d bp h = (h', Ok r) ->
  exists rr, h' = h ++ [OReference rr] /\ r = length h /\ ref_ok h db rr.
Proof.
  intros I H. unfold build_reference in H.
  destruct bp as [s0|b0|z0|f0| |d0|l0|tag dd]; try discriminate H.
  destruct (N.eq_dec tag 4) as [->|Nt].
  2:{ exfalso. destruct tag as [|p]; [discriminate H|].
      destruct p as [q|q|]; try discriminate H. destruct q as [r0|r0|]; try discriminate H. destruct r0; try discriminate H. congruence. }
  destruct (fstr_of dd "table1") as [t1n|]; [|discriminate H].
  destruct (fstr_of dd "table2") as [t2n|]; [|discriminate H].
  destruct (fstr_of dd "col1") as [c1s|]; [|discriminate H].
  destruct (fstr_of dd "col2") as [c2s|]; [|discriminate H].
  apply bindM_inv in H as [[e [_ H]]|[t1 [h1 [H1 H]]]]; [discriminate H|].
  destruct (locate_table_listed _ _ _ _ _ _ _ I H1) as (-> & Hin1 & tb1 & Ht1).
  apply bindM_inv in H as [[e [_ H]]|[col1 [h2 [H2 H]]]]; [discriminate H|].
  destruct (mapMM_ro_post (fun c : pystr => table_getitem t1 (KStr (strip_paren_blank c)))
             (fun h0 c => forall tb, h_table h0 t1 = Some tb -> In c (t_columns tb)) _ _ _ _
             (fun a h0 h1' y Hy => getitem_post _ _ _ _ _ Hy) H2) as [-> P1].
  apply bindM_inv in H as [[e [_ H]]|[t2 [h3 [H3 H]]]]; [discriminate H|].
  destruct (locate_table_listed _ _ _ _ _ _ _ I H3) as (-> & Hin2 & tb2 & Ht2).
  apply bindM_inv in H as [[e [_ H]]|[col2 [h4 [H4 H]]]]; [discriminate H|].
  destruct (mapMM_ro_post (fun c : pystr => table_getitem t2 (KStr (strip_paren_blank c)))
             (fun h0 c => forall tb, h_table h0 t2 = Some tb -> In c (t_columns tb)) _ _ _ _
             (fun a h0 h1' y Hy => getitem_post _ _ _ _ _ Hy) H4) as [-> P2].
  unfold new_reference, alloc in H. inversion H; subst. eexists. split; [reflexivity|]. split; [reflexivity|].
  split.
  2:{ cbn [r_col1 r_col2]. destruct (mapMM_nonempty _ _ _ _ _ (split_on_nonempty 44%N c1s) H2) as (a1 & b1 & ->).
      destruct (mapMM_nonempty _ _ _ _ _ (split_on_nonempty 44%N c2s) H4) as (a2 & b2 & ->). exists a1, b1, a2, b2. split; reflexivity. }
  intros cs [E|E]; cbn in E; inversion E; subst cs.
  - exists t1, tb1. split; [exact Hin1|]. split; [exact Ht1|]. intros c Hc. rewrite Forall_forall in P1. apply (P1 c Hc tb1 Ht1).
  - exists t2, tb2. split; [exact Hin2|]. split; [exact Ht2|]. intros c Hc. rewrite Forall_forall in P2. apply (P2 c Hc tb2 Ht2).
Qed.

(* ====================== part 6 ====================== *)

(* ---- build_group: the items are located, hence listed, tables ---- *)
Lemma group_items_post d db l : forall acc h h' items, Inv h d db -> group_items d l acc h = (h', Ok items) ->
  h' = h /\ (incl acc (d_tables db) -> incl items (d_tables db)).
Proof.
  induction l as [|x l IH]; intros acc h h' items I H; cbn [group_items] in H.
  - inversion H; subst. auto.
  - destruct x; try discriminate H.
    match type of H with (let '(sc, tb) := ?e in _) _ = _ => destruct e as [sc tb] end.
    apply bindM_inv in H as [[e [_ H]]|[t [h1 [H1 H]]]]; [discriminate H|].
    destruct (locate_table_listed _ _ _ _ _ _ _ I H1) as (-> & Hin & _).
    apply bindM_inv in H as [[e [_ H]]|[hh [h2 [H2 H]]]]; [discriminate H|].
    unfold get_heap in H2. inversion H2; subst h2 hh.
    destruct (list_has (table_eqb h) t acc); [discriminate H|].
    destruct (IH _ _ _ _ I H) as [-> Hincl]. split; [reflexivity|]. intros Ha. apply Hincl.
    intros y Hy. apply in_app_or in Hy as [Hy|[<-|[]]]; auto.
Qed.

Lemma app_table h ob t tb : h_table h t = Some tb -> h_table (h ++ [ob]) t = Some tb.
Proof. unfold h_table. intros H. rewrite nth_error_app1; [exact H|]. destruct (nth_error h t) eqn:E; [|discriminate]. eapply nth_some_lt; eauto. Qed.

Lemma build_group_add_ok d bp h h' g : JM d h -> build_group d bp h = (h', Ok g) -> add_ok h' d g.
Proof.
  intros HJ H. pose proof (gR_build_group _ _ _ _ _ H) as R.
  destruct (JM_db _ _ HJ) as (db & I & _ & Hdb). unfold build_group in H.
  destruct bp as [s0|b0|z0|f0| |d0|l0|tag dd]; try discriminate H.
  destruct (N.eq_dec tag 11) as [->|Nt].
  2:{ exfalso. destruct tag as [|p]; [discriminate H|].
      destruct p as [q|q|]; try discriminate H. destruct q as [r0|r0|]; try discriminate H. destruct r0 as [r1|r1|]; try discriminate H.
      destruct r1; try discriminate H. congruence. }
  apply bindM_inv in H as [[e [_ H]]|[items [h1 [H1 H]]]]; [discriminate H|].
  destruct (group_items_post d db _ _ _ _ _ I H1) as [-> Hincl]. specialize (Hincl (incl_nil_l _)).
  apply bindM_inv in H as [[e [_ H]]|[nt [h2 [H2 H]]]]; [discriminate H|].
  apply bindM_inv in H as [[e [_ H]]|[n [h3 [H3 H]]]]; [discriminate H|].
  destruct (fstr_of dd "name") as [nm|]; [|discriminate H].
  unfold new_group, alloc in H. inversion H; subst h' g. clear H.
  intros db' Hdb'. assert (db' = db) by (pose proof (Rext_db _ _ _ _ R Hdb); congruence). subst db'.
  split.
  - intros rr Hr. unfold h_reference in Hr. rewrite nth_error_app2 in Hr by lia. rewrite Nat.sub_diag in Hr. discriminate Hr.
  - intros gg Hg. unfold h_group in Hg. rewrite nth_error_app2 in Hg by lia. rewrite Nat.sub_diag in Hg. cbn in Hg. inversion Hg; subst. exact Hincl.
Qed.

Lemma build_reference_add_ok d bp h h' r : JM d h -> build_reference d bp h = (h', Ok r) -> add_ok h' d r.
Proof.
  intros HJ H. destruct (JM_db _ _ HJ) as (db & I & _ & Hdb).
  destruct (build_reference_post d bp h h' r db I H) as (rr & -> & -> & Hends & Hshape).
  intros db' Hdb'. assert (db' = db).
  { unfold h_database in *. rewrite nth_error_app1 in Hdb' by (destruct (nth_error h d) eqn:E; [eapply nth_some_lt; eauto|discriminate]). congruence. }
  subst db'. split.
  - intros rr' Hr. unfold h_reference in Hr. rewrite nth_error_app2 in Hr by lia. rewrite Nat.sub_diag in Hr. cbn in Hr. inversion Hr; subst rr'.
    split; [|exact Hshape]. intros cs Hcs. destruct (Hends cs Hcs) as (t & tb & A & B & C). exists t, tb. split; [exact A|]. split; [apply app_table; exact B|exact C].
  - intros gg Hg. unfold h_group in Hg. rewrite nth_error_app2 in Hg by lia. rewrite Nat.sub_diag in Hg. discriminate Hg.
Qed.

(* ---- the whole build ---- *)

Lemma JM_build_then_add {A} d (b : A -> M oid) bp h h' r :
  guar Rext (b bp) -> (forall h0 h1 x, JM d h0 -> b bp h0 = (h1, Ok x) -> add_ok h1 d x) ->
  JM d h -> (do! x <- b bp ;; db_add d x) h = (h', r) -> JM d h'.
Proof.
  intros G Hok HJ H. apply bindM_inv in H as [[e [H1 _]]|[x [h1 [H1 H2]]]].
  - eapply JM_Rext; [eapply G; eauto|exact HJ].
  - assert (HJ1 : JM d h1) by (eapply JM_Rext; [eapply G; eauto|exact HJ]).
    eapply JM_db_add; [exact HJ1|exact (Hok h h1 x HJ H1)|exact H2].
Qed.

Definition presJ {A} (d : oid) (m : M A) : Prop := forall h h' r, JM d h -> m h = (h', r) -> JM d h'.
Lemma presJ_bind {A B} d (m : M A) (f : A -> M B) : presJ d m -> (forall a, presJ d (f a)) -> presJ d (bindM m f).
Proof.
  intros Hm Hf h h' r HJ H. apply bindM_inv in H as [[e [H1 _]]|[a [h1 [H1 H2]]]].
  - eapply Hm; eauto.
  - eapply Hf; [eapply Hm; eauto|exact H2].
Qed.
Lemma presJ_iterM_in {A} d (f : A -> M unit) l : (forall a, In a l -> presJ d (f a)) -> presJ d (iterM f l).
Proof.
  induction l as [|x l IH]; intros Hf; cbn [iterM].
  - intros h h' r HJ H. inversion H; subst. exact HJ.
  - apply presJ_bind; [apply Hf; left; reflexivity|intros _; apply IH; intros a Ha; apply Hf; right; exact Ha].
Qed.

Theorem build_database_linked_more s allow sq dq h0 h1 r :
  WW h0 -> (forall t tb, h_table h0 t = Some tb -> NoDup (names_of tb)) -> Forall good_table_bp (ps_tables s) ->
  build_database s allow sq dq h0 = (h1, r) -> JM (length h0) h1.
Proof.
  intros HW Hgood Hg H. unfold build_database in H. unfold bindM at 1 in H. unfold new_database, alloc in H. cbv beta iota in H.
  set (db0 := mkDatabase [] [] [] [] [] [] None allow sq dq) in *. set (d := length h0) in *.
  assert (HJ : JM d (h0 ++ [ODatabase db0])).
  { exists db0. split; [split; [apply fresh_database_full; exact Hgood|]|].
    - intros k. eapply W_Rext; [|apply HW]. eapply (gR_alloc (ODatabase db0)); [exact Logic.I|reflexivity].
    - split.
      + intros r0 rr [].
      + intros g gg [].
      + intros t tb c cc e Hd Ht Hc. exfalso. apply h_table_nth in Ht. apply nth_some_lt in Ht. rewrite app_length in Ht. cbn in Ht. unfold d in Hd. lia.
      + intros t tb i ix subs c Hd Ht. exfalso. apply h_table_nth in Ht. apply nth_some_lt in Ht. rewrite app_length in Ht. cbn in Ht. unfold d in Hd. lia. }
  rewrite Forall_forall in Hg. revert H. generalize (h0 ++ [ODatabase db0]) HJ. clear HJ. intros hh HJ H.
  eapply (presJ_bind d) in H; [exact H| |intros _|exact HJ].
  { apply presJ_iterM_in. intros bp _ h h' r0 HJ0 H0. eapply (JM_build_then_add d build_enum bp); eauto; [apply gR_build_enum|].
    intros h2 h3 x _ Hx. eapply kind_is_add_ok; [eapply post_build_enum; eauto|discriminate|discriminate]. }
  apply presJ_bind; [|intros _].
  { apply presJ_iterM_in. intros bp Hin h h' r0 HJ0 H0.
    apply bindM_inv in H0 as [[e [H1 _]]|[t [h2 [H1 H2]]]]; [eapply build_table_keeps_JM; eauto|].
    assert (HJ2 : JM d h2) by (eapply build_table_keeps_JM; eauto).
    destruct (JM_db _ _ HJ) as (dbx & _).
    assert (Ht : is_tbl h2 t).
    { destruct HJ0 as (db1 & [ID1 HW1] & _). destruct (build_table_keeps_J d bp h h2 (Ok t) (Hg bp Hin) (ex_intro _ db1 (conj ID1 HW1)) H1) as [_ X]. apply X; reflexivity. }
    eapply JM_db_add; [exact HJ2| |exact H2].
    eapply (kind_is_add_ok KTable); [|discriminate|discriminate].
    unfold is_tbl in Ht. destruct (h_table h2 t) as [tb|] eqn:E; [|congruence]. exists (OTable tb). split; [apply h_table_nth; exact E|reflexivity]. }
  apply presJ_bind; [|intros _].
  { apply presJ_iterM_in. intros bp _ h h' r0 HJ0 H0. eapply (JM_build_then_add d (build_group d) bp); eauto; [apply gR_build_group|].
    intros h2 h3 x HJx Hx. eapply build_group_add_ok; eauto. }
  apply presJ_bind; [|intros _].
  { apply presJ_iterM_in. intros bp _ h h' r0 HJ0 H0. eapply (JM_build_then_add d build_sticky bp); eauto; [apply gR_build_sticky|].
    intros h2 h3 x _ Hx. eapply kind_is_add_ok; [eapply post_build_sticky; eauto|discriminate|discriminate]. }
  apply presJ_bind; [|intros _].
  { destruct (ps_project s) as [bp|]; [|intros h h' r0 HJ0 H0; inversion H0; subst; exact HJ0].
    intros h h' r0 HJ0 H0. eapply (JM_build_then_add d build_project bp); eauto; [apply gR_build_project|].
    intros h2 h3 x _ Hx. eapply kind_is_add_ok; [eapply post_build_project; eauto|discriminate|discriminate]. }
  apply presJ_bind; [|intros _].
  { apply presJ_iterM_in. intros bp _ h h' r0 HJ0 H0. eapply (JM_build_then_add d (build_reference d) bp); eauto; [apply gR_build_reference|].
    intros h2 h3 x HJx Hx. eapply build_reference_add_ok; eauto. }
  intros h h' r0 HJ0 H0. inversion H0; subst. exact HJ0.
Qed.

(* ====================== part 7 ====================== *)

(* ---- reference ownership queries on a linked database ---- *)
Lemma table_eqb_refl h t : table_eqb h t t = true. Proof. unfold table_eqb. rewrite Nat.eqb_refl. reflexivity. Qed.

Lemma mapM_const {A B} (f : A -> res B) (v : B) l : (forall x, In x l -> f x = Ok v) -> mapM f l = Ok (map (fun _ => v) l).
Proof.
  induction l as [|x l IH]; intros H; cbn [mapM map]; [reflexivity|].
  rewrite (H x (or_introl eq_refl)). cbn. rewrite IH by (intros y Hy; apply H; right; exact Hy). reflexivity.
Qed.

(* every column of a side points to the one table that holds the whole side *)
Lemma side_resolves h t tb cs : WW h -> h_table h t = Some tb -> incl cs (t_columns tb) ->
  forall c, In c cs -> col_table h c = Ok (Some t).
Proof.
  intros HW Ht Hincl c Hc. destruct (w_fwd _ _ (HW CKCol) t tb c Ht (Hincl c Hc)) as (ob & A & B).
  destruct ob; try discriminate B. unfold col_table, h_column. rewrite A. cbn in B. congruence.
Qed.

Lemma validate_side_ok h t tb c0 rest : WW h -> h_table h t = Some tb -> incl (c0 :: rest) (t_columns tb) ->
  (do t0 <- col_table h c0; do ts <- mapM (col_table h) (c0 :: rest);
   if existsb (fun x => negb (otable_eqb h x t0)) ts then Raise EDBML else Ok tt) = Ok tt.
Proof.
  intros HW Ht Hincl. pose proof (side_resolves h t tb (c0 :: rest) HW Ht Hincl) as R.
  rewrite (R c0 (or_introl eq_refl)). cbn [bind].
  rewrite (mapM_const (col_table h) (Some t) (c0 :: rest) R). cbn [bind].
  assert (E : forall l : list oid, existsb (fun x => negb (otable_eqb h x (Some t))) (map (fun _ => Some t) l) = false).
  { induction l as [|y l IH]; [reflexivity|]. cbn [map existsb]. cbn [otable_eqb opt_eqb]. rewrite table_eqb_refl. cbn. exact IH. }
  rewrite E. reflexivity.
Qed.

(* the table of each side of a contained reference: validation succeeds and both sides resolve to listed tables
   that hold all the columns of the side *)
Theorem ref_tables_resolve h d db r rr : Inv h d db -> LinkedMore h d db -> In r (d_refs db) -> h_reference h r = Some rr ->
  exists t1 tb1 t2 tb2 cs1 cs2,
    r_col1 rr = Some cs1 /\ r_col2 rr = Some cs2 /\
    ref_table1 h rr = Ok (Some t1) /\ ref_table2 h rr = Ok (Some t2) /\
    In t1 (d_tables db) /\ In t2 (d_tables db) /\ h_table h t1 = Some tb1 /\ h_table h t2 = Some tb2 /\
    incl cs1 (t_columns tb1) /\ incl cs2 (t_columns tb2).
Proof.
  intros [ID HW] LM Hin Hr. destruct (lm_ends _ _ _ LM r rr Hin Hr) as [Hends (c1 & l1 & c2 & l2 & S1 & S2)].
  destruct (Hends (c1 :: l1) (or_introl S1)) as (t1 & tb1 & In1 & Ht1 & I1).
  destruct (Hends (c2 :: l2) (or_intror S2)) as (t2 & tb2 & In2 & Ht2 & I2).
  exists t1, tb1, t2, tb2, (c1 :: l1), (c2 :: l2).
  assert (V : ref_validate h rr = Ok tt).
  { unfold ref_validate. rewrite S1, S2. rewrite (validate_side_ok h t1 tb1 c1 l1 HW Ht1 I1). cbn [bind].
    apply (validate_side_ok h t2 tb2 c2 l2 HW Ht2 I2). }
  repeat split; auto.
  - unfold ref_table1. rewrite V, S1. cbn [bind]. apply (side_resolves h t1 tb1 (c1 :: l1) HW Ht1 I1). left. reflexivity.
  - unfold ref_table2. rewrite V, S2. cbn [bind]. apply (side_resolves h t2 tb2 (c2 :: l2) HW Ht2 I2). left. reflexivity.
Qed.

(* two listed tables that compare equal are the same object: listed tables have distinct full names *)
Lemma listed_table_eqb_same h d db a b : InvDB h d db -> In a (d_tables db) -> In b (d_tables db) -> table_eqb h a b = true -> a = b.
Proof.
  intros [[Idb Ind Ik Ig If Ib] _ _] Ha Hb E.
  destruct (If a Ha) as (ta & Hta & _ & Hka). destruct (If b Hb) as (tb & Htb & _ & Hkb).
  pose proof (table_eqb_names h a b ta tb Hta Htb E) as En.
  assert (K1 : In (table_full_name ta) (names_of ta)) by (left; reflexivity).
  pose proof (Hka _ K1) as G1. rewrite En in K1. pose proof (Hkb _ K1) as G2. congruence.
Qed.

(* SQL key holder: a reference that is not many-to-many is held by exactly one listed table *)
Theorem key_holder_unique h d db r rr : Inv h d db -> LinkedMore h d db -> In r (d_refs db) -> h_reference h r = Some rr ->
  (ostr_eqb (r_type rr) (Some MANY_TO_ONE) || ostr_eqb (r_type rr) (Some ONE_TO_ONE) || ostr_eqb (r_type rr) (Some ONE_TO_MANY)) = true ->
  exists holder, In holder (d_tables db) /\
    forall t, In t (d_tables db) -> holds_key h rr t = Ok (Nat.eqb t holder).
Proof.
  intros I LM Hin Hr Hty. pose proof I as [ID HW].
  destruct (ref_tables_resolve h d db r rr I LM Hin Hr) as (t1 & tb1 & t2 & tb2 & cs1 & cs2 & _ & _ & R1 & R2 & In1 & In2 & _).
  assert (Eq : forall x t, In x (d_tables db) -> In t (d_tables db) -> otable_eqb h (Some x) (Some t) = Nat.eqb t x).
  { intros x t Hx Ht. cbn [otable_eqb opt_eqb]. destruct (Nat.eqb t x) eqn:E.
    - apply Nat.eqb_eq in E. subst. apply table_eqb_refl.
    - destruct (table_eqb h x t) eqn:E2; [|reflexivity]. apply (listed_table_eqb_same h d db x t ID Hx Ht) in E2. subst.
      rewrite Nat.eqb_refl in E. discriminate E. }
  unfold holds_key.
  destruct (ostr_eqb (r_type rr) (Some MANY_TO_ONE) || ostr_eqb (r_type rr) (Some ONE_TO_ONE)) eqn:E1.
  - exists t1. split; [exact In1|]. intros t Ht. rewrite R1. cbn [bind]. rewrite (Eq t1 t In1 Ht). reflexivity.
  - cbn [orb] in Hty. rewrite Hty. exists t2. split; [exact In2|]. intros t Ht. rewrite R2. cbn [bind]. rewrite (Eq t2 t In2 Ht). reflexivity.
Qed.

(* Table.get_refs of a listed table: exactly the contained references whose left side is that table *)
Definition left_is (h : heap) (t : oid) (r : oid) : bool :=
  match h_reference h r with
  | Some rr => match ref_table1 h rr with Ok (Some t1) => Nat.eqb t1 t | _ => false end
  | None => false
  end.

Theorem get_refs_exact h d db t : Inv h d db -> LinkedMore h d db -> In t (d_tables db) ->
  table_get_refs t h = (h, Ok (filter (left_is h t) (d_refs db))).
Proof.
  intros I LM Ht. pose proof I as [ID HW]. pose proof (id_tables _ _ _ ID) as IT. pose proof IT as [Idb _ _ _ If _].
  destruct (If t Ht) as (tb & Htb & Hown & _).
  unfold table_get_refs, bindM. rewrite (get_table_ok _ _ _ Htb). cbv beta iota. rewrite Hown.
  rewrite (get_database_ok _ _ _ Idb). cbv beta iota. unfold get_heap. cbv beta iota zeta. unfold lift.
  match goal with |- (h, ?g (d_refs db)) = _ => assert (G : forall l, incl l (d_refs db) -> g l = Ok (filter (left_is h t) l)) end.
  { induction l as [|r l IH]; intros Hincl; [reflexivity|]. cbn -[ref_table1 left_is otable_eqb].
    assert (Hr : In r (d_refs db)) by (apply Hincl; left; reflexivity).
    destruct (id_members _ _ _ ID KRef r Hr) as (ob & A & B & _). destruct ob; try discriminate B.
    assert (Hrr : h_reference h r = Some r0) by (apply h_reference_nth; exact A).
    destruct (ref_tables_resolve h d db r r0 I LM Hr Hrr) as (t1 & tb1 & t2 & tb2 & cs1 & cs2 & _ & _ & R1 & _ & In1 & _).
    rewrite Hrr, R1. cbn [bind]. rewrite IH by (intros y Hy; apply Hincl; right; exact Hy). cbn [bind].
    assert (L : left_is h t r = Nat.eqb t1 t) by (unfold left_is; rewrite Hrr, R1; reflexivity). rewrite L.
    assert (E : otable_eqb h (Some t1) (Some t) = Nat.eqb t1 t).
    { cbn [otable_eqb opt_eqb]. destruct (Nat.eqb t1 t) eqn:E.
      - apply Nat.eqb_eq in E. subst. apply table_eqb_refl.
      - destruct (table_eqb h t1 t) eqn:E2; [|reflexivity]. apply (listed_table_eqb_same h d db t1 t ID In1 Ht) in E2. subst.
        rewrite Nat.eqb_refl in E. discriminate E. }
    rewrite E. reflexivity. }
  rewrite (G _ (incl_refl _)). reflexivity.
Qed.

(* ====================== part 8: for every source text ====================== *)
Theorem parser_parse_linked_more source allow sq dq h0 h1 d :
  WW h0 -> (forall t tb, h_table h0 t = Some tb -> NoDup (names_of tb)) ->
  parser_parse source allow sq dq h0 = (h1, Ok d) ->
  (forall st, blueprints_of source allow h0 = (h0, Ok st) -> Forall good_table_bp (ps_tables st)) ->
  exists db, Inv h1 d db /\ LinkedMore h1 d db.
Proof.
  intros HW Hgood H Hbp. unfold parser_parse in H. apply bindM_inv in H as [[e [_ H]]|[st [hx [H1 H2]]]]; [discriminate H|].
  pose proof (ro_blueprints_of source allow _ _ _ H1) as E. subst hx.
  destruct (build_database_invariant st allow sq dq h0 h1 (Ok d) HW Hgood (Hbp st H1) H2) as [_ Hd]. rewrite (Hd d eq_refl).
  exact (build_database_linked_more st allow sq dq h0 h1 (Ok d) HW Hgood (Hbp st H1) H2).
Qed.

(* ====================== part 9 ====================== *)

(* an inline reference starts at the column that declared it: the reference blueprints registered for a table
   blueprint carry that table's name and schema and the name of the column blueprint they were written in *)
Lemma dget_dset_same k v d : dget k (dset k v d) = Some v.
Proof.
  induction d as [|[k' v'] d IH]; cbn; [rewrite str_eqb_refl; reflexivity|].
  destruct (str_eqb k k') eqn:E; cbn; rewrite E; [reflexivity|exact IH].
Qed.
Lemma dget_dset_other k k2 v d : str_eqb k2 k = false -> dget k2 (dset k v d) = dget k2 d.
Proof.
  intros N. induction d as [|[k' v'] d IH]; cbn; [rewrite N; reflexivity|].
  destruct (str_eqb k k') eqn:E; cbn.
  - apply str_eqb_eq in E. subst k'. rewrite N. reflexivity.
  - destruct (str_eqb k2 k'); [reflexivity|exact IH].
Qed.

Theorem inline_ref_blueprint_origin td rb :
  In rb (table_ref_blueprints td) ->
  exists cd rd0, In (PVBlue 5 cd) (flist_of td "columns") /\ In rd0 (flist_of cd "ref_blueprints") /\
    match rd0 with
    | PVBlue 4 _ =>
        exists rd, rb = PVBlue 4 rd /\
          dget (K "col1") rd = Some (match dget (K "name") cd with Some v => v | None => PVNone end) /\
          dget (K "table1") rd = Some (match dget (K "name") td with Some v => v | None => PVNone end) /\
          dget (K "schema1") rd = Some (PVStr (match fstr_of td "schema" with Some s => s | None => K "public" end))
    | _ => rb = rd0
    end.
Proof.
  unfold table_ref_blueprints. intros H. apply in_flat_map in H as (c & Hc & H).
  destruct c as [s0|b0|z0|f0| |d0|l0|tag cd]; try destruct H.
  destruct (N.eq_dec tag 5) as [->|Nt].
  2:{ exfalso. destruct tag as [|p]; [destruct H|].
      destruct p as [q|q|]; try destruct H. destruct q as [r0|r0|]; try destruct H. destruct r0; try destruct H. congruence. }
  apply in_map_iff in H as (rd0 & E & Hin). exists cd, rd0. split; [exact Hc|]. split; [exact Hin|].
  destruct rd0 as [s0|b0|z0|f0| |d0|l0|tag rd]; try (symmetry; exact E).
  destruct (N.eq_dec tag 4) as [->|Nt].
  2:{ assert (X : rb = PVBlue tag rd).
      { rewrite <- E. destruct tag as [|p]; [reflexivity|].
        destruct p as [q|q|]; try reflexivity. destruct q as [r0|r0|]; try reflexivity. destruct r0; try reflexivity. congruence. }
      rewrite X. destruct tag as [|p]; [reflexivity|].
      destruct p as [q|q|]; try reflexivity. destruct q as [r0|r0|]; try reflexivity. destruct r0; try reflexivity. congruence. }
  eexists. split; [symmetry; exact E|]. split; [apply dget_dset_same|]. split.
  - rewrite dget_dset_other by reflexivity. apply dget_dset_same.
  - rewrite !dget_dset_other by reflexivity. apply dget_dset_same.
Qed.

(* ====================== part 10 ====================== *)

(* on a linked database the key-holder question has an answer for every contained reference and every table *)
Lemma holds_key_total h d db r rr t : Inv h d db -> LinkedMore h d db -> In r (d_refs db) -> h_reference h r = Some rr ->
  exists b, holds_key h rr t = Ok b.
Proof.
  intros I LM Hin Hr.
  destruct (ref_tables_resolve h d db r rr I LM Hin Hr) as (t1 & tb1 & t2 & tb2 & cs1 & cs2 & _ & _ & R1 & R2 & _).
  unfold holds_key. rewrite R1, R2. cbn [bind].
  destruct (ostr_eqb (r_type rr) (Some MANY_TO_ONE) || ostr_eqb (r_type rr) (Some ONE_TO_ONE)); [eauto|].
  destruct (ostr_eqb (r_type rr) (Some ONE_TO_MANY)); eauto.
Qed.

Lemma refs_for_sql_loop_total h d db t : Inv h d db -> LinkedMore h d db ->
  forall l, incl l (d_refs db) -> exists res, refs_for_sql_loop h t l = Ok res.
Proof.
  intros I LM. pose proof I as [ID _]. induction l as [|r l IH]; intros Hincl; [exists []; reflexivity|].
  assert (Hr : In r (d_refs db)) by (apply Hincl; left; reflexivity).
  destruct (id_members _ _ _ ID KRef r Hr) as (ob & A & B & _). destruct ob; try discriminate B.
  assert (Hrr : h_reference h r = Some r0) by (unfold h_reference; rewrite A; reflexivity).
  destruct (holds_key_total h d db r r0 t I LM Hr Hrr) as [b Hb].
  destruct (IH (fun y Hy => Hincl y (or_intror Hy))) as [res Hres].
  cbn [refs_for_sql_loop]. rewrite Hrr, Hb. cbn [bind]. rewrite Hres. cbn [bind]. eauto.
Qed.

(* C04: every contained reference that is not many-to-many is listed by get_references_for_sql of exactly one table *)
Theorem exactly_one_table_hosts_the_key h d db r rr : Inv h d db -> LinkedMore h d db -> In r (d_refs db) -> h_reference h r = Some rr ->
  (ostr_eqb (r_type rr) (Some MANY_TO_ONE) || ostr_eqb (r_type rr) (Some ONE_TO_ONE) || ostr_eqb (r_type rr) (Some ONE_TO_MANY)) = true ->
  exists holder, In holder (d_tables db) /\
    forall t tb, In t (d_tables db) -> h_table h t = Some tb ->
      exists l, references_for_sql h t tb = Ok l /\ (In r l <-> t = holder).
Proof.
  intros I LM Hin Hr Hty. pose proof I as [ID _]. pose proof (id_tables _ _ _ ID) as [Idb _ _ _ If _].
  destruct (key_holder_unique h d db r rr I LM Hin Hr Hty) as (holder & Hh & Hk).
  exists holder. split; [exact Hh|]. intros t tb Ht Htb.
  destruct (If t Ht) as (tb' & Htb' & Hown & _). rewrite Htb in Htb'. inversion Htb'; subst tb'.
  destruct (refs_for_sql_loop_total h d db t I LM (d_refs db) (incl_refl _)) as [l Hl].
  assert (E : references_for_sql h t tb = Ok l) by (unfold references_for_sql; rewrite Hown, Idb; exact Hl).
  exists l. split; [exact E|].
  rewrite (references_for_sql_char h t tb d db l Hown Idb E r). split.
  - intros (_ & r' & Hr' & Hkey). rewrite Hr in Hr'. inversion Hr'; subst r'. rewrite (Hk t Ht) in Hkey. inversion Hkey as [E2].
    apply Nat.eqb_eq in E2. exact E2.
  - intros ->. split; [exact Hin|]. exists rr. split; [exact Hr|]. rewrite (Hk holder Hh). rewrite Nat.eqb_refl. reflexivity.
Qed.

(* ====================== part 11 ====================== *)

(* ---- every owner built by a constructor is the parent of its note ---- *)
Definition note_of (ob : obj) : option oid :=
  match ob with
  | OTable t => Some (t_note t) | OColumn c => Some (c_note c) | OIndex i => Some (i_note i)
  | OEnumItem e => Some (ei_note e) | OProject p => Some (p_note p) | _ => None
  end.
Definition note_points_back (h : heap) (x : oid) : Prop :=
  exists ob n nn, nth_error h x = Some ob /\ note_of ob = Some n /\ h_note h n = Some nn /\ n_parent nn = Some x.

Lemma new_note_from_post a h h' n : new_note_from a h = (h', Ok n) -> n = length h /\ exists t, h' = h ++ [ONote (mkNote t None)].
Proof.
  unfold new_note_from. destruct a as [|s|o].
  - unfold alloc. intros H; inversion H; subst. eauto.
  - unfold alloc. intros H; inversion H; subst. eauto.
  - intros H. apply bindM_inv in H as [[e [_ H]]|[x [h1 [H1 H]]]]; [discriminate H|].
    pose proof (ro_get_note o _ _ _ H1) as ->. unfold alloc in H. inversion H; subst. eauto.
Qed.

(* the common shape: note, then the owner referring to it, then set_note_parent *)
Lemma owner_with_note_post (mk : oid -> obj) a h h' x :
  (forall n, note_of (mk n) = Some n) ->
  (do! n <- new_note_from a ;; do! o <- alloc (mk n) ;; do!! set_note_parent n o ;; ret o) h = (h', Ok x) ->
  note_points_back h' x.
Proof.
  intros Hmk H. apply bindM_inv in H as [[e [_ H]]|[n [h1 [H1 H]]]]; [discriminate H|].
  destruct (new_note_from_post _ _ _ _ H1) as (-> & t & ->).
  unfold bindM at 1 in H. unfold alloc in H. cbv beta iota in H.
  set (h2 := (h ++ [ONote (mkNote t None)]) ++ [mk (length h)]) in *.
  assert (Hn : nth_error h2 (length h) = Some (ONote (mkNote t None))).
  { unfold h2. rewrite nth_error_app1 by (rewrite app_length; cbn; lia). rewrite nth_error_app2 by lia. rewrite Nat.sub_diag. reflexivity. }
  assert (Hx : nth_error h2 (length (h ++ [ONote (mkNote t None)])) = Some (mk (length h))).
  { unfold h2. rewrite nth_error_app2 by lia. rewrite Nat.sub_diag. reflexivity. }
  apply bindM_inv in H as [[e [_ H]]|[u [h3 [H3 H]]]]; [discriminate H|]. unfold ret in H. inversion H; subst h3 x. clear H.
  unfold set_note_parent, get_note, bindM, lookup in H3. rewrite Hn in H3. cbv beta iota in H3. unfold ret, store in H3. inversion H3; subst h'. clear H3.
  assert (Nne : length h <> length (h ++ [ONote (mkNote t None)])) by (rewrite app_length; cbn; lia).
  exists (mk (length h)), (length h), (mkNote t (Some (length (h ++ [ONote (mkNote t None)])))).
  split; [rewrite nth_replace_other by exact Nne; exact Hx|]. split; [apply Hmk|]. split; [|reflexivity].
  unfold h_note. rewrite (nth_replace_same' _ _ _ _ Hn). reflexivity.
Qed.

Theorem new_column_note n ty u nn pk ai d nt c p h h' x : new_column n ty u nn pk ai d nt c p h = (h', Ok x) -> note_points_back h' x.
Proof. unfold new_column. apply (owner_with_note_post (fun k => OColumn (mkColumn n ty u nn pk ai c k p d None))). reflexivity. Qed.
Theorem new_index_note s n u ty pk nt c h h' x : new_index s n u ty pk nt c h = (h', Ok x) -> note_points_back h' x.
Proof. unfold new_index. apply (owner_with_note_post (fun k => OIndex (mkIndex s None (or_none n) u ty pk k c))). reflexivity. Qed.
Theorem new_enumitem_note n nt c h h' x : new_enumitem n nt c h = (h', Ok x) -> note_points_back h' x.
Proof. unfold new_enumitem. apply (owner_with_note_post (fun k => OEnumItem (mkEnumItem n k c))). reflexivity. Qed.
Theorem new_project_note n i nt c h h' x : new_project n i nt c h = (h', Ok x) -> note_points_back h' x.
Proof. unfold new_project. apply (owner_with_note_post (fun k => OProject (mkProject None n i k c))). reflexivity. Qed.
Theorem new_table_note name schema alias nt hc c ab props h h' x :
  new_table name schema alias [] [] nt hc c ab props h = (h', Ok x) -> note_points_back h' x.
Proof.
  unfold new_table. cbn [iterM]. intros H.
  apply (owner_with_note_post (fun k => OTable (mkTable None name schema [] [] (or_none alias) k hc c ab props)) nt h h' x); [reflexivity|].
  (* the two empty loops are no-ops *)
  apply bindM_inv in H as [[e [_ H]]|[n [h1 [H1 H]]]]; [discriminate H|]. unfold bindM at 1. rewrite H1.
  unfold bindM at 1 in H. unfold bindM at 1. destruct (alloc _ h1) as [h2 [t|e]] eqn:E; [|discriminate H].
  unfold bindM in H. unfold ret at 1 2 in H. cbv beta iota in H. exact H.
Qed.
