(* ScriptFacts.v — facts about the op-script interpreter (the level at which the tie executes). *)
From PyDBML Require Import PyStr Py Sx Heap Classes Database Script MonadFacts ContainerFacts.
Import ListNotations.

Definition is_container_op (o : op) : bool :=
  match o with
  | ODbAdd _ _ _ | ODbDelete _ _ _ | OTAddColumn _ _ | OTDeleteColumn _ _
  | OTAddIndex _ _ | OTDeleteIndex _ _ => true
  | _ => false
  end.

Lemma run_M_raise {A} (s : st) (m : M A) (k : A -> outcome) s' e :
  (forall a, k a <> OutRaise e) ->
  run_M s m k = (s', OutRaise e) ->
  exists h', m (st_heap s) = (h', Raise e) /\ s' = mkSt h' (st_slots s).
Proof.
  unfold run_M. intros Hk. destruct (m (st_heap s)) as [h' [a|e']]; intros H; inversion H; subst.
  - exfalso. eapply Hk; eauto.
  - eauto.
Qed.

Lemma st_eta s : mkSt (st_heap s) (st_slots s) = s. Proof. destruct s; reflexivity. Qed.

Ltac finish_atomic lem :=
  match goal with
  | H : run_M _ _ _ = (_, OutRaise _) |- _ =>
      apply run_M_raise in H; [| let a := fresh "a" in intros a; try destruct a; discriminate ];
      destruct H as [h' [Hm ->]]; apply lem in Hm; [subst h'; apply st_eta | assumption]
  end.

(* C09: an operation rejected with one of the library's validation errors leaves every object
   (the database, its lists, its name index, all back-pointers) exactly as it was. *)
Lemma container_op_atomic rs s o s' e :
  is_container_op o = true -> is_pydbml_exc e = true ->
  exec_op rs s o = (s', OutRaise e) -> s' = s.
Proof.
  intros Hc He H. destruct o; try discriminate Hc; cbn [exec_op] in H.
  - (* add *) destruct (slot s d) as [d'|]; [|inversion H]. destruct (slot s o) as [o'|]; [|inversion H].
    destruct meth as [|p]; [finish_atomic db_add_atomic|].
    do 3 (destruct p; try solve [ finish_atomic db_add_table_atomic | finish_atomic db_add_reference_atomic
                                | finish_atomic db_add_enum_atomic | finish_atomic db_add_table_group_atomic
                                | finish_atomic db_add_project_atomic | finish_atomic db_add_sticky_note_atomic ]).
  - (* delete *) destruct (slot s d) as [d'|]; [|inversion H]. destruct (slot s o) as [o'|]; [|inversion H].
    destruct meth as [|p]; [finish_atomic db_delete_atomic|].
    do 3 (destruct p; try solve [ finish_atomic db_delete_table_atomic | finish_atomic db_delete_generic_atomic
                                | finish_atomic db_delete_project_atomic ]).
  - destruct (slot s t) as [t'|]; [|inversion H]. destruct (slot s c) as [c'|]; [|inversion H].
    finish_atomic table_add_column_atomic.
  - destruct (slot s t) as [t'|]; [|inversion H]. destruct (del_arg_of s a) as [a'|]; [|inversion H].
    finish_atomic table_delete_column_atomic.
  - destruct (slot s t) as [t'|]; [|inversion H]. destruct (slot s i) as [i'|]; [|inversion H].
    finish_atomic table_add_index_atomic.
  - destruct (slot s t) as [t'|]; [|inversion H]. destruct (del_arg_of s a) as [a'|]; [|inversion H].
    finish_atomic table_delete_index_atomic.
Qed.
