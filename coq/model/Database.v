(* Database.v — pydbml/database.py : add / delete with their check-then-mutate order,
   lookup, iteration.  Effects are performed in source order. *)
From PyDBML Require Import PyStr Py Heap Classes.
Import ListNotations.

Definition upd_db (d : oid) (f : database -> database) : M unit :=
  do! x <- get_database d ;; store d (ODatabase (f x)).

Definition db_with_tables l td (x : database) :=
  mkDatabase l td (d_refs x) (d_enums x) (d_table_groups x) (d_sticky_notes x) (d_project x)
             (d_allow_properties x) (d_sql_renderer x) (d_dbml_renderer x).
Definition db_with_refs l (x : database) :=
  mkDatabase (d_tables x) (d_table_dict x) l (d_enums x) (d_table_groups x) (d_sticky_notes x)
             (d_project x) (d_allow_properties x) (d_sql_renderer x) (d_dbml_renderer x).
Definition db_with_enums l (x : database) :=
  mkDatabase (d_tables x) (d_table_dict x) (d_refs x) l (d_table_groups x) (d_sticky_notes x)
             (d_project x) (d_allow_properties x) (d_sql_renderer x) (d_dbml_renderer x).
Definition db_with_groups l (x : database) :=
  mkDatabase (d_tables x) (d_table_dict x) (d_refs x) (d_enums x) l (d_sticky_notes x)
             (d_project x) (d_allow_properties x) (d_sql_renderer x) (d_dbml_renderer x).
Definition db_with_sticky l (x : database) :=
  mkDatabase (d_tables x) (d_table_dict x) (d_refs x) (d_enums x) (d_table_groups x) l
             (d_project x) (d_allow_properties x) (d_sql_renderer x) (d_dbml_renderer x).
Definition db_with_project p (x : database) :=
  mkDatabase (d_tables x) (d_table_dict x) (d_refs x) (d_enums x) (d_table_groups x)
             (d_sticky_notes x) p (d_allow_properties x) (d_sql_renderer x) (d_dbml_renderer x).
Definition db_with_allow b (x : database) :=
  mkDatabase (d_tables x) (d_table_dict x) (d_refs x) (d_enums x) (d_table_groups x)
             (d_sticky_notes x) (d_project x) b (d_sql_renderer x) (d_dbml_renderer x).

(* obj.database = v for the classes that have the attribute *)
Definition set_obj_database (o : oid) (v : option oid) : M unit :=
  do! ob <- lookup o ;;
  match ob with
  | OTable x => store o (OTable (set_t_database v x))
  | OReference x => store o (OReference (mkReference v (r_type x) (r_col1 x) (r_col2 x) (r_name x)
                                   (r_comment x) (r_on_update x) (r_on_delete x) (r_inline x)))
  | OEnum x => store o (OEnum (mkEnum v (e_name x) (e_schema x) (e_comment x) (e_items x)))
  | OSticky x => store o (OSticky (mkSticky (sn_name x) (sn_text x) v))
  | OProject x => store o (OProject (mkProject v (p_name x) (p_items x) (p_note x) (p_comment x)))
  | OGroup x => store o (OGroup (mkGroup v (g_name x) (g_items x) (g_comment x) (g_note x) (g_color x)))
  | _ => stuck 30
  end.

Definition db_add_table (d o : oid) : M unit :=
  do! x <- get_database d ;; do! t <- get_table o ;; do! h <- get_heap ;;
  if list_has (table_eqb h) o (d_tables x) then raise EDatabaseValidation else
  if dict_has (table_full_name t) (d_table_dict x) then raise EDatabaseValidation else
  if truthy (t_alias t) && dict_has (fstr (t_alias t)) (d_table_dict x) then raise EDatabaseValidation else
  do!! set_obj_database o (Some d) ;;
  upd_db d (fun x =>
    let td := dict_set (table_full_name t) o (d_table_dict x) in
    let td := if truthy (t_alias t) then dict_set (fstr (t_alias t)) o td else td in
    db_with_tables (d_tables x ++ [o]) td x).

Definition db_add_reference (d o : oid) : M unit :=
  do! x <- get_database d ;; do! r <- get_reference o ;; do! h <- get_heap ;;
  match r_col1 r, r_col2 r with
  | Some c1, Some c2 =>
      if existsb (fun c => match h_column h c with
                           | Some cc => match c_table cc with
                                        | Some t => match h_table h t with
                                                    | Some tb => ooid_eqb (t_database tb) (Some d)
                                                    | None => false
                                                    end
                                        | None => false
                                        end
                           | None => false
                           end) (c1 ++ c2)
      then
        if list_has (ref_eqb h) o (d_refs x) then raise EDatabaseValidation else
        do!! set_obj_database o (Some d) ;;
        upd_db d (fun x => db_with_refs (d_refs x ++ [o]) x)
      else raise EDatabaseValidation
  | _, _ => raise ETypeError
  end.

Definition db_add_enum (d o : oid) : M unit :=
  do! x <- get_database d ;; do! e <- get_enum o ;; do! h <- get_heap ;;
  if list_has (enum_eqb h) o (d_enums x) then raise EDatabaseValidation else
  if existsb (fun e2 => match h_enum h e2 with
                        | Some ee => ostr_eqb (e_name ee) (e_name e) && ostr_eqb (e_schema ee) (e_schema e)
                        | None => false
                        end) (d_enums x)
  then raise EDatabaseValidation else
  do!! set_obj_database o (Some d) ;;
  upd_db d (fun x => db_with_enums (d_enums x ++ [o]) x).

Definition db_add_sticky_note (d o : oid) : M unit :=
  do! _ <- get_sticky o ;;
  do!! set_obj_database o (Some d) ;;
  upd_db d (fun x => db_with_sticky (d_sticky_notes x ++ [o]) x).

Definition db_add_table_group (d o : oid) : M unit :=
  do! x <- get_database d ;; do! g <- get_group o ;; do! h <- get_heap ;;
  if list_has Nat.eqb o (d_table_groups x) then raise EDatabaseValidation else
  if existsb (fun g2 => match h_group h g2 with
                        | Some gg => str_eqb (g_name gg) (g_name g)
                        | None => false
                        end) (d_table_groups x)
  then raise EDatabaseValidation else
  do!! set_obj_database o (Some d) ;;
  upd_db d (fun x => db_with_groups (d_table_groups x ++ [o]) x).

Definition db_delete_project (d : oid) : M oid :=
  do! x <- get_database d ;;
  match d_project x with
  | None => raise EDatabaseValidation
  | Some p =>
      do!! upd_db d (db_with_project None) ;;
      do!! set_obj_database p None ;;
      ret p
  end.

Definition db_add_project (d o : oid) : M unit :=
  do! _ <- get_project o ;;
  do! x <- get_database d ;;
  do!! (match d_project x with
   | Some _ => do! _ <- db_delete_project d ;; ret tt
   | None => ret tt
   end) ;;
  do!! set_obj_database o (Some d) ;;
  upd_db d (db_with_project (Some o)).

Definition db_add (d o : oid) : M unit :=
  do! ob <- lookup o ;;
  match ob with
  | OTable _ => db_add_table d o
  | OReference _ => db_add_reference d o
  | OEnum _ => db_add_enum d o
  | OGroup _ => db_add_table_group d o
  | OProject _ => db_add_project d o
  | OSticky _ => db_add_sticky_note d o
  | _ => raise EDatabaseValidation
  end.

Definition db_delete_table (d o : oid) : M oid :=
  do! x <- get_database d ;; do! t <- get_table o ;; do! h <- get_heap ;;
  match list_index (table_eqb h) o (d_tables x) with
  | None => raise EDatabaseValidation
  | Some n =>
      match nth_error (d_tables x) n with
      | None => stuck 31
      | Some popped =>
          do!! upd_db d (fun x => db_with_tables (remove_nth n (d_tables x)) (d_table_dict x) x) ;;
          do!! set_obj_database popped None ;;
          (* obj.full_name / obj.alias are read after the back-pointer reset, from the argument *)
          do! t' <- get_table o ;;
          do! x' <- get_database d ;;
          match dict_get (table_full_name t') (d_table_dict x') with
          | None => raise EKeyError
          | Some result =>
              do!! upd_db d (fun x => db_with_tables (d_tables x) (dict_remove (table_full_name t') (d_table_dict x)) x) ;;
              if truthy (t_alias t') then
                do! x'' <- get_database d ;;
                match dict_get (fstr (t_alias t')) (d_table_dict x'') with
                | None => raise EKeyError
                | Some _ =>
                    do!! upd_db d (fun x => db_with_tables (d_tables x) (dict_remove (fstr (t_alias t')) (d_table_dict x)) x) ;;
                    ret result
                end
              else ret result
          end
      end
  end.

Definition db_delete_generic (get_list : database -> list oid) (set_list : list oid -> database -> database)
           (eq : heap -> oid -> oid -> bool) (d o : oid) : M oid :=
  do! x <- get_database d ;; do! h <- get_heap ;;
  match list_index (eq h) o (get_list x) with
  | None => raise EDatabaseValidation
  | Some n =>
      match nth_error (get_list x) n with
      | None => stuck 32
      | Some popped =>
          do!! upd_db d (fun x => set_list (remove_nth n (get_list x)) x) ;;
          do!! set_obj_database popped None ;;
          ret popped
      end
  end.

Definition db_delete_reference := db_delete_generic d_refs db_with_refs ref_eqb.
Definition db_delete_enum := db_delete_generic d_enums db_with_enums enum_eqb.
Definition db_delete_table_group := db_delete_generic d_table_groups db_with_groups (fun _ => Nat.eqb).

Definition db_delete (d o : oid) : M oid :=
  do! ob <- lookup o ;;
  match ob with
  | OTable _ => db_delete_table d o
  | OReference _ => db_delete_reference d o
  | OEnum _ => db_delete_enum d o
  | OGroup _ => db_delete_table_group d o
  | OProject _ => db_delete_project d
  | _ => raise EDatabaseValidation
  end.

(* Database.__getitem__ *)
Definition db_getitem (d : oid) (k : key_arg) : M oid :=
  do! x <- get_database d ;;
  match k with
  | KInt z => match py_index (length (d_tables x)) z with
              | Some n => match nth_error (d_tables x) n with Some t => ret t | None => raise EIndexError end
              | None => raise EIndexError
              end
  | KStr s => match dict_get s (d_table_dict x) with
              | Some t => ret t
              | None => raise EKeyError
              end
  end.
