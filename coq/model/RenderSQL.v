(* RenderSQL.v — pydbml/renderer/sql/default/*.py and SQLObject.check_attributes_for_sql. *)
From PyDBML Require Import PyStr Py Heap Classes Tools.
Import ListNotations.

Definition q2 (s : pystr) : pystr := cDQ :: s ++ [cDQ].          (* f'"{s}"' *)
Definition PUBLIC : pystr := s2l "public".

(* utils.get_full_name_for_sql *)
Definition full_name_for_sql (schema name : option pystr) : pystr :=
  if ostr_eqb schema (Some PUBLIC) then q2 (fstr name)
  else q2 (fstr schema) ++ 46%N :: q2 (fstr name).

Definition with_comment (comment : option pystr) (body : pystr) : pystr :=
  if truthy comment then comment_to_sql (fstr comment) ++ body else body.

(* ---- str.format(c=...) on text that may contain user braces (defect D5) ---- *)
Definition is_ident_start (c : ch) : bool := is_alpha c || N.eqb c 95.
Definition is_ident_char (c : ch) : bool := is_alnum c || N.eqb c 95.

Fixpoint span (p : ch -> bool) (s : pystr) : pystr * pystr :=
  match s with
  | [] => ([], [])
  | c :: r => if p c then let '(a, b) := span p r in (c :: a, b) else ([], s)
  end.

Fixpoint format_c (fuel : nat) (cval : pystr) (s : pystr) : res pystr :=
  match fuel with
  | O => Raise (EStuck 40)
  | S f =>
    match s with
    | [] => Ok []
    | c :: r =>
      if N.eqb c 123 (* { *) then
        match r with
        | c2 :: r2 =>
            if N.eqb c2 123 then do t <- format_c f cval r2; Ok (123%N :: t)
            else
              let '(name, rest) := span (fun x => negb (N.eqb x 125) && negb (N.eqb x 123)) r in
              match rest with
              | [] => Raise EValueError                     (* expected '}' before end of string *)
              | x :: rest' =>
                  if N.eqb x 123 then Raise EValueError     (* unexpected '{' in field name *)
                  else
                    (* the field name up to the first of . [ ! : selects the argument *)
                    let '(first, more) := span (fun x => negb (N.eqb x 46 || N.eqb x 91 || N.eqb x 33 || N.eqb x 58)) name in
                    if existsb (fun x => N.eqb x 91 || N.eqb x 33 || N.eqb x 58) name then Raise (EStuck 41)   (* [ ! : not modelled *)
                    else if is_nil first then Raise EIndexError               (* '{}' : automatic numbering, no positional argument *)
                    else if forallb is_digit first then Raise EIndexError      (* '{0}' *)
                    else if str_eqb first [99%N] then
                      (if is_nil more then do t <- format_c f cval rest'; Ok (cval ++ t) else Raise (EStuck 41))
                    else Raise EKeyError
              end
        | [] => Raise EValueError                           (* Single '{' encountered *)
        end
      else if N.eqb c 125 (* } *) then
        match r with
        | c2 :: r2 => if N.eqb c2 125 then do t <- format_c f cval r2; Ok (125%N :: t)
                      else Raise EValueError
        | [] => Raise EValueError
        end
      else do t <- format_c f cval r; Ok (c :: t)
    end
  end.
Definition py_format_c (cval s : pystr) : res pystr := format_c (S (length s)) cval s.

(* ---- check_attributes_for_sql; the attribute lists are tied to the source by GenClasses ---- *)
Definition check_attributes (o : obj) : res unit :=
  let need (b : bool) : res unit := if b then Ok tt else Raise EAttributeMissing in
  let some {A} (x : option A) := match x with Some _ => true | None => false end in
  match o with
  | OTable t => do _ <- need (some (t_name t)); need (some (t_schema t))
  | OColumn c => do _ <- need (some (c_name c)); need (match c_type c with CTNone => false | _ => true end)
  | OIndex i => do _ <- need (some (i_subjects i)); need (some (i_table i))
  | OReference r => do _ <- need (some (r_type r)); do _ <- need (some (r_col1 r)); need (some (r_col2 r))
  | OEnum e => do _ <- need (some (e_name e)); do _ <- need (some (e_schema e)); need (some (e_items e))
  | OEnumItem i => need (some (ei_name i))
  | ONote _ | OExpr _ => Ok tt
  | OSticky _ | OProject _ | OGroup _ | ODatabase _ => Raise EAttributeError   (* no such method *)
  end.

Section SQL.
  Variable h : heap.

  Definition sql_expression (x : expression) : pystr := 40%N :: x_text x ++ [41%N].

  Definition str_of_bool (b : bool) : pystr := if b then s2l "True" else s2l "False".

  (* sql note.render_note *)
  Definition sql_note (n : note) : res pystr :=
    match n_text n with
    | [] => Ok []
    | _ =>
        let generic := Ok (join [cLF] (map (fun l => s2l "-- " ++ l) (split_on cLF (prepare_text_for_sql (n_text n))))) in
        let comment_on (entity : pystr) (qname : pystr) :=
          Ok (s2l "COMMENT ON " ++ entity ++ s2l " " ++ qname ++ s2l " IS "
              ++ cSQ :: prepare_text_for_sql (n_text n) ++ [cSQ; 59%N]) in
        match n_parent n with
        | Some p => match nth_error h p with
                    | Some (OTable t) => comment_on (s2l "TABLE") (full_name_for_sql (t_schema t) (t_name t))
                    | Some (OColumn c) => comment_on (s2l "COLUMN") (q2 (fstr (c_name c)))
                    | _ => generic
                    end
        | None => generic
        end
    end.

  Definition sql_enum_item (i : enumitem) : res pystr :=
    do _ <- check_attributes (OEnumItem i);
    Ok (with_comment (ei_comment i) (cSQ :: fstr (ei_name i) ++ [cSQ; 44%N])).

  Definition sql_enum (e : enum) : res pystr :=
    do _ <- check_attributes (OEnum e);
    match e_items e with
    | None => Raise (EStuck 42)
    | Some items =>
        do rendered <- mapM (fun i => match h_enumitem h i with
                                      | Some it => do s <- sql_enum_item it; Ok (textwrap_indent s (s2l "  "))
                                      | None => Raise (EStuck 43)
                                      end) items;
        Ok (with_comment (e_comment e)
              (s2l "CREATE TYPE " ++ full_name_for_sql (e_schema e) (e_name e) ++ s2l " AS ENUM (" ++ [cLF]
               ++ rstrip_chars [44%N] (join [cLF] rendered) ++ cLF :: s2l ");"))
    end.

  Definition table_composite_pk (t : option oid) : bool :=
    match t with
    | Some tid => match h_table h tid with Some tb => has_composite_pk h tb | None => false end
    | None => false
    end.

  Definition sql_column (c : column) : res pystr :=
    do _ <- check_attributes (OColumn c);
    do ty <- match c_type c with
             | CTEnum e => match h_enum h e with
                           | Some en => Ok (full_name_for_sql (e_schema en) (e_name en))
                           | None => Raise (EStuck 44)
                           end
             | CTStr s => Ok s
             | CTNone => Raise (EStuck 45)
             end;
    do dflt <- match c_default c with
               | DNone => Ok []
               | DExpr x => match h_expr h x with
                            | Some ex => Ok [s2l "DEFAULT " ++ sql_expression ex]
                            | None => Raise (EStuck 46)
                            end
               | DInt z => Ok [s2l "DEFAULT " ++ str_of_Z z]
               | DFloat s => Ok [s2l "DEFAULT " ++ s]
               | DBool b => Ok [s2l "DEFAULT " ++ str_of_bool b]
               | DStr s => Ok [s2l "DEFAULT " ++ s]
               end;
    let comps := [q2 (fstr (c_name c)); ty]
                 ++ (if c_pk c && negb (table_composite_pk (c_table c)) then [s2l "PRIMARY KEY"] else [])
                 ++ (if c_autoinc c then [s2l "AUTOINCREMENT"] else [])
                 ++ (if c_unique c then [s2l "UNIQUE"] else [])
                 ++ (if c_not_null c then [s2l "NOT NULL"] else [])
                 ++ dflt in
    Ok (with_comment (c_comment c) (join [cSP] comps)).

  Definition sql_subject (s : subject) : res pystr :=
    match s with
    | SubCol c => match h_column h c with Some cc => Ok (q2 (fstr (c_name cc))) | None => Raise (EStuck 47) end
    | SubExpr x => match h_expr h x with Some ex => Ok (sql_expression ex) | None => Raise (EStuck 48) end
    | SubStr t => Ok t
    end.

  Definition sql_index (i : index) : res pystr :=
    do _ <- check_attributes (OIndex i);
    match i_subjects i with
    | None => Raise (EStuck 49)
    | Some subs =>
        do ks <- mapM sql_subject subs;
        let keys := join (s2l ", ") ks in
        if i_pk i then Ok (with_comment (i_comment i) (s2l "PRIMARY KEY (" ++ keys ++ [41%N]))
        else
          do tname <- match i_table i with
                      | Some t => match h_table h t with
                                  | Some tb => Ok (full_name_for_sql (t_schema tb) (t_name tb))
                                  | None => Raise (EStuck 50)
                                  end
                      | None => Raise (EStuck 51)
                      end;
          Ok (with_comment (i_comment i)
                (s2l "CREATE " ++ (if i_unique i then s2l "UNIQUE " else []) ++ s2l "INDEX "
                 ++ (if truthy (i_name i) then q2 (fstr (i_name i)) ++ [cSP] else [])
                 ++ s2l "ON " ++ tname ++ [cSP]
                 ++ (if truthy (i_type i) then s2l "USING " ++ upper (fstr (i_type i)) ++ [cSP] else [])
                 ++ 40%N :: keys ++ s2l ");"))
    end.

  (* ---- references ---- *)
  Definition col_names (cols : list oid) : res pystr :=
    do ns <- mapM (fun c => match h_column h c with
                            | Some cc => Ok (q2 (fstr (c_name cc)))
                            | None => Raise (EStuck 52)
                            end) cols;
    Ok (join (s2l ", ") ns).

  Definition first_table_full_name (cols : list oid) : res pystr :=
    match cols with
    | [] => Raise EIndexError
    | c :: _ =>
        match h_column h c with
        | None => Raise (EStuck 53)
        | Some cc => match c_table cc with
                     | None => Raise EAttributeError         (* None.schema *)
                     | Some t => match h_table h t with
                                 | Some tb => Ok (full_name_for_sql (t_schema tb) (t_name tb))
                                 | None => Raise (EStuck 54)
                                 end
                     end
        end
    end.

  Definition on_clauses (r : reference) : pystr :=
    (if truthy (r_on_update r) then s2l " ON UPDATE " ++ upper (fstr (r_on_update r)) else [])
    ++ (if truthy (r_on_delete r) then s2l " ON DELETE " ++ upper (fstr (r_on_delete r)) else []).

  Definition generate_inline_sql (r : reference) (source ref_col : list oid) : res pystr :=
    do sn <- col_names source; do rt <- first_table_full_name ref_col; do rn <- col_names ref_col;
    Ok (with_comment (r_comment r)
          (s2l "{c}FOREIGN KEY (" ++ sn ++ s2l ") REFERENCES " ++ rt ++ s2l " (" ++ rn ++ [41%N] ++ on_clauses r)).

  Definition generate_not_inline_sql (r : reference) (source ref_col : list oid) : res pystr :=
    do st <- first_table_full_name source; do sn <- col_names source;
    do rt <- first_table_full_name ref_col; do rn <- col_names ref_col;
    Ok (with_comment (r_comment r)
          (s2l "ALTER TABLE " ++ st ++ s2l " ADD {c}FOREIGN KEY (" ++ sn ++ s2l ") REFERENCES " ++ rt
           ++ s2l " (" ++ rn ++ [41%N] ++ on_clauses r ++ [59%N])).

  Definition validate_ref_cols (r : reference) : res (list oid * list oid) :=
    match r_col1 r, r_col2 r with
    | Some c1, Some c2 =>
        do _ <- mapM (fun c => match h_column h c with
                               | Some cc => match c_table cc with Some _ => Ok tt | None => Raise ETableNotFound end
                               | None => Raise (EStuck 55)
                               end) (c1 ++ c2);
        Ok (c1, c2)
    | _, _ => Raise ETypeError
    end.
End SQL.

(* get_references_for_sql / get_inline_references_for_sql *)
(* does table [tid] hold the key of reference r: left side for > and -, right side for < *)
Definition holds_key (h : heap) (r : reference) (tid : oid) : res bool :=
  if ostr_eqb (r_type r) (Some MANY_TO_ONE) || ostr_eqb (r_type r) (Some ONE_TO_ONE)
  then do t1 <- ref_table1 h r; Ok (otable_eqb h t1 (Some tid))
  else if ostr_eqb (r_type r) (Some ONE_TO_MANY)
       then do t2 <- ref_table2 h r; Ok (otable_eqb h t2 (Some tid))
       else Ok false.

Fixpoint refs_for_sql_loop (h : heap) (tid : oid) (l : list oid) : res (list oid) :=
  match l with
  | [] => Ok []
  | rid :: rest =>
      match h_reference h rid with
      | None => Raise (EStuck 57)
      | Some r =>
          do keep <- holds_key h r tid;
          do tl <- refs_for_sql_loop h tid rest;
          Ok (if keep then rid :: tl else tl)
      end
  end.

Definition references_for_sql (h : heap) (tid : oid) (t : table) : res (list oid) :=
  match t_database t with
  | None => Raise EUnknownDatabase
  | Some d =>
      match h_database h d with
      | None => Raise (EStuck 56)
      | Some db => refs_for_sql_loop h tid (d_refs db)
      end
  end.

Definition inline_references_for_sql (h : heap) (tid : oid) (t : table) : res (list oid) :=
  if t_abstract t then Ok []
  else do rs <- references_for_sql h tid t;
       Ok (filter (fun rid => match h_reference h rid with Some r => ref_inline r | None => false end) rs).

(* render_reference for the non many-to-many kinds (also used inside CREATE TABLE) *)
Definition sql_reference_simple (h : heap) (r : reference) : res pystr :=
  do _ <- check_attributes (OReference r);
  do (c1, c2) <- validate_ref_cols h r;
  let func := if ref_inline r then generate_inline_sql h r else generate_not_inline_sql h r in
  do body <- (if ostr_eqb (r_type r) (Some MANY_TO_ONE) || ostr_eqb (r_type r) (Some ONE_TO_ONE)
              then func c1 c2
              else if ostr_eqb (r_type r) (Some ONE_TO_MANY) then func c2 c1
              else Ok []);
  let c := if truthy (r_name r) then s2l "CONSTRAINT " ++ q2 (fstr (r_name r)) ++ [cSP] else [] in
  py_format_c c body.

(* render_table; [render_ref] is how an inline reference inside the body is rendered *)
Definition sql_table (h : heap) (tid : oid) (t : table) : res pystr :=
  do _ <- check_attributes (OTable t);
  do cols <- mapM (fun c => match h_column h c with
                            | Some cc => do s <- sql_column h cc; Ok (textwrap_indent s (s2l "  "))
                            | None => Raise (EStuck 58)
                            end) (t_columns t);
  do idxs <- mapM (fun i => match h_index h i with Some ix => Ok (i, ix) | None => Raise (EStuck 59) end) (t_indexes t);
  do pks <- mapM (fun p => do s <- sql_index h (snd p); Ok (textwrap_indent s (s2l "  ")))
                 (filter (fun p => i_pk (snd p)) idxs);
  do irefs <- inline_references_for_sql h tid t;
  do refs <- mapM (fun rid => match h_reference h rid with
                              | Some r => do s <- sql_reference_simple h r; Ok (textwrap_indent s (s2l "  "))
                              | None => Raise (EStuck 60)
                              end) irefs;
  do pkcols <- mapM (fun c => match h_column h c with Some cc => Ok cc | None => Raise (EStuck 61) end) (t_columns t);
  let cpk := if has_composite_pk h t
             then [s2l "  PRIMARY KEY (" ++ join (s2l ", ") (map (fun cc => q2 (fstr (c_name cc))) (filter c_pk pkcols)) ++ [41%N]]
             else [] in
  let body := join (s2l "," ++ [cLF]) (cols ++ pks ++ refs ++ cpk) in
  do others <- mapM (fun p => do s <- sql_index h (snd p); Ok (cLF :: s))
                    (filter (fun p => negb (i_pk (snd p))) idxs);
  let comps := (if truthy (t_comment t) then [comment_to_sql (fstr (t_comment t))] else [])
               ++ [s2l "CREATE TABLE " ++ full_name_for_sql (t_schema t) (t_name t) ++ s2l " ("; body; s2l ");"]
               ++ others in
  let result := join [cLF] comps in
  do tn <- match h_note h (t_note t) with
           | Some n => if is_nil (n_text n) then Ok []
                       else do s <- sql_note h n; Ok (cLF :: cLF :: s)
           | None => Raise (EStuck 62)
           end;
  do cn <- mapM (fun cc => match h_note h (c_note cc) with
                           | Some n => if is_nil (n_text n) then Ok []
                                       else Ok (cLF :: cLF :: s2l "COMMENT ON COLUMN " ++ full_name_for_sql (t_schema t) (t_name t) ++ 46%N
                                                :: q2 (fstr (c_name cc)) ++ s2l " IS " ++ cSQ
                                                :: prepare_text_for_sql (n_text n) ++ [cSQ; 59%N])
                           | None => Raise (EStuck 63)
                           end) pkcols;
  Ok (result ++ tn ++ concat cn).

(* generate_many_to_many_sql: the join table lives in a scratch copy of the heap *)
Definition sql_reference_m2m (h : heap) (rid : oid) (r : reference) : res pystr :=
  let '(h', jt) := ref_join_table rid h in
  do jto <- jt;
  match jto with
  | None => Raise (EStuck 64)
  | Some jtid =>
      match h_table h' jtid, r_col1 r, r_col2 r with
      | Some jtt, Some c1, Some c2 =>
          do table_sql <- sql_table h' jtid jtt;
          let n := length c1 in
          do r1 <- generate_not_inline_sql h' r (take n (t_columns jtt)) c1;
          do r2 <- generate_not_inline_sql h' r (drop n (t_columns jtt)) c2;
          py_format_c [] (join [cLF; cLF] [table_sql; r1; r2])
      | _, _, _ => Raise (EStuck 65)
      end
  end.

Definition sql_reference (h : heap) (rid : oid) (r : reference) : res pystr :=
  do _ <- check_attributes (OReference r);
  do _ <- validate_ref_cols h r;
  if ostr_eqb (r_type r) (Some MANY_TO_MANY) then sql_reference_m2m h rid r
  else sql_reference_simple h r.

(* DefaultSQLRenderer.render(model) *)
Definition sql_render (h : heap) (o : oid) : res pystr :=
  match nth_error h o with
  | None => Raise (EStuck 66)
  | Some ob =>
      do _ <- check_attributes ob;
      match ob with
      | OTable t => sql_table h o t
      | OColumn c => sql_column h c
      | OIndex i => sql_index h i
      | OReference r => sql_reference h o r
      | OEnum e => sql_enum h e
      | OEnumItem i => sql_enum_item i
      | ONote n => sql_note h n
      | OExpr x => Ok (sql_expression x)
      | _ => Raise (EStuck 67)
      end
  end.

(* utils.reorder_tables_for_sql *)
Fixpoint count_get (k : option pystr) (m : list (option pystr * nat)) : nat :=
  match m with
  | [] => 0
  | (k', n) :: r => if ostr_eqb k k' then n else count_get k r
  end.
Fixpoint count_incr (k : option pystr) (m : list (option pystr * nat)) : list (option pystr * nat) :=
  match m with
  | [] => [(k, 1)]
  | (k', n) :: r => if ostr_eqb k k' then (k', S n) :: r else (k', n) :: count_incr k r
  end.

Fixpoint insert_desc {A} (key : A -> nat) (x : A) (l : list A) : list A :=
  match l with
  | [] => [x]
  | y :: r => if Nat.leb (key y) (key x) then x :: l else y :: insert_desc key x r
  end.
(* stable sort by key, descending: insert from the right so equal keys keep their order *)
Definition sort_desc {A} (key : A -> nat) (l : list A) : list A :=
  fold_right (insert_desc key) [] l.

Definition ref_counts (h : heap) (refs : list oid) : res (list (option pystr * nat)) :=
  let fix go (l : list oid) (m : list (option pystr * nat)) : res (list (option pystr * nat)) :=
    match l with
    | [] => Ok m
    | rid :: rest =>
        match h_reference h rid with
        | None => Raise (EStuck 68)
        | Some r =>
            if ref_inline r then
              let name_of (t : option oid) :=
                match t with
                | Some tid => match h_table h tid with Some tb => Some (t_name tb) | None => None end
                | None => None
                end in
              if ostr_eqb (r_type r) (Some MANY_TO_ONE) then
                do t1 <- ref_table1 h r;
                match name_of t1 with
                | Some nm => go rest (count_incr nm m)
                | None => go rest m
                end
              else if ostr_eqb (r_type r) (Some ONE_TO_MANY) then
                do t2 <- ref_table2 h r;
                match name_of t2 with
                | Some nm => go rest (count_incr nm m)
                | None => go rest m
                end
              else go rest m
            else go rest m
        end
    end in
  go refs [].

Definition reorder_tables_for_sql (h : heap) (tables refs : list oid) : res (list oid) :=
  do m <- ref_counts h refs;
  Ok (sort_desc (fun t => match h_table h t with Some tb => count_get (t_name tb) m | None => 0 end) tables).

(* DefaultSQLRenderer.render_db, parametrised by how the class renders one element *)
Definition sql_render_db_with (render : heap -> oid -> res pystr) (h : heap) (d : database) : res pystr :=
  do tables <- reorder_tables_for_sql h (d_tables d) (d_refs d);
  let refs := filter (fun rid => match h_reference h rid with Some r => negb (ref_inline r) | None => true end) (d_refs d) in
  do comps <- mapM (render h) (d_enums d ++ tables ++ refs);
  Ok (join [cLF; cLF] comps).
