(* Build.v — pydbml/parser/blueprints.py (every Blueprint.build), PyDBMLParser.parse_blueprint,
   locate_table and build_database. *)
From PyDBML Require Import PyStr Py Heap Classes Database Tools PP Actions.
Import ListNotations.

Definition fstr_of (d : list (pystr * pyv)) (k : string) : option pystr :=
  match dget (K k) d with Some (PVStr s) => Some s | _ => None end.
Definition fbool_of (d : list (pystr * pyv)) (k : string) : bool :=
  match dget (K k) d with Some (PVBool b) => b | _ => false end.
Definition flist_of (d : list (pystr * pyv)) (k : string) : list pyv :=
  match dget (K k) d with Some (PVList l) => l | _ => [] end.
Definition fdict_of (d : list (pystr * pyv)) (k : string) : pdict :=
  match dget (K k) d with
  | Some (PVDict l) => flat_map (fun kv => match snd kv with PVStr v => [(fst kv, v)] | _ => [] end) l
  | _ => []
  end.

(* NoteBlueprint.build() as the text of the Note (may raise ValueError: defect D3) *)
Definition note_text_of (d : list (pystr * pyv)) (k : string) : res note_arg :=
  match dget (K k) d with
  | Some (PVBlue 1 nd) =>
      match dget (K "text") nd with
      | Some (PVStr t) => do t' <- preformat t; Ok (NAstr t')
      | _ => Raise (EStuck 400)
      end
  | Some _ => Raise (EStuck 401)
  | None => Ok NAnone
  end.

Record pstate := mkPState {
  ps_tables : list pyv; ps_refs : list pyv; ps_enums : list pyv; ps_groups : list pyv;
  ps_project : option pyv; ps_stickies : list pyv }.
Definition ps_empty := mkPState [] [] [] [] None [].

(* TableBlueprint.get_reference_blueprints *)
Definition table_ref_blueprints (td : list (pystr * pyv)) : list pyv :=
  let schema := match fstr_of td "schema" with Some s => s | None => K "public" end in
  flat_map (fun c => match c with
                     | PVBlue 5 cd =>
                         map (fun rb => match rb with
                                        | PVBlue 4 rd =>
                                            PVBlue 4 (dset (K "col1") (match dget (K "name") cd with Some v => v | None => PVNone end)
                                                      (dset (K "table1") (match dget (K "name") td with Some v => v | None => PVNone end)
                                                       (dset (K "schema1") (PVStr schema) rd)))
                                        | x => x
                                        end) (flist_of cd "ref_blueprints")
                     | _ => []
                     end) (flist_of td "columns").

(* PyDBMLParser.parse_blueprint *)
Definition register (s : pstate) (bp : pyv) : res pstate :=
  match bp with
  | PVBlue 7 td => Ok (mkPState (ps_tables s ++ [bp]) (ps_refs s ++ table_ref_blueprints td) (ps_enums s)
                                (ps_groups s) (ps_project s) (ps_stickies s))
  | PVBlue 4 _ => Ok (mkPState (ps_tables s) (ps_refs s ++ [bp]) (ps_enums s) (ps_groups s) (ps_project s) (ps_stickies s))
  | PVBlue 9 _ => Ok (mkPState (ps_tables s) (ps_refs s) (ps_enums s ++ [bp]) (ps_groups s) (ps_project s) (ps_stickies s))
  | PVBlue 11 _ => Ok (mkPState (ps_tables s) (ps_refs s) (ps_enums s) (ps_groups s ++ [bp]) (ps_project s) (ps_stickies s))
  | PVBlue 10 _ => Ok (mkPState (ps_tables s) (ps_refs s) (ps_enums s) (ps_groups s) (Some bp) (ps_stickies s))
  | PVBlue 2 _ => Ok (mkPState (ps_tables s) (ps_refs s) (ps_enums s) (ps_groups s) (ps_project s) (ps_stickies s ++ [bp]))
  | _ => Raise ERuntimeError
  end.

(* ---- Blueprint.build ---- *)
Definition build_enum_item (bp : pyv) : M oid :=
  match bp with
  | PVBlue 8 d =>
      do! nt <- lift (note_text_of d "note") ;;
      new_enumitem (fstr_of d "name") nt (fstr_of d "comment")
  | _ => stuck 402
  end.

Definition build_enum (bp : pyv) : M oid :=
  match bp with
  | PVBlue 9 d =>
      do! items <- mapMM build_enum_item (flist_of d "items") ;;
      new_enum (fstr_of d "name") (map IAobj items)
               (Some (match fstr_of d "schema" with Some s => s | None => K "public" end)) (fstr_of d "comment")
  | _ => stuck 403
  end.

Definition build_column (dbid : oid) (bp : pyv) : M oid :=
  match bp with
  | PVBlue 5 d =>
      do! dflt <- (match dget (K "default") d with
                   | Some (PVBlue 3 xd) =>
                       match dget (K "text") xd with
                       | Some (PVStr t) => do! x <- new_expr t ;; ret (DExpr x)
                       | _ => stuck 404
                       end
                   | Some (PVStr s) => ret (DStr s)
                   | Some (PVBool b) => ret (DBool b)
                   | Some (PVInt z) => ret (DInt z)
                   | Some (PVFloat s) => ret (DFloat s)
                   | Some PVNone | None => ret DNone
                   | Some _ => stuck 405
                   end) ;;
      match fstr_of d "type" with
      | None => stuck 406
      | Some ty =>
          do! sn <- (match split_on 46%N ty with
                     | [a; b] => ret (a, b)                        (* exactly one dot (after the fix of D4) *)
                     | _ => ret (K "public", ty)
                     end) ;;
          do! db <- get_database dbid ;; do! h <- get_heap ;;
          let ty' := match find (fun e => match h_enum h e with
                                          | Some en => ostr_eqb (e_schema en) (Some (fst sn)) && ostr_eqb (e_name en) (Some (snd sn))
                                          | None => false
                                          end) (d_enums db) with
                     | Some e => CTEnum e
                     | None => CTStr ty
                     end in
          do! nt <- lift (note_text_of d "note") ;;
          new_column (fstr_of d "name") ty' (fbool_of d "unique") (fbool_of d "not_null") (fbool_of d "pk")
                     (fbool_of d "autoinc") dflt nt (fstr_of d "comment") (fdict_of d "properties")
      end
  | _ => stuck 407
  end.

Definition build_index (bp : pyv) : M oid :=
  match bp with
  | PVBlue 6 d =>
      do! nt <- lift (note_text_of d "note") ;;
      new_index (Some []) (fstr_of d "name") (fbool_of d "unique") (fstr_of d "type") (fbool_of d "pk") nt (fstr_of d "comment")
  | _ => stuck 408
  end.

Definition build_table (dbid : oid) (bp : pyv) : M oid :=
  match bp with
  | PVBlue 7 d =>
      do! nt <- lift (note_text_of d "note") ;;
      do! t <- new_table (fstr_of d "name") (Some (match fstr_of d "schema" with Some s => s | None => K "public" end))
                         (fstr_of d "alias") [] [] nt (fstr_of d "header_color") (fstr_of d "comment") false
                         (fdict_of d "properties") ;;
      do!! iterM (fun cb => do! c <- build_column dbid cb ;; table_add_column t c) (flist_of d "columns") ;;
      do!! iterM (fun ib =>
                    do! i <- build_index ib ;;
                    do! subs <- mapMM (fun s =>
                                         match s with
                                         | PVBlue 3 xd => match dget (K "text") xd with
                                                          | Some (PVStr tx) => do! x <- new_expr tx ;; ret (SubExpr x)
                                                          | _ => stuck 409
                                                          end
                                         | PVStr nm =>
                                             do! tb <- get_table t ;; do! h <- get_heap ;;
                                             match find (fun c => match h_column h c with
                                                                  | Some cc => ostr_eqb (c_name cc) (Some nm)
                                                                  | None => false
                                                                  end) (t_columns tb) with
                                             | Some c => ret (SubCol c)
                                             | None => raise EColumnNotFound
                                             end
                                         | _ => stuck 410
                                         end)
                                      (match ib with PVBlue 6 idd => flist_of idd "subject_names" | _ => [] end) ;;
                    do!! upd_index i (fun x => mkIndex (Some subs) (i_table x) (i_name x) (i_unique x) (i_type x) (i_pk x) (i_note x) (i_comment x)) ;;
                    table_add_index t i) (flist_of d "indexes") ;;
      ret t
  | _ => stuck 411
  end.

(* PyDBMLParser.locate_table: by alias (any key), then by schema.name *)
Definition locate_table (dbid : oid) (schema name : pystr) : M oid :=
  do! db <- get_database dbid ;;
  match dict_get name (d_table_dict db) with
  | Some t => ret t
  | None => match dict_get (schema ++ 46%N :: name) (d_table_dict db) with
            | Some t => ret t
            | None => raise ETableNotFound
            end
  end.

(* TableGroupBlueprint.build: the loop that resolves the item names *)
Fixpoint group_items (dbid : oid) (l : list pyv) (acc : list oid) : M (list oid) :=
  match l with
  | [] => ret acc
  | PVStr tn :: rest =>
      let comps := split_on 46%N tn in
      let '(sc, tb) := match comps with
                       | [a; b] => (a, b)
                       | c0 :: _ => (K "public", c0)
                       | [] => (K "public", [])
                       end in
      do! t <- locate_table dbid sc tb ;; do! h <- get_heap ;;
      if list_has (table_eqb h) t acc then raise EValidation else group_items dbid rest (acc ++ [t])
  | _ :: _ => stuck 412
  end.

Definition build_group (dbid : oid) (bp : pyv) : M oid :=
  match bp with
  | PVBlue 11 d =>
      do! items <- group_items dbid (flist_of d "items") [] ;;
      do! nt <- lift (note_text_of d "note") ;;
      do! n <- (match nt with
                | NAnone => ret None
                | NAstr s => do! x <- alloc (ONote (mkNote s None)) ;; ret (Some x)
                | NAobj o => ret (Some o)
                end) ;;
      match fstr_of d "name" with
      | Some nm => new_group nm items (fstr_of d "comment") n (fstr_of d "color")
      | None => stuck 413
      end
  | _ => stuck 414
  end.

Definition build_sticky (bp : pyv) : M oid :=
  match bp with
  | PVBlue 2 d =>
      match fstr_of d "name", fstr_of d "text" with
      | Some n, Some t => do! t' <- lift (preformat t) ;; new_sticky n t'
      | _, _ => stuck 415
      end
  | _ => stuck 416
  end.

Definition build_project (bp : pyv) : M oid :=
  match bp with
  | PVBlue 10 d =>
      do! nt <- lift (note_text_of d "note") ;;
      match fstr_of d "name" with
      | Some n => new_project n (fdict_of d "items") nt (fstr_of d "comment")
      | None => stuck 417
      end
  | _ => stuck 418
  end.

Definition strip_paren_blank (s : pystr) : pystr := strip_chars [40%N; 41%N; cSP] s.

Definition build_reference (dbid : oid) (bp : pyv) : M oid :=
  match bp with
  | PVBlue 4 d =>
      match fstr_of d "table1", fstr_of d "table2", fstr_of d "col1", fstr_of d "col2" with
      | None, _, _, _ | _, None, _, _ => raise ETableNotFound
      | _, _, None, _ | _, _, _, None => raise EColumnNotFound
      | Some t1n, Some t2n, Some c1s, Some c2s =>
          let s1 := match fstr_of d "schema1" with Some s => s | None => K "public" end in
          let s2 := match fstr_of d "schema2" with Some s => s | None => K "public" end in
          do! t1 <- locate_table dbid s1 t1n ;;
          do! col1 <- mapMM (fun c => table_getitem t1 (KStr (strip_paren_blank c))) (split_on 44%N c1s) ;;
          do! t2 <- locate_table dbid s2 t2n ;;
          do! col2 <- mapMM (fun c => table_getitem t2 (KStr (strip_paren_blank c))) (split_on 44%N c2s) ;;
          new_reference (fstr_of d "type") (Some col1) (Some col2) (fstr_of d "name") (fstr_of d "comment")
                        (fstr_of d "on_update") (fstr_of d "on_delete") (fbool_of d "inline")
      end
  | _ => stuck 419
  end.

(* PyDBMLParser.build_database; renderer classes are numbers as in Script.v *)
Definition build_database (s : pstate) (allow : bool) (sqlr dbmlr : nat) : M oid :=
  do! db <- new_database sqlr dbmlr allow ;;
  do!! iterM (fun bp => do! e <- build_enum bp ;; db_add db e) (ps_enums s) ;;
  do!! iterM (fun bp => do! t <- build_table db bp ;; db_add db t) (ps_tables s) ;;
  do!! iterM (fun bp => do! g <- build_group db bp ;; db_add db g) (ps_groups s) ;;
  do!! iterM (fun bp => do! n <- build_sticky bp ;; db_add db n) (ps_stickies s) ;;
  do!! (match ps_project s with
        | Some bp => do! p <- build_project bp ;; db_add db p
        | None => ret tt
        end) ;;
  do!! iterM (fun bp => do! r <- build_reference db bp ;; db_add db r) (ps_refs s) ;;
  ret db.
