(* Actions.v — the parse actions of pydbml/definitions/*.py (and PyDBMLParser.parse_blueprint),
   by action id (the ids are assigned by tools/translate_grammar.py).  Blueprints are generic
   records: kind + the keyword arguments that were passed (defaults are applied by Build.v). *)
From PyDBML Require Import PyStr Py PP.
Import ListNotations.

Definition BP_NOTE : N := 1.   Definition BP_STICKY : N := 2.  Definition BP_EXPR : N := 3.
Definition BP_REF : N := 4.    Definition BP_COLUMN : N := 5.  Definition BP_INDEX : N := 6.
Definition BP_TABLE : N := 7.  Definition BP_ENUMITEM : N := 8. Definition BP_ENUM : N := 9.
Definition BP_PROJECT : N := 10. Definition BP_GROUP : N := 11.

(* a token as the python value an action sees; nested results become lists *)
Fixpoint ptok_to_pyv (t : ptok) : pyv :=
  match t with
  | PTStr s => PVStr s
  | PTVal v => v
  | PTRes (PR toks _ _) => PVList ((fix go (l : list ptok) : list pyv :=
                                      match l with [] => [] | x :: r => ptok_to_pyv x :: go r end) toks)
  end.

(* dict with python update semantics *)
Fixpoint dset (k : pystr) (v : pyv) (d : list (pystr * pyv)) : list (pystr * pyv) :=
  match d with
  | [] => [(k, v)]
  | (k', v') :: r => if str_eqb k k' then (k', v) :: r else (k', v') :: dset k v r
  end.
Fixpoint dget (k : pystr) (d : list (pystr * pyv)) : option pyv :=
  match d with
  | [] => None
  | (k', v) :: r => if str_eqb k k' then Some v else dget k r
  end.
Definition dhas (k : pystr) (d : list (pystr * pyv)) : bool := match dget k d with Some _ => true | None => false end.
Definition dupdate (d upd : list (pystr * pyv)) : list (pystr * pyv) :=
  fold_left (fun acc kv => dset (fst kv) (snd kv) acc) upd d.

Definition K (s : string) : pystr := s2l s.

(* tok[k][0] *)
Definition first_of (t : ptok) : option pyv :=
  match t with
  | PTRes (PR (x :: _) _ _) => Some (ptok_to_pyv x)
  | PTRes (PR [] _ _) => None
  | PTStr (c :: _) => Some (PVStr [c])
  | _ => None
  end.

(* '\n'.join(c[0] for c in tok['comment_before']) *)
Definition comment_before (r : pr) : option pystr :=
  match pr_getitem r (K "comment_before") with
  | Some (PTRes (PR items _ _)) =>
      Some (join [cLF] (flat_map (fun it => match first_of it with Some (PVStr s) => [s] | _ => [] end) items))
  | _ => None
  end.

(* {k: v for k, v in tok['property']} *)
Definition properties_of (r : pr) : option pyv :=
  match pr_getitem r (K "property") with
  | Some (PTRes (PR items _ _)) =>
      Some (PVDict (fold_left (fun acc it => match it with
                                             | PTRes (PR [PTStr k; PTStr v] _ _) => dset k (PVStr v) acc
                                             | _ => acc
                                             end) items []))
  | _ => None
  end.

(* float(s) for a literal  digits '.' digits : canonical text of the float (DESIGN 3.1 window) *)
Fixpoint strip_leading_zeros (s : pystr) : pystr :=
  match s with
  | c :: (_ :: _) as r => if N.eqb c 48 then strip_leading_zeros r else s
  | _ => s
  end.
Definition strip_trailing_zeros (s : pystr) : pystr :=
  match rstrip_chars [48%N] s with [] => [48%N] | x => x end.
Fixpoint count_leading_zeros (s : pystr) : nat :=
  match s with c :: r => if N.eqb c 48 then S (count_leading_zeros r) else 0 | [] => 0 end.

Definition float_text (s : pystr) : option pystr :=
  match split_on 46%N s with
  | [ip; fp] =>
      let ip' := strip_leading_zeros ip in
      let fp' := strip_trailing_zeros fp in
      let sig := (if str_eqb ip' [48%N] then 0 else length ip') + (if str_eqb fp' [48%N] then 0 else length fp') in
      if Nat.ltb 15 sig then None
      else if Nat.ltb 16 (length ip') then None
      else if str_eqb ip' [48%N] && negb (str_eqb fp' [48%N]) && Nat.leb 4 (count_leading_zeros fp') then None
      else Some (ip' ++ 46%N :: fp')
  | _ => None
  end.

Definition tok0 (r : pr) : option ptok := match pr_toks r with t :: _ => Some t | [] => None end.

Definition set_if {A} (c : bool) (f : A -> A) (x : A) : A := if c then f x else x.

Definition blue (k : N) (d : list (pystr * pyv)) : action_result := ARVal (PVBlue k d).

Definition getv (r : pr) (k : string) : option pyv := option_map ptok_to_pyv (pr_getitem r (K k)).

Definition act (id : N) (src : pystr) (loc : nat) (r : pr) : action_result :=
  let has (k : pystr) := pr_contains r k in
  (* comment handling shared by column / index / ref : trailing wins, else the block above *)
  let with_comments (d : list (pystr * pyv)) : list (pystr * pyv) :=
    let d := match pr_getitem r (K "comment") with
             | Some t => match first_of t with Some v => dset (K "comment") v d | None => d end
             | None => d
             end in
    if negb (dhas (K "comment") d) then
      match comment_before r with Some c => dset (K "comment") (PVStr c) d | None => d end
    else d in
  match id with
  | 1 => match tok0 r with
         | Some t => blue BP_EXPR [(K "text", ptok_to_pyv t)]
         | None => ARParseFail
         end
  | 2 => match getv r "text" with
         | Some v => blue BP_NOTE [(K "text", v)]
         | None => ARRaise EKeyError
         end
  | 3 => match tok0 r with
         | Some (PTStr s) =>
             if str_eqb s (K "true") then ARVal (PVBool true)
             else if str_eqb s (K "false") then ARVal (PVBool false)
             else if str_eqb s (K "NULL") then ARNone
             else ARRaise EKeyError
         | Some _ => ARRaise ETypeError
         | None => ARParseFail
         end
  | 4 => match tok0 r with
         | Some (PTStr s) =>
             if mem 46%N s then
               match float_text s with
               | Some t => ARVal (PVFloat t)
               | None => ARRaise (EStuck 310)          (* outside the modelled float window *)
               end
             else if forallb is_digit s && negb (is_nil s) then
               (* CPython >= 3.11: int(str) refuses more than 4300 digits (sys.int_info.default_max_str_digits):
                  the ValueError escapes from the parse action — defect D37 *)
               if N.ltb 4300 (N.of_nat (length s)) then ARRaise EValueError
               else ARVal (PVInt (Z.of_N (N_of_digits s)))
             else ARRaise EValueError
         | Some _ => ARRaise (EStuck 311)
         | None => ARParseFail
         end
  | 5 => ARVal (PVBool true)
  | 6 => ARVal (PVBool false)
  | 10 => (* parse_column_settings *)
      let d := [] in
      let d := match getv r "notnull" with
               | Some (PVBool true) => dset (K "not_null") (PVBool true) d
               | Some (PVBool false) | None => d
               | Some _ => dset (K "not_null") (PVBool true) d
               end in
      let d := set_if (has (K "pk")) (dset (K "pk") (PVBool true)) d in
      let d := set_if (has (K "unique")) (dset (K "unique") (PVBool true)) d in
      let d := set_if (has (K "increment")) (dset (K "autoinc") (PVBool true)) d in
      let d := match getv r "note" with Some v => dset (K "note") v d | None => d end in
      match (match pr_getitem r (K "default") with
             | Some t => match first_of t with Some v => Some (dset (K "default") v d) | None => None end
             | None => Some d
             end) with
      | None => ARParseFail
      | Some d =>
          let d := match getv r "ref" with Some v => dset (K "ref_blueprints") v d | None => d end in
          match (match pr_getitem r (K "comment") with
                 | Some t => match first_of t with Some v => Some (dset (K "comment") v d) | None => None end
                 | None => Some d
                 end) with
          | None => ARParseFail
          | Some d =>
              let d := match properties_of r with Some p => dset (K "properties") p d | None => d end in
              ARVal (PVDict d)
          end
      end
  | 11 => (* parse_column *)
      match getv r "name", getv r "type" with
      | Some n, Some t =>
          let d := [(K "name", n); (K "type", t)] in
          let d := match pr_getitem r (K "constraints") with
                   | Some (PTRes (PR cs _ _)) =>
                       fold_left (fun acc c => match c with
                                               | PTStr s => if str_eqb s (K "pk") then dset (K "pk") (PVBool true) acc
                                                            else if str_eqb s (K "unique") then dset (K "unique") (PVBool true) acc
                                                            else acc
                                               | _ => acc
                                               end) cs d
                   | _ => d
                   end in
          let d := match getv r "settings" with Some (PVDict u) => dupdate d u | _ => d end in
          blue BP_COLUMN (with_comments d)
      | _, _ => ARRaise EKeyError
      end
  | 12 => (* parse_table_settings *)
      let d := match getv r "note" with Some v => [(K "note", v)] | None => [] end in
      let d := match getv r "header_color" with Some v => dset (K "header_color") v d | None => d end in
      ARVal (PVDict d)
  | 13 => (* parse_table *)
      match getv r "name" with
      | None => ARRaise EKeyError
      | Some n =>
          let d := [(K "name", n)] in
          let d := match getv r "schema" with Some v => dset (K "schema") v d | None => d end in
          let d := match getv r "settings" with Some (PVDict u) => dupdate d u | _ => d end in
          match (match pr_getitem r (K "alias") with
                 | Some t => match first_of t with Some v => Some (dset (K "alias") v d) | None => None end
                 | None => Some d end) with
          | None => ARParseFail
          | Some d =>
            match (match pr_getitem r (K "note") with
                   | Some t => match first_of t with Some v => Some (dset (K "note") v d) | None => None end
                   | None => Some d end) with
            | None => ARParseFail
            | Some d =>
              match (match pr_getitem r (K "indexes") with
                     | Some t => match first_of t with Some v => Some (dset (K "indexes") v d) | None => None end
                     | None => Some d end) with
              | None => ARParseFail
              | Some d =>
                  let d := match getv r "columns" with Some v => dset (K "columns") v d | None => d end in
                  let d := match comment_before r with Some c => dset (K "comment") (PVStr c) d | None => d end in
                  let d := match properties_of r with Some p => dset (K "properties") p d | None => d end in
                  match dget (K "columns") d with
                  | Some (PVList (_ :: _)) => blue BP_TABLE d
                  | _ => ARRaise ESyntaxError
                  end
              end
            end
          end
      end
  | 14 => (* parse_index_settings *)
      let d := set_if (has (K "unique")) (dset (K "unique") (PVBool true)) [] in
      let d := match getv r "name" with Some v => dset (K "name") v d | None => d end in
      let d := set_if (has (K "pk")) (dset (K "pk") (PVBool true)) d in
      let d := match getv r "type" with Some v => dset (K "type") v d | None => d end in
      let d := match getv r "note" with Some v => dset (K "note") v d | None => d end in
      match (match pr_getitem r (K "comment") with
             | Some t => match first_of t with Some v => Some (dset (K "comment") v d) | None => None end
             | None => Some d end) with
      | Some d => ARVal (PVDict d)
      | None => ARParseFail
      end
  | 15 => (* parse_index *)
      match pr_getitem r (K "subject") with
      | None => ARRaise EKeyError
      | Some t =>
          let subjects := match t with
                          | PTRes _ => ptok_to_pyv t
                          | _ => PVList [ptok_to_pyv t]
                          end in
          let d := [(K "subject_names", subjects)] in
          let d := match getv r "settings" with Some (PVDict u) => dupdate d u | _ => d end in
          blue BP_INDEX (with_comments d)
      end
  | 16 => (* parse_enum_settings *)
      let d := match getv r "note" with Some v => [(K "note", v)] | None => [] end in
      match (match pr_getitem r (K "comment") with
             | Some t => match first_of t with Some v => Some (dset (K "comment") v d) | None => None end
             | None => Some d end) with
      | Some d => ARVal (PVDict d)
      | None => ARParseFail
      end
  | 17 => (* parse_enum_item *)
      match getv r "name" with
      | None => ARRaise EKeyError
      | Some n =>
          let d := [(K "name", n)] in
          let d := match getv r "settings" with Some (PVDict u) => dupdate d u | _ => d end in
          let d := if negb (dhas (K "comment") d) then
                     match comment_before r with Some c => dset (K "comment") (PVStr c) d | None => d end
                   else d in
          blue BP_ENUMITEM d
      end
  | 18 => (* parse_enum *)
      match getv r "name", getv r "items" with
      | Some n, Some its =>
          let d := [(K "name", n); (K "items", its)] in
          let d := match getv r "schema" with Some v => dset (K "schema") v d | None => d end in
          let d := match comment_before r with Some c => dset (K "comment") (PVStr c) d | None => d end in
          blue BP_ENUM d
      | _, _ => ARRaise EKeyError
      end
  | 19 => (* parse_inline_relation *)
      match getv r "type", getv r "table", getv r "field" with
      | Some ty, Some tb, Some fd =>
          let d := [(K "type", ty); (K "inline", PVBool true); (K "table2", tb); (K "col2", fd)] in
          let d := match getv r "schema" with Some v => dset (K "schema2") v d | None => d end in
          blue BP_REF d
      | _, _, _ => ARRaise EKeyError
      end
  | 20 => (* parse_ref_settings *)
      let fo (k : pystr) := match pr_getitem r k with Some t => Some (first_of t) | None => None end in
      match fo (K "update"), fo (K "delete"), fo (K "comment") with
      | Some None, _, _ | _, Some None, _ | _, _, Some None => ARParseFail
      | u, dl, c =>
          let d := match u with Some (Some v) => [(K "on_update", v)] | _ => [] end in
          let d := match dl with Some (Some v) => dset (K "on_delete") v d | _ => d end in
          let d := match c with Some (Some v) => dset (K "comment") v d | _ => d end in
          ARVal (PVDict d)
      end
  | 21 => (* parse_ref_cols *)
      match getv r "table", getv r "field" with
      | Some tb, Some fd =>
          let d := [(K "table", tb); (K "field", fd)] in
          let d := match getv r "schema" with Some v => dset (K "schema") v d | None => d end in
          ARVal (PVDict d)
      | _, _ => ARRaise EKeyError
      end
  | 22 => (* parse_ref *)
      match getv r "type", getv r "col1", getv r "col2" with
      | Some ty, Some (PVDict c1), Some (PVDict c2) =>
          match dget (K "table") c1, dget (K "field") c1, dget (K "table") c2, dget (K "field") c2 with
          | Some t1, Some f1, Some t2, Some f2 =>
              let d := [(K "type", ty); (K "inline", PVBool false); (K "table1", t1); (K "col1", f1);
                        (K "table2", t2); (K "col2", f2)] in
              let d := match dget (K "schema") c1 with Some v => dset (K "schema1") v d | None => d end in
              let d := match dget (K "schema") c2 with Some v => dset (K "schema2") v d | None => d end in
              let d := match getv r "name" with Some v => dset (K "name") v d | None => d end in
              let d := match getv r "settings" with Some (PVDict u) => dupdate d u | _ => d end in
              blue BP_REF (with_comments d)
          | _, _, _, _ => ARRaise EKeyError
          end
      | Some _, Some _, Some _ => ARRaise ETypeError
      | _, _, _ => ARRaise EKeyError
      end
  | 23 => (* parse_table_group *)
      match getv r "name" with
      | None => ARRaise EKeyError
      | Some n =>
          let items := match getv r "items" with Some v => v | None => PVList [] end in
          let d := [(K "name", n); (K "items", items)] in
          let d := match comment_before r with Some c => dset (K "comment") (PVStr c) d | None => d end in
          let d := match getv r "note" with
                   | Some (PVList (v :: _)) => dset (K "note") v d
                   | Some (PVList []) => d       (* note[0] on an empty result would be an IndexError; unreachable *)
                   | Some v => dset (K "note") v d
                   | None => d
                   end in
          let d := match getv r "color" with Some v => dset (K "color") v d | None => d end in
          blue BP_GROUP d
      end
  | 24 => (* parse_project *)
      match getv r "name" with
      | None => ARRaise EKeyError
      | Some n =>
          let items := match getv r "items" with Some (PVList l) => l | _ => [] end in
          let '(d, its) :=
            fold_left (fun acc it =>
                         let '(d, its) := acc in
                         match it with
                         | PVBlue 1 _ => (dset (K "note") it d, its)
                         | PVList [PVStr k; v] => (d, dset k v its)
                         | _ => (d, its)
                         end) items ([(K "name", n)], []) in
          let d := match its with [] => d | _ => dset (K "items") (PVDict its) d end in
          let d := match comment_before r with Some c => dset (K "comment") (PVStr c) d | None => d end in
          blue BP_PROJECT d
      end
  | 25 => (* parse_sticky_note *)
      match getv r "name", getv r "text" with
      | Some n, Some t => blue BP_STICKY [(K "name", n); (K "text", t)]
      | _, _ => ARRaise EKeyError
      end
  | 30 => (* PyDBMLParser.parse_blueprint: registers tok[0] with the parser *)
      match tok0 r with
      | Some t => AREffect (ptok_to_pyv t)
      | None => ARParseFail
      end
  | _ => ARRaise (EStuck 399)
  end%N.
