(* Script.v — the op-script language shared by the API-level correspondence streams and by the
   theorems about histories (C09, C10, C16, C17): decoder from the case format and interpreter. *)
From PyDBML Require Import PyStr Py Sx Heap Classes Database Show Tools RenderSQL RenderDBML PP Actions Build Entry.
Import ListNotations.

(* ------------------------------------------------------------------ renderer classes *)
Inductive handler := HConst (s : pystr) | HSql | HDbml.
Inductive dbmode := DBConst (s : pystr) | DBSqlLike | DBDbmlLike.
Record rdef := mkRdef { rd_handlers : list (N * handler); rd_db : dbmode }.

Definition kind_code (o : obj) : N :=
  match o with
  | OTable _ => 1 | OColumn _ => 2 | OIndex _ => 3 | OReference _ => 4 | OEnum _ => 5
  | OEnumItem _ => 6 | ONote _ => 7 | OSticky _ => 8 | OExpr _ => 9 | OProject _ => 10
  | OGroup _ => 11 | ODatabase _ => 12
  end%N.

Fixpoint assocN {A} (k : N) (l : list (N * A)) : option A :=
  match l with
  | [] => None
  | (k', v) :: r => if N.eqb k k' then Some v else assocN k r
  end.

(* renderer class number n: 0 DefaultSQLRenderer, 1 DefaultDBMLRenderer, n+2 the n-th custom class *)
Definition render_generic (rd : heap -> oid -> res pystr) (rs : list rdef) (n : nat) (h : heap) (o : oid) : res pystr :=
  match n with
  | 0 => sql_render h o
  | 1 => dbml_render rd h o
  | S (S k) =>
      match nth_error rs k, nth_error h o with
      | Some def, Some ob =>
          match assocN (kind_code ob) (rd_handlers def) with
          | None => Ok []                                   (* BaseRenderer._unsupported_renderer *)
          | Some (HConst s) => Ok s
          | Some HSql => sql_render h o
          | Some HDbml => dbml_render rd h o
          end
      | _, _ => Raise (EStuck 90)
      end
  end.

Definition db_dbml_renderer (h : heap) (d : option oid) : nat :=
  match d with
  | Some did => match h_database h did with Some db => d_dbml_renderer db | None => 1 end
  | None => 1
  end.
Definition db_sql_renderer (h : heap) (d : option oid) : nat :=
  match d with
  | Some did => match h_database h did with Some db => d_sql_renderer db | None => 0 end
  | None => 0
  end.

(* ref.dbml as evaluated inside a column's options *)
Definition ref_dbml (rs : list rdef) (h : heap) (rid : oid) : res pystr :=
  match h_reference h rid with
  | Some r => render_generic (fun _ _ => Raise (EStuck 91)) rs (db_dbml_renderer h (r_database r)) h rid
  | None => Raise (EStuck 92)
  end.

Definition render_via (rs : list rdef) (n : nat) (h : heap) (o : oid) : res pystr :=
  render_generic (ref_dbml rs) rs n h o.

(* the `database` attribute as hasattr/getattr see it *)
Definition obj_database (h : heap) (ob : obj) : option oid :=
  match ob with
  | OTable t => t_database t
  | OColumn c => match c_table c with
                 | Some t => match h_table h t with Some tb => t_database tb | None => None end
                 | None => None
                 end
  | OReference r => r_database r
  | OEnum e => e_database e
  | OSticky s => sn_database s
  | OProject p => p_database p
  | OGroup g => g_database g
  | _ => None
  end.

Definition render_db (rs : list rdef) (n : nat) (h : heap) (d : database) : res pystr :=
  match n with
  | 0 => sql_render_db_with (render_via rs 0) h d
  | 1 => dbml_render_db_with (render_via rs 1) h d
  | S (S k) =>
      match nth_error rs k with
      | Some def => match rd_db def with
                    | DBConst s => Ok s
                    | DBSqlLike => sql_render_db_with (render_via rs n) h d
                    | DBDbmlLike => dbml_render_db_with (render_via rs n) h d
                    end
      | None => Raise (EStuck 93)
      end
  end.

(* obj.sql *)
Definition obj_sql (rs : list rdef) (h : heap) (o : oid) : res pystr :=
  match nth_error h o with
  | None => Raise (EStuck 94)
  | Some ob =>
      match ob with
      | ODatabase d => render_db rs (d_sql_renderer d) h d
      | OSticky _ | OProject _ | OGroup _ => Raise EAttributeError
      | _ => render_via rs (db_sql_renderer h (obj_database h ob)) h o
      end
  end.

(* obj.dbml *)
Definition obj_dbml (rs : list rdef) (h : heap) (o : oid) : res pystr :=
  match nth_error h o with
  | None => Raise (EStuck 95)
  | Some ob =>
      match ob with
      | ODatabase d => render_db rs (d_dbml_renderer d) h d
      | _ => render_via rs (db_dbml_renderer h (obj_database h ob)) h o
      end
  end.

(* ------------------------------------------------------------------ values and ops *)
Inductive sval :=
| SVNone | SVStr (s : pystr) | SVBool (b : bool) | SVInt (z : Z) | SVFloat (s : pystr)
| SVObj (o : nat) | SVObjs (l : list nat) | SVDict (d : pdict) | SVSubjects (l : list (N * sx)) | SVNat (n : nat).

Inductive op :=
| ONewNote (text : pystr)
| ONewExpr (text : pystr)
| ONewColumn (name : option pystr) (ty : sval) (unique not_null pk autoinc : bool) (default : sval)
             (note : sval) (comment : option pystr) (props : pdict)
| ONewIndex (subjects : sval) (name : option pystr) (unique : bool) (ty : option pystr) (pk : bool)
            (note : sval) (comment : option pystr)
| ONewTable (name schema alias : option pystr) (cols idxs : list nat) (note : sval)
            (header_color comment : option pystr) (abstract : bool) (props : pdict)
| ONewRef (ty : option pystr) (col1 col2 : option (list nat)) (name comment on_update on_delete : option pystr) (inline : bool)
| ONewEnumItem (name : option pystr) (note : sval) (comment : option pystr)
| ONewEnum (name : option pystr) (items : list sval) (schema comment : option pystr)
| ONewSticky (name text : pystr)
| ONewProject (name : pystr) (items : pdict) (note : sval) (comment : option pystr)
| ONewGroup (name : pystr) (items : list nat) (comment : option pystr) (note : option nat) (color : option pystr)
| ONewDatabase (sqlr dbmlr : nat) (allow : bool)
| ODbAdd (meth : N) (d o : nat)            (* 0 add, 1 add_table, 2 add_reference, 3 add_enum, 4 add_table_group, 5 add_project, 6 add_sticky_note *)
| ODbDelete (meth : N) (d o : nat)         (* 0 delete, 1 delete_table, 2 delete_reference, 3 delete_enum, 4 delete_table_group, 5 delete_project *)
| OTAddColumn (t c : nat) | OTDeleteColumn (t : nat) (a : sval)
| OTAddIndex (t i : nat) | OTDeleteIndex (t : nat) (a : sval)
| OEAddItem (e : nat) (a : sval)
| OSetAttr (o : nat) (attr : N) (v : sval)
| ODbGetItem (d : nat) (k : sval) | ODbIter (d : nat)
| OTGetItem (t : nat) (k : sval) | OTGet (t : nat) (k : sval)
| OTGetRefs (t : nat) | OCGetRefs (c : nat)
| ORTable (side : N) (r : nat) | ORJoinTable (r : nat)
| OSql (o : nat) | ODbml (o : nat) | ODump | OGetNote (o : nat) | OEq (a b : nat) | OColDatabase (c : nat)
| OParse (route : N) (allow : bool) (sqlr dbmlr : nat) (text : pystr)
| OReparse (o : nat) (allow : bool)          (* PyDBML(obj.dbml, allow_properties=allow) *)
| ODictSet (o : nat) (attr : N) (k v : pystr)   (* getattr(obj, attr)[k] = v : in-place mutation of properties / items *)
| OBad.

(* ------------------------------------------------------------------ decoding *)
Definition dec_ostr := dec_opt dec_str.
Definition dec_pdict := dec_list (dec_pair dec_str dec_str).
Definition dec_nats := dec_list dec_nat.

Definition dec_sval (x : sx) : option sval :=
  match x with
  | SL [SA 0%N] => Some SVNone
  | SL [SA 1%N; s] => option_map SVStr (dec_str s)
  | SL [SA 2%N; b] => option_map SVBool (dec_bool b)
  | SL [SA 3%N; z] => option_map SVInt (dec_Z z)
  | SL [SA 4%N; o] => option_map SVObj (dec_nat o)
  | SL [SA 5%N; l] => option_map SVObjs (dec_nats l)
  | SL [SA 6%N; s] => option_map SVFloat (dec_str s)
  | SL [SA 7%N; d] => option_map SVDict (dec_pdict d)
  | SL [SA 8%N; SL l] => option_map SVSubjects
                          (dec_list_aux (fun y => match y with SL [SA k; v] => Some (k, v) | _ => None end) l)
  | SL [SA 9%N; n] => option_map SVNat (dec_nat n)
  | _ => None
  end.

Definition omap2 {A B C} (f : A -> B -> C) (a : option A) (b : option B) : option C :=
  match a, b with Some x, Some y => Some (f x y) | _, _ => None end.
Definition oapp {A B} (f : option (A -> B)) (a : option A) : option B :=
  match f, a with Some g, Some x => Some (g x) | _, _ => None end.
Notation "f <*> a" := (oapp f a) (at level 55, left associativity).

Definition dec_op (x : sx) : op :=
  let r :=
    match x with
    | SL (SA code :: args) =>
      match code, args with
      | 10, [t] => Some ONewNote <*> dec_str t
      | 11, [t] => Some ONewExpr <*> dec_str t
      | 12, [n; ty; u; nn; pk; ai; d; nt; c; p] =>
          Some ONewColumn <*> dec_ostr n <*> dec_sval ty <*> dec_bool u <*> dec_bool nn <*> dec_bool pk
               <*> dec_bool ai <*> dec_sval d <*> dec_sval nt <*> dec_ostr c <*> dec_pdict p
      | 13, [s; n; u; ty; pk; nt; c] =>
          Some ONewIndex <*> dec_sval s <*> dec_ostr n <*> dec_bool u <*> dec_ostr ty <*> dec_bool pk
               <*> dec_sval nt <*> dec_ostr c
      | 14, [n; s; a; cs; is; nt; hc; c; ab; p] =>
          Some ONewTable <*> dec_ostr n <*> dec_ostr s <*> dec_ostr a <*> dec_nats cs <*> dec_nats is
               <*> dec_sval nt <*> dec_ostr hc <*> dec_ostr c <*> dec_bool ab <*> dec_pdict p
      | 15, [ty; c1; c2; n; c; ou; od; il] =>
          Some ONewRef <*> dec_ostr ty <*> dec_opt dec_nats c1 <*> dec_opt dec_nats c2 <*> dec_ostr n
               <*> dec_ostr c <*> dec_ostr ou <*> dec_ostr od <*> dec_bool il
      | 16, [n; nt; c] => Some ONewEnumItem <*> dec_ostr n <*> dec_sval nt <*> dec_ostr c
      | 17, [n; its; s; c] => Some ONewEnum <*> dec_ostr n <*> dec_list dec_sval its <*> dec_ostr s <*> dec_ostr c
      | 18, [n; t] => Some ONewSticky <*> dec_str n <*> dec_str t
      | 19, [n; its; nt; c] => Some ONewProject <*> dec_str n <*> dec_pdict its <*> dec_sval nt <*> dec_ostr c
      | 20, [n; its; c; nt; col] =>
          Some ONewGroup <*> dec_str n <*> dec_nats its <*> dec_ostr c <*> dec_opt dec_nat nt <*> dec_ostr col
      | 21, [s; d; a] => Some ONewDatabase <*> dec_nat s <*> dec_nat d <*> dec_bool a
      | 30, [m; d; o] => Some ODbAdd <*> dec_N m <*> dec_nat d <*> dec_nat o
      | 40, [m; d; o] => Some ODbDelete <*> dec_N m <*> dec_nat d <*> dec_nat o
      | 50, [t; c] => Some OTAddColumn <*> dec_nat t <*> dec_nat c
      | 51, [t; a] => Some OTDeleteColumn <*> dec_nat t <*> dec_sval a
      | 52, [t; i] => Some OTAddIndex <*> dec_nat t <*> dec_nat i
      | 53, [t; a] => Some OTDeleteIndex <*> dec_nat t <*> dec_sval a
      | 54, [e; a] => Some OEAddItem <*> dec_nat e <*> dec_sval a
      | 60, [o; a; v] => Some OSetAttr <*> dec_nat o <*> dec_N a <*> dec_sval v
      | 70, [d; k] => Some ODbGetItem <*> dec_nat d <*> dec_sval k
      | 71, [d] => Some ODbIter <*> dec_nat d
      | 72, [t; k] => Some OTGetItem <*> dec_nat t <*> dec_sval k
      | 73, [t; k] => Some OTGet <*> dec_nat t <*> dec_sval k
      | 74, [t] => Some OTGetRefs <*> dec_nat t
      | 75, [c] => Some OCGetRefs <*> dec_nat c
      | 76, [s; r] => Some ORTable <*> dec_N s <*> dec_nat r
      | 78, [r] => Some ORJoinTable <*> dec_nat r
      | 80, [o] => Some OSql <*> dec_nat o
      | 81, [o] => Some ODbml <*> dec_nat o
      | 82, [] => Some ODump
      | 83, [o] => Some OGetNote <*> dec_nat o
      | 84, [a; b] => Some OEq <*> dec_nat a <*> dec_nat b
      | 85, [c] => Some OColDatabase <*> dec_nat c
      | 91, [o; al] => Some OReparse <*> dec_nat o <*> dec_bool al
      | 61, [o; a; k; v] => Some ODictSet <*> dec_nat o <*> dec_N a <*> dec_str k <*> dec_str v
      | 90, [rt; al; sr; dr; tx] => Some OParse <*> dec_N rt <*> dec_bool al <*> dec_nat sr <*> dec_nat dr <*> dec_str tx
      | _, _ => None
      end%N
    | _ => None
    end in
  match r with Some o => o | None => OBad end.

Definition dec_handler (x : sx) : option (N * handler) :=
  match x with
  | SL [SA k; SL [SA 0%N; s]] => option_map (fun t => (k, HConst t)) (dec_str s)
  | SL [SA k; SL [SA 1%N]] => Some (k, HSql)
  | SL [SA k; SL [SA 2%N]] => Some (k, HDbml)
  | _ => None
  end.
Definition dec_rdef (x : sx) : option rdef :=
  match x with
  | SL [hs; SL [SA 0%N; s]] => omap2 mkRdef (dec_list dec_handler hs) (option_map DBConst (dec_str s))
  | SL [hs; SL [SA 1%N]] => omap2 mkRdef (dec_list dec_handler hs) (Some DBSqlLike)
  | SL [hs; SL [SA 2%N]] => omap2 mkRdef (dec_list dec_handler hs) (Some DBDbmlLike)
  | _ => None
  end.

(* ------------------------------------------------------------------ interpreter *)
Record st := mkSt { st_heap : heap; st_slots : list (option oid) }.

Inductive outcome :=
| OutOk                                 (* returned None / nothing to show *)
| OutObj (o : oid)                      (* returned an object: bound to the new slot *)
| OutText (t : pystr)                   (* returned a value already printed *)
| OutRaise (e : exc)
| OutSkip.                              (* refers to an unbound slot, or undecodable *)

Definition slot (s : st) (n : nat) : option oid :=
  match nth_error (st_slots s) n with Some (Some o) => Some o | _ => None end.

Fixpoint slots_all (s : st) (l : list nat) : option (list oid) :=
  match l with
  | [] => Some []
  | n :: r => match slot s n, slots_all s r with
              | Some o, Some os => Some (o :: os)
              | _, _ => None
              end
  end.

Definition note_arg_of (s : st) (v : sval) : option note_arg :=
  match v with
  | SVNone => Some NAnone
  | SVStr t => Some (NAstr t)
  | SVObj n => option_map NAobj (slot s n)
  | _ => None
  end.

Definition coltype_of (s : st) (v : sval) : option coltype :=
  match v with
  | SVNone => Some CTNone
  | SVStr t => Some (CTStr t)
  | SVObj n => option_map CTEnum (slot s n)
  | _ => None
  end.

Definition defval_of (s : st) (v : sval) : option defval :=
  match v with
  | SVNone => Some DNone
  | SVInt z => Some (DInt z)
  | SVFloat t => Some (DFloat t)
  | SVBool b => Some (DBool b)
  | SVStr t => Some (DStr t)
  | SVObj n => option_map DExpr (slot s n)
  | _ => None
  end.

Fixpoint subjects_of (s : st) (l : list (N * sx)) : option (list subject) :=
  match l with
  | [] => Some []
  | (k, v) :: r =>
      let x := match k with
               | 0%N => option_map SubStr (dec_str v)
               | 1%N => match dec_nat v with Some n => option_map SubCol (slot s n) | None => None end
               | 2%N => match dec_nat v with Some n => option_map SubExpr (slot s n) | None => None end
               | _ => None
               end in
      match x, subjects_of s r with Some a, Some b => Some (a :: b) | _, _ => None end
  end.

Definition osubjects_of (s : st) (v : sval) : option (option (list subject)) :=
  match v with
  | SVNone => Some None
  | SVSubjects l => option_map Some (subjects_of s l)
  | _ => None
  end.

Definition item_arg_of (s : st) (v : sval) : option item_arg :=
  match v with
  | SVStr t => Some (IAstr t)
  | SVObj n => option_map IAobj (slot s n)
  | _ => None
  end.

Fixpoint items_of (s : st) (l : list sval) : option (list item_arg) :=
  match l with
  | [] => Some []
  | v :: r => match item_arg_of s v, items_of s r with
              | Some a, Some b => Some (a :: b)
              | _, _ => None
              end
  end.

Definition del_arg_of (s : st) (v : sval) : option del_arg :=
  match v with
  | SVInt z => Some (DAint z)
  | SVObj n => option_map DAobj (slot s n)
  | _ => None
  end.

Definition key_of (v : sval) : option key_arg :=
  match v with
  | SVInt z => Some (KInt z)
  | SVStr t => Some (KStr t)
  | _ => None
  end.

Definition oslots (s : st) (l : option (list nat)) : option (option (list oid)) :=
  match l with
  | None => Some None
  | Some ns => option_map Some (slots_all s ns)
  end.

Definition ostr_of (v : sval) : option (option pystr) :=
  match v with SVNone => Some None | SVStr t => Some (Some t) | _ => None end.
Definition bool_of (v : sval) : option bool := match v with SVBool b => Some b | _ => None end.
Definition oobj_of (s : st) (v : sval) : option (option oid) :=
  match v with SVNone => Some None | SVObj n => option_map Some (slot s n) | _ => None end.

(* attribute assignment; None = not an assignment the model covers (the generator never emits it) *)
Definition set_attr (s : st) (o : oid) (attr : N) (v : sval) : option (M unit) :=
  match nth_error (st_heap s) o with
  | None => None
  | Some ob =>
    match ob with
    | OTable x =>
        let mk a b c d e f g hh i j k := Some (store o (OTable (mkTable a b c d e f g hh i j k))) in
        match attr with
        | 1 => match ostr_of v with Some n => mk (t_database x) n (t_schema x) (t_columns x) (t_indexes x) (t_alias x) (t_note x) (t_header_color x) (t_comment x) (t_abstract x) (t_properties x) | None => None end
        | 2 => match ostr_of v with Some n => mk (t_database x) (t_name x) n (t_columns x) (t_indexes x) (t_alias x) (t_note x) (t_header_color x) (t_comment x) (t_abstract x) (t_properties x) | None => None end
        | 3 => match ostr_of v with Some n => mk (t_database x) (t_name x) (t_schema x) (t_columns x) (t_indexes x) n (t_note x) (t_header_color x) (t_comment x) (t_abstract x) (t_properties x) | None => None end
        | 4 => match v with
               | SVObj k => match slot s k with
                            | Some n => Some (do!! store o (OTable (mkTable (t_database x) (t_name x) (t_schema x) (t_columns x) (t_indexes x) (t_alias x) n (t_header_color x) (t_comment x) (t_abstract x) (t_properties x))) ;;
                                              do! nn <- get_note n ;; store n (ONote (mkNote (n_text nn) (Some o))))
                            | None => None
                            end
               | _ => None
               end
        | 5 => match ostr_of v with Some n => mk (t_database x) (t_name x) (t_schema x) (t_columns x) (t_indexes x) (t_alias x) (t_note x) n (t_comment x) (t_abstract x) (t_properties x) | None => None end
        | 6 => match ostr_of v with Some n => mk (t_database x) (t_name x) (t_schema x) (t_columns x) (t_indexes x) (t_alias x) (t_note x) (t_header_color x) n (t_abstract x) (t_properties x) | None => None end
        | 7 => match bool_of v with Some b => mk (t_database x) (t_name x) (t_schema x) (t_columns x) (t_indexes x) (t_alias x) (t_note x) (t_header_color x) (t_comment x) b (t_properties x) | None => None end
        | 8 => match v with SVDict d => mk (t_database x) (t_name x) (t_schema x) (t_columns x) (t_indexes x) (t_alias x) (t_note x) (t_header_color x) (t_comment x) (t_abstract x) d | _ => None end
        | _ => None
        end
    | OColumn x =>
        let mk a b c d e f g hh i j k := Some (store o (OColumn (mkColumn a b c d e f g hh i j k))) in
        match attr with
        | 1 => match ostr_of v with Some n => mk n (c_type x) (c_unique x) (c_not_null x) (c_pk x) (c_autoinc x) (c_comment x) (c_note x) (c_properties x) (c_default x) (c_table x) | None => None end
        | 2 => match coltype_of s v with Some n => mk (c_name x) n (c_unique x) (c_not_null x) (c_pk x) (c_autoinc x) (c_comment x) (c_note x) (c_properties x) (c_default x) (c_table x) | None => None end
        | 3 => match bool_of v with Some b => mk (c_name x) (c_type x) b (c_not_null x) (c_pk x) (c_autoinc x) (c_comment x) (c_note x) (c_properties x) (c_default x) (c_table x) | None => None end
        | 4 => match bool_of v with Some b => mk (c_name x) (c_type x) (c_unique x) b (c_pk x) (c_autoinc x) (c_comment x) (c_note x) (c_properties x) (c_default x) (c_table x) | None => None end
        | 5 => match bool_of v with Some b => mk (c_name x) (c_type x) (c_unique x) (c_not_null x) b (c_autoinc x) (c_comment x) (c_note x) (c_properties x) (c_default x) (c_table x) | None => None end
        | 6 => match bool_of v with Some b => mk (c_name x) (c_type x) (c_unique x) (c_not_null x) (c_pk x) b (c_comment x) (c_note x) (c_properties x) (c_default x) (c_table x) | None => None end
        | 7 => match defval_of s v with Some n => mk (c_name x) (c_type x) (c_unique x) (c_not_null x) (c_pk x) (c_autoinc x) (c_comment x) (c_note x) (c_properties x) n (c_table x) | None => None end
        | 8 => match v with
               | SVObj k => match slot s k with
                            | Some n => Some (do!! store o (OColumn (mkColumn (c_name x) (c_type x) (c_unique x) (c_not_null x) (c_pk x) (c_autoinc x) (c_comment x) n (c_properties x) (c_default x) (c_table x))) ;;
                                              do! nn <- get_note n ;; store n (ONote (mkNote (n_text nn) (Some o))))
                            | None => None
                            end
               | _ => None
               end
        | 9 => match ostr_of v with Some n => mk (c_name x) (c_type x) (c_unique x) (c_not_null x) (c_pk x) (c_autoinc x) n (c_note x) (c_properties x) (c_default x) (c_table x) | None => None end
        | 10 => match v with SVDict d => mk (c_name x) (c_type x) (c_unique x) (c_not_null x) (c_pk x) (c_autoinc x) (c_comment x) (c_note x) d (c_default x) (c_table x) | _ => None end
        | 11 => match oobj_of s v with Some t => mk (c_name x) (c_type x) (c_unique x) (c_not_null x) (c_pk x) (c_autoinc x) (c_comment x) (c_note x) (c_properties x) (c_default x) t | None => None end
        | _ => None
        end
    | OIndex x =>
        let mk a b c d e f g hh := Some (store o (OIndex (mkIndex a b c d e f g hh))) in
        match attr with
        | 1 => match osubjects_of s v with Some n => mk n (i_table x) (i_name x) (i_unique x) (i_type x) (i_pk x) (i_note x) (i_comment x) | None => None end
        | 2 => match ostr_of v with Some n => mk (i_subjects x) (i_table x) n (i_unique x) (i_type x) (i_pk x) (i_note x) (i_comment x) | None => None end
        | 3 => match bool_of v with Some b => mk (i_subjects x) (i_table x) (i_name x) b (i_type x) (i_pk x) (i_note x) (i_comment x) | None => None end
        | 4 => match ostr_of v with Some n => mk (i_subjects x) (i_table x) (i_name x) (i_unique x) n (i_pk x) (i_note x) (i_comment x) | None => None end
        | 5 => match bool_of v with Some b => mk (i_subjects x) (i_table x) (i_name x) (i_unique x) (i_type x) b (i_note x) (i_comment x) | None => None end
        | 6 => match v with
               | SVObj k => match slot s k with
                            | Some n => Some (do!! store o (OIndex (mkIndex (i_subjects x) (i_table x) (i_name x) (i_unique x) (i_type x) (i_pk x) n (i_comment x))) ;;
                                              do! nn <- get_note n ;; store n (ONote (mkNote (n_text nn) (Some o))))
                            | None => None
                            end
               | _ => None
               end
        | 7 => match ostr_of v with Some n => mk (i_subjects x) (i_table x) (i_name x) (i_unique x) (i_type x) (i_pk x) (i_note x) n | None => None end
        | 8 => match oobj_of s v with Some t => mk (i_subjects x) t (i_name x) (i_unique x) (i_type x) (i_pk x) (i_note x) (i_comment x) | None => None end
        | _ => None
        end
    | OReference x =>
        let mk a b c d e f g hh i := Some (store o (OReference (mkReference a b c d e f g hh i))) in
        let ocols := match v with
                     | SVNone => Some None
                     | SVObjs l => option_map Some (slots_all s l)
                     | _ => None
                     end in
        match attr with
        | 1 => match ostr_of v with Some n => mk (r_database x) n (r_col1 x) (r_col2 x) (r_name x) (r_comment x) (r_on_update x) (r_on_delete x) (r_inline x) | None => None end
        | 2 => match ocols with Some n => mk (r_database x) (r_type x) n (r_col2 x) (r_name x) (r_comment x) (r_on_update x) (r_on_delete x) (r_inline x) | None => None end
        | 3 => match ocols with Some n => mk (r_database x) (r_type x) (r_col1 x) n (r_name x) (r_comment x) (r_on_update x) (r_on_delete x) (r_inline x) | None => None end
        | 4 => match ostr_of v with Some n => mk (r_database x) (r_type x) (r_col1 x) (r_col2 x) n (r_comment x) (r_on_update x) (r_on_delete x) (r_inline x) | None => None end
        | 5 => match ostr_of v with Some n => mk (r_database x) (r_type x) (r_col1 x) (r_col2 x) (r_name x) n (r_on_update x) (r_on_delete x) (r_inline x) | None => None end
        | 6 => match ostr_of v with Some n => mk (r_database x) (r_type x) (r_col1 x) (r_col2 x) (r_name x) (r_comment x) n (r_on_delete x) (r_inline x) | None => None end
        | 7 => match ostr_of v with Some n => mk (r_database x) (r_type x) (r_col1 x) (r_col2 x) (r_name x) (r_comment x) (r_on_update x) n (r_inline x) | None => None end
        | 8 => match bool_of v with Some b => mk (r_database x) (r_type x) (r_col1 x) (r_col2 x) (r_name x) (r_comment x) (r_on_update x) (r_on_delete x) b | None => None end
        | _ => None
        end
    | OEnum x =>
        let mk a b c d e := Some (store o (OEnum (mkEnum a b c d e))) in
        match attr with
        | 1 => match ostr_of v with Some n => mk (e_database x) n (e_schema x) (e_comment x) (e_items x) | None => None end
        | 2 => match ostr_of v with Some n => mk (e_database x) (e_name x) n (e_comment x) (e_items x) | None => None end
        | 3 => match ostr_of v with Some n => mk (e_database x) (e_name x) (e_schema x) n (e_items x) | None => None end
        | 4 => match v with
               | SVNone => mk (e_database x) (e_name x) (e_schema x) (e_comment x) None
               | SVObjs l => match slots_all s l with
                             | Some os => mk (e_database x) (e_name x) (e_schema x) (e_comment x) (Some os)
                             | None => None
                             end
               | _ => None
               end
        | _ => None
        end
    | OEnumItem x =>
        match attr with
        | 1 => match ostr_of v with Some n => Some (store o (OEnumItem (mkEnumItem n (ei_note x) (ei_comment x)))) | None => None end
        | 2 => match v with
               | SVObj k => match slot s k with
                            | Some n => Some (do!! store o (OEnumItem (mkEnumItem (ei_name x) n (ei_comment x))) ;;
                                              do! nn <- get_note n ;; store n (ONote (mkNote (n_text nn) (Some o))))
                            | None => None
                            end
               | _ => None
               end
        | 3 => match ostr_of v with Some n => Some (store o (OEnumItem (mkEnumItem (ei_name x) (ei_note x) n))) | None => None end
        | _ => None
        end
    | ONote x =>
        match attr, v with
        | 1, SVStr t => Some (store o (ONote (mkNote t (n_parent x))))
        | _, _ => None
        end
    | OSticky x =>
        match attr, v with
        | 1, SVStr t => Some (store o (OSticky (mkSticky t (sn_text x) (sn_database x))))
        | 2, SVStr t => Some (store o (OSticky (mkSticky (sn_name x) t (sn_database x))))
        | _, _ => None
        end
    | OExpr x =>
        match attr, v with
        | 1, SVStr t => Some (store o (OExpr (mkExpr t)))
        | _, _ => None
        end
    | OProject x =>
        match attr, v with
        | 1, SVStr t => Some (store o (OProject (mkProject (p_database x) t (p_items x) (p_note x) (p_comment x))))
        | 2, SVDict d => Some (store o (OProject (mkProject (p_database x) (p_name x) d (p_note x) (p_comment x))))
        | 3, SVObj k => match slot s k with
                        | Some n => Some (do!! store o (OProject (mkProject (p_database x) (p_name x) (p_items x) n (p_comment x))) ;;
                                          do! nn <- get_note n ;; store n (ONote (mkNote (n_text nn) (Some o))))
                        | None => None
                        end
        | 4, _ => match ostr_of v with Some n => Some (store o (OProject (mkProject (p_database x) (p_name x) (p_items x) (p_note x) n))) | None => None end
        | _, _ => None
        end
    | OGroup x =>
        match attr with
        | 1 => match v with SVStr t => Some (store o (OGroup (mkGroup (g_database x) t (g_items x) (g_comment x) (g_note x) (g_color x)))) | _ => None end
        | 2 => match v with
               | SVObjs l => match slots_all s l with
                             | Some os => Some (store o (OGroup (mkGroup (g_database x) (g_name x) os (g_comment x) (g_note x) (g_color x))))
                             | None => None
                             end
               | _ => None
               end
        | 3 => match ostr_of v with Some n => Some (store o (OGroup (mkGroup (g_database x) (g_name x) (g_items x) n (g_note x) (g_color x)))) | None => None end
        | 4 => match oobj_of s v with Some n => Some (store o (OGroup (mkGroup (g_database x) (g_name x) (g_items x) (g_comment x) n (g_color x)))) | None => None end
        | 5 => match ostr_of v with Some n => Some (store o (OGroup (mkGroup (g_database x) (g_name x) (g_items x) (g_comment x) (g_note x) n))) | None => None end
        | _ => None
        end
    | ODatabase x =>
        match attr, v with
        | 1, SVBool b => Some (store o (ODatabase (db_with_allow b x)))
        | 2, SVNat n => Some (store o (ODatabase (mkDatabase (d_tables x) (d_table_dict x) (d_refs x) (d_enums x) (d_table_groups x) (d_sticky_notes x) (d_project x) (d_allow_properties x) n (d_dbml_renderer x))))
        | 3, SVNat n => Some (store o (ODatabase (mkDatabase (d_tables x) (d_table_dict x) (d_refs x) (d_enums x) (d_table_groups x) (d_sticky_notes x) (d_project x) (d_allow_properties x) (d_sql_renderer x) n)))
        | _, _ => None
        end
    end%N
  end.

(* the object-level equality Python's == computes between two slots *)
Definition obj_eqb (h : heap) (a b : oid) : bool :=
  match nth_error h a, nth_error h b with
  | Some (OTable _), Some (OTable _) => table_eqb h a b
  | Some (OColumn _), Some (OColumn _) => column_eqb h a b
  | Some (OIndex _), Some (OIndex _) => index_eqb h a b
  | Some (OReference _), Some (OReference _) => ref_eqb h a b
  | Some (OEnum _), Some (OEnum _) => enum_eqb h a b
  | Some (OEnumItem _), Some (OEnumItem _) => enumitem_eqb h a b
  | Some (ONote _), Some (ONote _) => note_eqb h a b
  | Some (OExpr _), Some (OExpr _) => expr_eqb h a b
  | _, _ => Nat.eqb a b
  end.

Definition run_M {A} (s : st) (m : M A) (k : A -> outcome) : st * outcome :=
  let '(h', r) := m (st_heap s) in
  (mkSt h' (st_slots s), match r with Ok a => k a | Raise e => OutRaise e end).

Definition run_new (s : st) (m : option (M oid)) : st * outcome :=
  match m with
  | Some mm => run_M s mm OutObj
  | None => (s, OutSkip)
  end.

Definition show_oids_raw (h : heap) (slots : list (option oid)) (l : list oid) : pystr :=
  (* objects printed by their slot-independent canonical number need a dump; here we only
     print how many and let the caller bind nothing: lists are shown via identity to slots *)
  91%N :: join [44%N] (map (fun o => match index_of (fun s => ooid_eqb s (Some o)) slots with
                                     | Some n => 35%N :: str_of_nat n
                                     | None => [63%N]
                                     end) l) ++ [93%N].

Definition exec_op (rs : list rdef) (s : st) (o : op) : st * outcome :=
  match o with
  | ONewNote t => run_new s (Some (alloc (ONote (mkNote t None))))
  | ONewExpr t => run_new s (Some (new_expr t))
  | ONewColumn n ty u nn pk ai d nt c p =>
      run_new s (match coltype_of s ty, defval_of s d, note_arg_of s nt with
                 | Some ty', Some d', Some nt' => Some (new_column n ty' u nn pk ai d' nt' c p)
                 | _, _, _ => None
                 end)
  | ONewIndex subs n u ty pk nt c =>
      run_new s (match osubjects_of s subs, note_arg_of s nt with
                 | Some ss, Some nt' => Some (new_index ss n u ty pk nt' c)
                 | _, _ => None
                 end)
  | ONewTable n sc a cs is nt hc c ab p =>
      run_new s (match slots_all s cs, slots_all s is, note_arg_of s nt with
                 | Some cs', Some is', Some nt' => Some (new_table n sc a cs' is' nt' hc c ab p)
                 | _, _, _ => None
                 end)
  | ONewRef ty c1 c2 n c ou od il =>
      run_new s (match oslots s c1, oslots s c2 with
                 | Some a, Some b => Some (new_reference ty a b n c ou od il)
                 | _, _ => None
                 end)
  | ONewEnumItem n nt c =>
      run_new s (match note_arg_of s nt with Some nt' => Some (new_enumitem n nt' c) | None => None end)
  | ONewEnum n its sc c =>
      run_new s (match items_of s its with Some ia => Some (new_enum n ia sc c) | None => None end)
  | ONewSticky n t => run_new s (Some (new_sticky n t))
  | ONewProject n its nt c =>
      run_new s (match note_arg_of s nt with Some nt' => Some (new_project n its nt' c) | None => None end)
  | ONewGroup n its c nt col =>
      run_new s (match slots_all s its, (match nt with Some k => option_map Some (slot s k) | None => Some None end) with
                 | Some its', Some nt' => Some (new_group n its' c nt' col)
                 | _, _ => None
                 end)
  | ONewDatabase a b c => run_new s (Some (new_database a b c))
  | ODbAdd m d ob =>
      match slot s d, slot s ob with
      | Some d', Some o' =>
          let f := match m with
                   | 0 => db_add | 1 => db_add_table | 2 => db_add_reference | 3 => db_add_enum
                   | 4 => db_add_table_group | 5 => db_add_project | _ => db_add_sticky_note
                   end%N in
          run_M s (f d' o') (fun _ => OutObj o')
      | _, _ => (s, OutSkip)
      end
  | ODbDelete m d ob =>
      match slot s d, slot s ob with
      | Some d', Some o' =>
          let f := match m with
                   | 0 => db_delete | 1 => db_delete_table | 2 => db_delete_reference | 3 => db_delete_enum
                   | 4 => db_delete_table_group | _ => (fun d _ => db_delete_project d)
                   end%N in
          run_M s (f d' o') OutObj
      | _, _ => (s, OutSkip)
      end
  | OTAddColumn t c =>
      match slot s t, slot s c with
      | Some t', Some c' => run_M s (table_add_column t' c') (fun _ => OutOk)
      | _, _ => (s, OutSkip)
      end
  | OTDeleteColumn t a =>
      match slot s t, del_arg_of s a with
      | Some t', Some a' => run_M s (table_delete_column t' a') (fun r => match r with Some c => OutObj c | None => OutOk end)
      | _, _ => (s, OutSkip)
      end
  | OTAddIndex t i =>
      match slot s t, slot s i with
      | Some t', Some i' => run_M s (table_add_index t' i') (fun _ => OutOk)
      | _, _ => (s, OutSkip)
      end
  | OTDeleteIndex t a =>
      match slot s t, del_arg_of s a with
      | Some t', Some a' => run_M s (table_delete_index t' a') (fun r => match r with Some c => OutObj c | None => OutOk end)
      | _, _ => (s, OutSkip)
      end
  | OEAddItem e a =>
      match slot s e, item_arg_of s a with
      | Some e', Some a' => run_M s (enum_add_item e' a') (fun _ => OutOk)
      | _, _ => (s, OutSkip)
      end
  | OSetAttr ob attr v =>
      match slot s ob with
      | Some o' => match set_attr s o' attr v with
                   | Some m => run_M s m (fun _ => OutOk)
                   | None => (s, OutSkip)
                   end
      | None => (s, OutSkip)
      end
  | ODbGetItem d k =>
      match slot s d, key_of k with
      | Some d', Some k' => run_M s (db_getitem d' k') OutObj
      | _, _ => (s, OutSkip)
      end
  | ODbIter d =>
      match slot s d with
      | Some d' => run_M s (get_database d') (fun db => OutText (show_oids_raw (st_heap s) (st_slots s) (d_tables db)))
      | None => (s, OutSkip)
      end
  | OTGetItem t k =>
      match slot s t, key_of k with
      | Some t', Some k' => run_M s (table_getitem t' k') OutObj
      | _, _ => (s, OutSkip)
      end
  | OTGet t k =>
      match slot s t, key_of k with
      | Some t', Some k' => run_M s (table_get t' k') (fun r => match r with Some c => OutObj c | None => OutOk end)
      | _, _ => (s, OutSkip)
      end
  | OTGetRefs t =>
      match slot s t with
      | Some t' => run_M s (table_get_refs t') (fun l => OutText (show_oids_raw (st_heap s) (st_slots s) l))
      | None => (s, OutSkip)
      end
  | OCGetRefs c =>
      match slot s c with
      | Some c' => run_M s (column_get_refs c') (fun l => OutText (show_oids_raw (st_heap s) (st_slots s) l))
      | None => (s, OutSkip)
      end
  | ORTable side r =>
      match slot s r with
      | Some r' =>
          run_M s (do! rr <- get_reference r' ;; do! h <- get_heap ;;
                   lift (if N.eqb side 1 then ref_table1 h rr else ref_table2 h rr))
                (fun t => match t with Some x => OutObj x | None => OutOk end)
      | None => (s, OutSkip)
      end
  | ORJoinTable r =>
      match slot s r with
      | Some r' => run_M s (ref_join_table r') (fun t => match t with Some x => OutObj x | None => OutOk end)
      | None => (s, OutSkip)
      end
  | OSql ob =>
      match slot s ob with
      | Some o' => (s, match obj_sql rs (st_heap s) o' with Ok t => OutText (show_str t) | Raise e => OutRaise e end)
      | None => (s, OutSkip)
      end
  | ODbml ob =>
      match slot s ob with
      | Some o' => (s, match obj_dbml rs (st_heap s) o' with Ok t => OutText (show_str t) | Raise e => OutRaise e end)
      | None => (s, OutSkip)
      end
  | ODump => (s, OutText (dump (st_heap s) (st_slots s)))
  | OGetNote ob =>
      match slot s ob with
      | Some o' =>
          match nth_error (st_heap s) o' with
          | Some (OTable x) => (s, OutObj (t_note x))
          | Some (OColumn x) => (s, OutObj (c_note x))
          | Some (OIndex x) => (s, OutObj (i_note x))
          | Some (OEnumItem x) => (s, OutObj (ei_note x))
          | Some (OProject x) => (s, OutObj (p_note x))
          | Some (OGroup x) => (s, match g_note x with Some n => OutObj n | None => OutOk end)
          | _ => (s, OutSkip)
          end
      | None => (s, OutSkip)
      end
  | OEq a b =>
      match slot s a, slot s b with
      | Some a', Some b' => (s, OutText (show_bool (obj_eqb (st_heap s) a' b')))
      | _, _ => (s, OutSkip)
      end
  | OColDatabase c =>
      match slot s c with
      | Some c' => match nth_error (st_heap s) c' with
                   | Some ob => (s, match obj_database (st_heap s) ob with Some d => OutObj d | None => OutOk end)
                   | None => (s, OutSkip)
                   end
      | None => (s, OutSkip)
      end
  | OParse route allow sqlr dbmlr text =>
      (* routes: 0 PyDBML(str) 1 PyDBML.parse(str) 2 PyDBML(Path) 3 PyDBML(open file) 4 PyDBML().parse(str)
                 5 parse_file(path str) 6 parse_file(Path) 7 parse_file(open file) 8 PyDBML(<other type>)
         for the file routes [text] is the content as open(p, encoding='utf8').read() returns it *)
      let fs := fun _ : pystr => Some text in
      let m := match route with
               | 0 => pydbml_new fs (SStr text) allow sqlr dbmlr
               | 1 | 4 => pydbml_parse text allow sqlr dbmlr
               | 2 => pydbml_new fs (SPath []) allow sqlr dbmlr
               | 3 => pydbml_new fs (SFile text) allow sqlr dbmlr
               | 5 | 6 => pydbml_parse_file fs (SPath [])
               | 7 => pydbml_parse_file fs (SFile text)
               | _ => pydbml_new fs SOther allow sqlr dbmlr
               end%N in
      run_M s m OutObj
  | ODictSet ob attr k v =>
      match slot s ob with
      | Some o' =>
          match nth_error (st_heap s) o' with
          | Some (OTable x) => if N.eqb attr 8 then run_M s (upd_table o' (fun x => mkTable (t_database x) (t_name x) (t_schema x) (t_columns x) (t_indexes x) (t_alias x) (t_note x) (t_header_color x) (t_comment x) (t_abstract x) (dict_set k v (t_properties x)))) (fun _ => OutOk) else (s, OutSkip)
          | Some (OColumn x) => if N.eqb attr 10 then run_M s (upd_column o' (fun x => mkColumn (c_name x) (c_type x) (c_unique x) (c_not_null x) (c_pk x) (c_autoinc x) (c_comment x) (c_note x) (dict_set k v (c_properties x)) (c_default x) (c_table x))) (fun _ => OutOk) else (s, OutSkip)
          | Some (OProject x) => if N.eqb attr 2 then run_M s (store o' (OProject (mkProject (p_database x) (p_name x) (dict_set k v (p_items x)) (p_note x) (p_comment x)))) (fun _ => OutOk) else (s, OutSkip)
          | _ => (s, OutSkip)
          end
      | None => (s, OutSkip)
      end
  | OReparse ob allow =>
      match slot s ob with
      | Some o' =>
          match obj_dbml rs (st_heap s) o' with
          | Ok t => run_M s (pydbml_new (fun _ => None) (SStr t) allow 0 1) OutObj
          | Raise e => (s, OutRaise e)
          end
      | None => (s, OutSkip)
      end
  | OBad => (s, OutSkip)
  end.

Definition show_outcome (o : outcome) : pystr :=
  match o with
  | OutOk => s2l "ok"
  | OutObj _ => s2l "obj"
  | OutText t => s2l "ok " ++ t
  | OutRaise e => show_exc e
  | OutSkip => s2l "skip"
  end.

Definition step (rs : list rdef) (s : st) (o : op) : st * pystr :=
  let '(s', out) := exec_op rs s o in
  (mkSt (st_heap s') (st_slots s' ++ [match out with OutObj x => Some x | _ => None end]), show_outcome out).

Fixpoint run_ops (rs : list rdef) (s : st) (ops : list op) : st * list pystr :=
  match ops with
  | [] => (s, [])
  | o :: r => let '(s1, t) := step rs s o in
              let '(s2, ts) := run_ops rs s1 r in
              (s2, t :: ts)
  end.

Definition init_st : st := mkSt [] [].

(* case: (2 (rdefs...) (ops...)) ; output: outcomes joined by ';' *)
Definition run_script (rdefs ops : sx) : pystr :=
  match dec_list dec_rdef rdefs, ops with
  | Some rs, SL l => join [59%N] (snd (run_ops rs init_st (map dec_op l)))
  | _, _ => s2l "BAD-CASE"
  end.
