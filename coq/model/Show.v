(* Show.v — canonical observation of a set of objects (DESIGN Appendix B): breadth-first
   numbering from the script's slots, one line per object, pointers printed as numbers of
   that traversal, strings as hex.  The Python harness (tools/pyshow.py) mirrors this. *)
From PyDBML Require Import PyStr Py Sx Heap Classes.
Import ListNotations.

Definition opt_list {A} (o : option A) : list A := match o with Some a => [a] | None => [] end.

Definition subject_children (s : subject) : list oid :=
  match s with SubStr _ => [] | SubCol c => [c] | SubExpr x => [x] end.

(* pointer fields, in the order they are printed *)
Definition children (o : obj) : list oid :=
  match o with
  | OTable t => opt_list (t_database t) ++ t_columns t ++ t_indexes t ++ [t_note t]
  | OColumn c => (match c_type c with CTEnum e => [e] | _ => [] end) ++ [c_note c]
                 ++ (match c_default c with DExpr x => [x] | _ => [] end) ++ opt_list (c_table c)
  | OIndex i => (match i_subjects i with Some l => flat_map subject_children l | None => [] end)
                ++ opt_list (i_table i) ++ [i_note i]
  | OReference r => opt_list (r_database r) ++ (match r_col1 r with Some l => l | None => [] end)
                    ++ (match r_col2 r with Some l => l | None => [] end)
  | OEnum e => opt_list (e_database e) ++ (match e_items e with Some l => l | None => [] end)
  | OEnumItem i => [ei_note i]
  | ONote n => opt_list (n_parent n)
  | OSticky s => opt_list (sn_database s)
  | OExpr _ => []
  | OProject p => opt_list (p_database p) ++ [p_note p]
  | OGroup g => opt_list (g_database g) ++ g_items g ++ opt_list (g_note g)
  | ODatabase d => d_tables d ++ map snd (d_table_dict d) ++ d_refs d ++ d_enums d
                   ++ d_table_groups d ++ d_sticky_notes d ++ opt_list (d_project d)
  end.

Definition nat_mem (x : nat) (l : list nat) : bool := existsb (Nat.eqb x) l.

Fixpoint bfs (fuel : nat) (h : heap) (queue : list oid) (seen_rev : list oid) : list oid :=
  match fuel with
  | O => rev seen_rev
  | S f =>
      match queue with
      | [] => rev seen_rev
      | o :: q =>
          if nat_mem o seen_rev then bfs f h q seen_rev
          else match nth_error h o with
               | Some ob => bfs f h (q ++ children ob) (o :: seen_rev)
               | None => bfs f h q seen_rev
               end
      end
  end.

Definition bfs_fuel (h : heap) (roots : list oid) : nat :=
  S (length roots + fold_right (fun o acc => length (children o) + acc) 0 h).

Definition order_of (h : heap) (roots : list oid) : list oid := bfs (bfs_fuel h roots) h roots [].

Definition kind_letter (o : obj) : ch :=
  match o with
  | OTable _ => 84 | OColumn _ => 67 | OIndex _ => 73 | OReference _ => 82 | OEnum _ => 69
  | OEnumItem _ => 77 | ONote _ => 78 | OSticky _ => 83 | OExpr _ => 88 | OProject _ => 80
  | OGroup _ => 71 | ODatabase _ => 68
  end%N.

Section WithOrder.
  Variable h : heap.
  Variable order : list oid.

  Definition show_ptr (o : oid) : pystr :=
    match nth_error h o, index_of (Nat.eqb o) order with
    | Some ob, Some n => kind_letter ob :: str_of_nat n
    | _, _ => s2l "?"
    end.
  Definition show_optr (o : option oid) : pystr := match o with Some x => show_ptr x | None => [126%N] end.
  Definition show_ptrs (l : list oid) : pystr := 91%N :: join [44%N] (map show_ptr l) ++ [93%N].
  Definition show_optrs (l : option (list oid)) : pystr :=
    match l with Some x => show_ptrs x | None => [126%N] end.
  Definition show_dict (d : pdict) : pystr :=
    91%N :: join [44%N] (map (fun kv => show_str (fst kv) ++ 61%N :: show_str (snd kv)) d) ++ [93%N].
  Definition show_tdict (d : list (pystr * oid)) : pystr :=
    91%N :: join [44%N] (map (fun kv => show_str (fst kv) ++ 61%N :: show_ptr (snd kv)) d) ++ [93%N].

  Definition show_coltype (t : coltype) : pystr :=
    match t with CTNone => [126%N] | CTStr s => show_str s | CTEnum e => show_ptr e end.
  Definition show_defval (d : defval) : pystr :=
    match d with
    | DNone => [126%N]
    | DInt z => s2l "i:" ++ str_of_Z z
    | DFloat s => s2l "f:" ++ s
    | DBool b => s2l "b:" ++ show_bool b
    | DStr s => s2l "s:" ++ show_str s
    | DExpr x => show_ptr x
    end.
  Definition show_subject (s : subject) : pystr :=
    match s with SubStr t => show_str t | SubCol c => show_ptr c | SubExpr x => show_ptr x end.

  Definition fld (name : string) (v : pystr) : pystr := 32%N :: s2l name ++ 61%N :: v.

  Definition show_obj (o : oid) : pystr :=
    match nth_error h o with
    | None => s2l "?"
    | Some ob =>
      show_ptr o ++
      match ob with
      | OTable t =>
          fld "database" (show_optr (t_database t)) ++ fld "name" (show_ostr (t_name t))
          ++ fld "schema" (show_ostr (t_schema t)) ++ fld "columns" (show_ptrs (t_columns t))
          ++ fld "indexes" (show_ptrs (t_indexes t)) ++ fld "alias" (show_ostr (t_alias t))
          ++ fld "note" (show_ptr (t_note t)) ++ fld "header_color" (show_ostr (t_header_color t))
          ++ fld "comment" (show_ostr (t_comment t)) ++ fld "abstract" (show_bool (t_abstract t))
          ++ fld "properties" (show_dict (t_properties t))
      | OColumn c =>
          fld "name" (show_ostr (c_name c)) ++ fld "type" (show_coltype (c_type c))
          ++ fld "unique" (show_bool (c_unique c)) ++ fld "not_null" (show_bool (c_not_null c))
          ++ fld "pk" (show_bool (c_pk c)) ++ fld "autoinc" (show_bool (c_autoinc c))
          ++ fld "comment" (show_ostr (c_comment c)) ++ fld "note" (show_ptr (c_note c))
          ++ fld "properties" (show_dict (c_properties c)) ++ fld "default" (show_defval (c_default c))
          ++ fld "table" (show_optr (c_table c))
      | OIndex i =>
          fld "subjects" (match i_subjects i with
                          | Some l => 91%N :: join [44%N] (map show_subject l) ++ [93%N]
                          | None => [126%N]
                          end)
          ++ fld "table" (show_optr (i_table i)) ++ fld "name" (show_ostr (i_name i))
          ++ fld "unique" (show_bool (i_unique i)) ++ fld "type" (show_ostr (i_type i))
          ++ fld "pk" (show_bool (i_pk i)) ++ fld "note" (show_ptr (i_note i))
          ++ fld "comment" (show_ostr (i_comment i))
      | OReference r =>
          fld "database" (show_optr (r_database r)) ++ fld "type" (show_ostr (r_type r))
          ++ fld "col1" (show_optrs (r_col1 r)) ++ fld "col2" (show_optrs (r_col2 r))
          ++ fld "name" (show_ostr (r_name r)) ++ fld "comment" (show_ostr (r_comment r))
          ++ fld "on_update" (show_ostr (r_on_update r)) ++ fld "on_delete" (show_ostr (r_on_delete r))
          ++ fld "inline" (show_bool (ref_inline r))
      | OEnum e =>
          fld "database" (show_optr (e_database e)) ++ fld "name" (show_ostr (e_name e))
          ++ fld "schema" (show_ostr (e_schema e)) ++ fld "comment" (show_ostr (e_comment e))
          ++ fld "items" (show_optrs (e_items e))
      | OEnumItem i =>
          fld "name" (show_ostr (ei_name i)) ++ fld "note" (show_ptr (ei_note i))
          ++ fld "comment" (show_ostr (ei_comment i))
      | ONote n => fld "text" (show_str (n_text n)) ++ fld "parent" (show_optr (n_parent n))
      | OSticky s =>
          fld "name" (show_str (sn_name s)) ++ fld "text" (show_str (sn_text s))
          ++ fld "database" (show_optr (sn_database s))
      | OExpr x => fld "text" (show_str (x_text x))
      | OProject p =>
          fld "database" (show_optr (p_database p)) ++ fld "name" (show_str (p_name p))
          ++ fld "items" (show_dict (p_items p)) ++ fld "note" (show_ptr (p_note p))
          ++ fld "comment" (show_ostr (p_comment p))
      | OGroup g =>
          fld "database" (show_optr (g_database g)) ++ fld "name" (show_str (g_name g))
          ++ fld "items" (show_ptrs (g_items g)) ++ fld "comment" (show_ostr (g_comment g))
          ++ fld "note" (show_optr (g_note g)) ++ fld "color" (show_ostr (g_color g))
      | ODatabase d =>
          fld "tables" (show_ptrs (d_tables d)) ++ fld "table_dict" (show_tdict (d_table_dict d))
          ++ fld "refs" (show_ptrs (d_refs d)) ++ fld "enums" (show_ptrs (d_enums d))
          ++ fld "table_groups" (show_ptrs (d_table_groups d))
          ++ fld "sticky_notes" (show_ptrs (d_sticky_notes d)) ++ fld "project" (show_optr (d_project d))
          ++ fld "allow_properties" (show_bool (d_allow_properties d))
          ++ fld "sql_renderer" (show_nat (d_sql_renderer d))
          ++ fld "dbml_renderer" (show_nat (d_dbml_renderer d))
      end
    end.
End WithOrder.

(* full dump: slot table, then one line per reachable object; lines separated by '|' *)
Definition dump (h : heap) (slots : list (option oid)) : pystr :=
  let roots := flat_map (fun s => opt_list s) slots in
  let order := order_of h roots in
  s2l "slots=" ++ 91%N :: join [44%N] (map (show_optr h order) slots) ++ [93%N]
  ++ flat_map (fun o => 124%N :: show_obj h order o) order.
