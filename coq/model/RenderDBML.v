(* RenderDBML.v — pydbml/renderer/dbml/default/*.py *)
From PyDBML Require Import PyStr Py Heap Classes Tools RenderSQL.
Import ListNotations.

Definition full_name_for_dbml := full_name_for_sql.

Definition with_comment_dbml (comment : option pystr) (body : pystr) : pystr :=
  if truthy comment then comment_to_dbml (fstr comment) ++ body else body.

Definition note_text (h : heap) (n : oid) : res pystr :=
  match h_note h n with Some x => Ok (n_text x) | None => Raise (EStuck 70) end.

(* dbml note.render_note *)
Definition dbml_note (text : pystr) : pystr :=
  s2l "Note {" ++ cLF :: textwrap_indent (quote_string text) (s2l "    ") ++ cLF :: s2l "}".

Definition dbml_expression (x : expression) : pystr := cBT :: x_text x ++ [cBT].

(* validate_for_dbml + render_reference *)
Definition render_col (h : heap) (cols : list oid) : res pystr :=
  do ns <- mapM (fun c => match h_column h c with
                          | Some cc => Ok (q2 (fstr (c_name cc)))
                          | None => Raise (EStuck 71)
                          end) cols;
  match ns with
  | [n] => Ok n
  | _ => Ok (40%N :: join (s2l ", ") ns ++ [41%N])
  end.

Definition otable_full_name_dbml (h : heap) (t : option oid) : res pystr :=
  match t with
  | None => Raise EAttributeError
  | Some tid => match h_table h tid with
                | Some tb => Ok (full_name_for_dbml (t_schema tb) (t_name tb))
                | None => Raise (EStuck 72)
                end
  end.

Definition dbml_reference (h : heap) (r : reference) : res pystr :=
  do (c1, c2) <- validate_ref_cols h r;
  if ref_inline r then
    match c2 with
    | [c] =>
        match h_column h c with
        | Some cc =>
            do tn <- otable_full_name_dbml h (c_table cc);
            Ok (s2l "ref: " ++ fstr (r_type r) ++ cSP :: tn ++ 46%N :: q2 (fstr (c_name cc)))
        | None => Raise (EStuck 73)
        end
    | [] => Raise EIndexError
    | _ => Raise EDBML
    end
  else
    do t1 <- ref_table1 h r; do n1 <- otable_full_name_dbml h t1; do cs1 <- render_col h c1;
    do t2 <- ref_table2 h r; do n2 <- otable_full_name_dbml h t2; do cs2 <- render_col h c2;
    let opts := (if truthy (r_on_update r) then [s2l "update: " ++ fstr (r_on_update r)] else [])
                ++ (if truthy (r_on_delete r) then [s2l "delete: " ++ fstr (r_on_delete r)] else []) in
    let optstr := match opts with [] => [] | _ => s2l " [" ++ join (s2l ", ") opts ++ s2l "]" end in
    Ok (with_comment_dbml (r_comment r)
          (s2l "Ref" ++ (if truthy (r_name r) then cSP :: fstr (r_name r) else [])
           ++ s2l " {" ++ cLF :: s2l "    " ++ n1 ++ 46%N :: cs1 ++ cSP :: fstr (r_type r) ++ cSP :: n2 ++ 46%N :: cs2
           ++ optstr ++ cLF :: s2l "}")).

Definition dbml_enum_item (h : heap) (i : enumitem) : res pystr :=
  do nt <- note_text h (ei_note i);
  Ok (with_comment_dbml (ei_comment i)
        (q2 (fstr (ei_name i)) ++ (if is_nil nt then [] else s2l " [" ++ note_option_to_dbml nt ++ s2l "]"))).

Definition dbml_enum (h : heap) (e : enum) : res pystr :=
  match e_items e with
  | None => Raise ETypeError
  | Some items =>
      do rs <- mapM (fun i => match h_enumitem h i with
                              | Some it => dbml_enum_item h it
                              | None => Raise (EStuck 74)
                              end) items;
      Ok (with_comment_dbml (e_comment e)
            (s2l "Enum " ++ full_name_for_sql (e_schema e) (e_name e) ++ s2l " {" ++ cLF
             :: textwrap_indent (join [cLF] rs) (s2l "    ") ++ cLF :: s2l "}"))
  end.

Definition default_to_str (h : heap) (d : defval) : res pystr :=
  match d with
  | DStr s => let l := lower s in
              if str_eqb l (s2l "null") || str_eqb l (s2l "true") || str_eqb l (s2l "false") then Ok l
              else Ok (cSQ :: prepare_text_for_dbml s ++ [cSQ])
  | DExpr x => match h_expr h x with Some ex => Ok (dbml_expression ex) | None => Raise (EStuck 75) end
  | DInt z => Ok (str_of_Z z)
  | DFloat s => Ok s
  | DBool b => Ok (str_of_bool b)
  | DNone => Ok (s2l "None")
  end.

Definition defval_truthy (d : defval) : bool :=
  match d with
  | DNone => false
  | DInt z => negb (Z.eqb z 0)
  | DFloat s => negb (str_eqb s (s2l "0.0")) && negb (str_eqb s (s2l "-0.0"))
  | DBool b => b
  | DStr s => negb (is_nil s)
  | DExpr _ => true
  end.

Definition props_items (d : pdict) : list pystr :=
  map (fun kv => fst kv ++ s2l ": " ++ quote_string (snd kv)) d.

Section DBML.
  (* how `ref.dbml` renders a reference (through its database's renderer class) *)
  Variable ref_dbml : heap -> oid -> res pystr.

  Definition dbml_column (h : heap) (cid : oid) (c : column) : res pystr :=
    (* Column.get_refs *)
    do refs <-
      match c_table c with
      | None => Raise ETableNotFound
      | Some t => match column_get_refs cid h with
                  | (_, r) => r
                  end
      end;
    do inlrefs <- mapM (fun rid => ref_dbml h rid)
                   (filter (fun rid => match h_reference h rid with Some r => ref_inline r | None => false end) refs);
    do dflt <- (if defval_truthy (c_default c)
                then do s <- default_to_str h (c_default c); Ok [s2l "default: " ++ s] else Ok []);
    do nt <- note_text h (c_note c);
    let allow := match c_table c with
                 | Some t => match h_table h t with
                             | Some tb => match t_database tb with
                                          | Some d => match h_database h d with
                                                      | Some db => d_allow_properties db
                                                      | None => false
                                                      end
                                          | None => false
                                          end
                             | None => false
                             end
                 | None => false
                 end in
    let options := inlrefs
                   ++ (if c_pk c then [s2l "pk"] else [])
                   ++ (if c_autoinc c then [s2l "increment"] else [])
                   ++ dflt
                   ++ (if c_unique c then [s2l "unique"] else [])
                   ++ (if c_not_null c then [s2l "not null"] else [])
                   ++ (if is_nil nt then [] else [note_option_to_dbml nt])
                   ++ (if allow then props_items (c_properties c) else []) in
    do ty <- match c_type c with
             | CTEnum e => match h_enum h e with
                           | Some en => Ok (full_name_for_sql (e_schema en) (e_name en))
                           | None => Raise (EStuck 76)
                           end
             | CTStr s => Ok s
             | CTNone => Raise ETypeError
             end;
    Ok (with_comment_dbml (c_comment c)
          (q2 (fstr (c_name c)) ++ cSP :: ty
           ++ match options with [] => [] | _ => s2l " [" ++ join (s2l ", ") options ++ s2l "]" end)).

  Definition dbml_index (h : heap) (i : index) : res pystr :=
    match i_subjects i with
    | None => Raise ETypeError
    | Some subs =>
        do ss <- mapM (fun s => match s with
                                | SubCol c => match h_column h c with
                                              | Some cc => match c_name cc with Some n => Ok n | None => Raise ETypeError end
                                              | None => Raise (EStuck 77)
                                              end
                                | SubExpr x => match h_expr h x with Some ex => Ok (dbml_expression ex) | None => Raise (EStuck 78) end
                                | SubStr t => Ok t
                                end) subs;
        do subj <- match ss with
                   | [] => Raise EIndexError
                   | [s] => Ok s
                   | _ => Ok (40%N :: join (s2l ", ") ss ++ [41%N])
                   end;
        do nt <- note_text h (i_note i);
        let options := (if truthy (i_name i) then [s2l "name: '" ++ fstr (i_name i) ++ [cSQ]] else [])
                       ++ (if i_pk i then [s2l "pk"] else [])
                       ++ (if i_unique i then [s2l "unique"] else [])
                       ++ (if truthy (i_type i) then [s2l "type: " ++ fstr (i_type i)] else [])
                       ++ (if is_nil nt then [] else [note_option_to_dbml nt]) in
        Ok (with_comment_dbml (i_comment i)
              (subj ++ match options with [] => [] | _ => s2l " [" ++ join (s2l ", ") options ++ s2l "]" end))
    end.

  Definition dbml_table (h : heap) (t : table) : res pystr :=
    let header := s2l "Table " ++ full_name_for_dbml (t_schema t) (t_name t) ++ [cSP]
                  ++ (if truthy (t_alias t) then s2l "as " ++ q2 (fstr (t_alias t)) ++ [cSP] else [])
                  ++ (if truthy (t_header_color t) then s2l "[headercolor: " ++ fstr (t_header_color t) ++ s2l "] " else []) in
    do cols <- mapM (fun c => match h_column h c with
                              | Some cc => dbml_column h c cc
                              | None => Raise (EStuck 79)
                              end) (t_columns t);
    let allow := match t_database t with
                 | Some d => match h_database h d with Some db => d_allow_properties db | None => false end
                 | None => false
                 end in
    let props := match t_properties t with
                 | [] => []
                 | _ => if allow then textwrap_indent (cLF :: join [cLF] (props_items (t_properties t)) ++ [cLF]) (s2l "    ")
                        else []
                 end in
    do nt <- note_text h (t_note t);
    let notes := if is_nil nt then [] else textwrap_indent (dbml_note nt) (s2l "    ") ++ [cLF] in
    do idx <- match t_indexes t with
              | [] => Ok []
              | l => do is <- mapM (fun i => match h_index h i with
                                             | Some ix => dbml_index h ix
                                             | None => Raise (EStuck 80)
                                             end) l;
                     Ok (cLF :: s2l "    indexes {" ++ cLF :: textwrap_indent (join [cLF] is) (s2l "        ")
                         ++ cLF :: s2l "    }" ++ [cLF])
              end;
    Ok (with_comment_dbml (t_comment t)
          (header ++ s2l "{" ++ cLF :: textwrap_indent (join [cLF] cols) (s2l "    ") ++ cLF
           :: props ++ notes ++ idx ++ s2l "}")).
End DBML.

Definition dbml_project (h : heap) (p : project) : res pystr :=
  do qn <- doublequote_string (p_name p);
  let items := concat (map (fun kv => if mem cLF (snd kv)
                                      then fst kv ++ s2l ": '''" ++ snd kv ++ s2l "'''" ++ [cLF]
                                      else fst kv ++ s2l ": '" ++ snd kv ++ [cSQ; cLF]) (p_items p)) in
  do nt <- note_text h (p_note p);
  Ok (with_comment_dbml (p_comment p)
        (s2l "Project " ++ qn ++ s2l " {" ++ cLF
         :: textwrap_indent (rstrip_chars [cLF] items) (s2l "    ") ++ cLF
         :: (if is_nil nt then [] else textwrap_indent (dbml_note nt) (s2l "    ") ++ [cLF])
         ++ s2l "}")).

Definition dbml_sticky (s : stickynote) : pystr :=
  s2l "Note " ++ sn_name s ++ s2l " {" ++ cLF :: textwrap_indent (quote_string (sn_text s)) (s2l "    ")
  ++ cLF :: s2l "}".

Definition dbml_group (h : heap) (g : tablegroup) : res pystr :=
  do qn <- doublequote_string (g_name g);
  do items <- mapM (fun t => match h_table h t with
                             | Some tb => Ok (s2l "    " ++ full_name_for_dbml (t_schema tb) (t_name tb) ++ [cLF])
                             | None => Raise (EStuck 81)
                             end) (g_items g);
  do nt <- match g_note g with
           | Some n => do t <- note_text h n;
                       Ok (if is_nil t then [] else textwrap_indent (dbml_note t) (s2l "    ") ++ [cLF])
           | None => Ok []
           end;
  Ok (with_comment_dbml (g_comment g)
        (s2l "TableGroup " ++ qn ++ (if truthy (g_color g) then s2l " [color: " ++ fstr (g_color g) ++ s2l "]" else [])
         ++ s2l " {" ++ cLF :: concat items ++ nt ++ s2l "}")).

(* DefaultDBMLRenderer.render(model) *)
Definition dbml_render (ref_dbml : heap -> oid -> res pystr) (h : heap) (o : oid) : res pystr :=
  match nth_error h o with
  | None => Raise (EStuck 82)
  | Some ob =>
      match ob with
      | OTable t => dbml_table ref_dbml h t
      | OColumn c => dbml_column ref_dbml h o c
      | OIndex i => dbml_index h i
      | OReference r => dbml_reference h r
      | OEnum e => dbml_enum h e
      | OEnumItem i => dbml_enum_item h i
      | ONote n => Ok (dbml_note (n_text n))
      | OExpr x => Ok (dbml_expression x)
      | OProject p => dbml_project h p
      | OSticky s => Ok (dbml_sticky s)
      | OGroup g => dbml_group h g
      | ODatabase _ => Ok []
      end
  end.

(* DefaultDBMLRenderer.render_db, parametrised by how the class renders one element *)
Definition dbml_render_db_with (render : heap -> oid -> res pystr) (h : heap) (d : database) : res pystr :=
  let refs := filter (fun rid => match h_reference h rid with Some r => negb (ref_inline r) | None => true end) (d_refs d) in
  let items := (match d_project d with Some p => [p] | None => [] end) ++ d_enums d ++ d_tables d ++ refs ++ d_table_groups d ++ d_sticky_notes d in
  do comps <- mapM (render h) items;
  Ok (join [cLF; cLF] comps).
