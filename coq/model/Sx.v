(* Sx.v — the generic case format exchanged with the correspondence harness: an
   s-expression over natural numbers.  Decoders are total ([option]). Output helpers
   build the canonical observation text of DESIGN Appendix B. *)
From PyDBML Require Import PyStr Py.
Import ListNotations.

Inductive sx := SA (n : N) | SL (l : list sx).

Definition dec_N (x : sx) : option N := match x with SA n => Some n | _ => None end.
Definition dec_nat (x : sx) : option nat := match x with SA n => Some (N.to_nat n) | _ => None end.
Definition dec_bool (x : sx) : option bool := match x with SA n => Some (negb (N.eqb n 0)) | _ => None end.

Fixpoint dec_list_aux {A} (f : sx -> option A) (l : list sx) : option (list A) :=
  match l with
  | [] => Some []
  | x :: r => match f x, dec_list_aux f r with
              | Some a, Some rs => Some (a :: rs)
              | _, _ => None
              end
  end.
Definition dec_list {A} (f : sx -> option A) (x : sx) : option (list A) :=
  match x with SL l => dec_list_aux f l | _ => None end.

Definition dec_str (x : sx) : option pystr := dec_list dec_N x.

(* optional value: () is None, (v) is Some v *)
Definition dec_opt {A} (f : sx -> option A) (x : sx) : option (option A) :=
  match x with
  | SL [] => Some None
  | SL [v] => match f v with Some a => Some (Some a) | None => None end
  | _ => None
  end.

Definition dec_pair {A B} (f : sx -> option A) (g : sx -> option B) (x : sx) : option (A * B) :=
  match x with
  | SL [a; b] => match f a, g b with Some u, Some v => Some (u, v) | _, _ => None end
  | _ => None
  end.

(* integers: (0 n) non-negative, (1 n) negative *)
Definition dec_Z (x : sx) : option Z :=
  match x with
  | SL [SA s; SA n] => Some (if N.eqb s 0 then Z.of_N n else Z.opp (Z.of_N n))
  | _ => None
  end.

(* ---- output ---- *)
Fixpoint hex_join (s : pystr) : pystr :=
  match s with
  | [] => []
  | c :: r => match r with
              | [] => hex_of_N c
              | _ => hex_of_N c ++ 46%N :: hex_join r
              end
  end.
Definition show_str (s : pystr) : pystr := 115%N :: hex_join s.          (* s61.62 *)
Definition show_ostr (o : option pystr) : pystr :=
  match o with None => [126%N] | Some s => show_str s end.               (* ~ *)
Definition show_bool (b : bool) : pystr := if b then [49%N] else [48%N].
Definition show_nat (n : nat) : pystr := str_of_nat n.

Definition show_exc (e : exc) : pystr := s2l "raise " ++ exc_name e.
Definition show_res_str (r : res pystr) : pystr :=
  match r with
  | Ok s => s2l "ok " ++ show_str s
  | Raise e => show_exc e
  end.
Definition show_strs (l : list pystr) : pystr :=
  91%N :: join [44%N] (map show_str l) ++ [93%N].
