(* Heap.v — objects with identity.  One heap of tagged records; an object id is its index.
   Attributes that Python allows to be None (and that a property talks about) are options.
   The state monad keeps the heap of a computation that raises: Python mutations made
   before an exception persist (this is what C09 atomicity is about). *)
From PyDBML Require Import PyStr Py.
Import ListNotations.

Definition oid := nat.
Definition pdict := list (pystr * pystr).      (* insertion-ordered str -> str dict *)

Inductive coltype := CTNone | CTStr (s : pystr) | CTEnum (e : oid).
Inductive defval :=
| DNone | DInt (z : Z) | DFloat (s : pystr) | DBool (b : bool) | DStr (s : pystr) | DExpr (x : oid).
Inductive subject := SubStr (s : pystr) | SubCol (c : oid) | SubExpr (x : oid).

Record table := mkTable {
  t_database : option oid; t_name : option pystr; t_schema : option pystr;
  t_columns : list oid; t_indexes : list oid; t_alias : option pystr; t_note : oid;
  t_header_color : option pystr; t_comment : option pystr; t_abstract : bool;
  t_properties : pdict }.

Record column := mkColumn {
  c_name : option pystr; c_type : coltype; c_unique : bool; c_not_null : bool; c_pk : bool;
  c_autoinc : bool; c_comment : option pystr; c_note : oid; c_properties : pdict;
  c_default : defval; c_table : option oid }.

Record index := mkIndex {
  i_subjects : option (list subject); i_table : option oid; i_name : option pystr;
  i_unique : bool; i_type : option pystr; i_pk : bool; i_note : oid; i_comment : option pystr }.

Record reference := mkReference {
  r_database : option oid; r_type : option pystr; r_col1 : option (list oid);
  r_col2 : option (list oid); r_name : option pystr; r_comment : option pystr;
  r_on_update : option pystr; r_on_delete : option pystr; r_inline : bool }.

Record enum := mkEnum {
  e_database : option oid; e_name : option pystr; e_schema : option pystr;
  e_comment : option pystr; e_items : option (list oid) }.

Record enumitem := mkEnumItem { ei_name : option pystr; ei_note : oid; ei_comment : option pystr }.
Record note := mkNote { n_text : pystr; n_parent : option oid }.
Record stickynote := mkSticky { sn_name : pystr; sn_text : pystr; sn_database : option oid }.
Record expression := mkExpr { x_text : pystr }.
Record project := mkProject {
  p_database : option oid; p_name : pystr; p_items : pdict; p_note : oid; p_comment : option pystr }.
Record tablegroup := mkGroup {
  g_database : option oid; g_name : pystr; g_items : list oid; g_comment : option pystr;
  g_note : option oid; g_color : option pystr }.
Record database := mkDatabase {
  d_tables : list oid; d_table_dict : list (pystr * oid); d_refs : list oid; d_enums : list oid;
  d_table_groups : list oid; d_sticky_notes : list oid; d_project : option oid;
  d_allow_properties : bool; d_sql_renderer : nat; d_dbml_renderer : nat }.

Inductive obj :=
| OTable (t : table) | OColumn (c : column) | OIndex (i : index) | OReference (r : reference)
| OEnum (e : enum) | OEnumItem (ei : enumitem) | ONote (n : note) | OSticky (s : stickynote)
| OExpr (x : expression) | OProject (p : project) | OGroup (g : tablegroup) | ODatabase (d : database).

Definition heap := list obj.

(* ---- state monad that keeps the heap on exceptions ---- *)
Definition M (A : Type) := heap -> heap * res A.
Definition ret {A} (a : A) : M A := fun h => (h, Ok a).
Definition raise {A} (e : exc) : M A := fun h => (h, Raise e).
Definition bindM {A B} (m : M A) (f : A -> M B) : M B :=
  fun h => let '(h1, r) := m h in
           match r with
           | Ok a => f a h1
           | Raise e => (h1, Raise e)
           end.
Notation "'do!' x <- m ;; k" := (bindM m (fun x => k))
  (at level 200, x name, m at level 100, k at level 200, right associativity).
Notation "'do!!' m ;; k" := (bindM m (fun _ => k))
  (at level 200, m at level 100, k at level 200, right associativity).

Definition get_heap : M heap := fun h => (h, Ok h).
Definition lift {A} (r : res A) : M A := fun h => (h, r).

Definition alloc (o : obj) : M oid := fun h => (h ++ [o], Ok (length h)).
Definition lookup (i : oid) : M obj :=
  fun h => match nth_error h i with Some o => (h, Ok o) | None => (h, Raise (EStuck 1)) end.
Definition store (i : oid) (o : obj) : M unit := fun h => (replace_nth i o h, Ok tt).

Definition stuck {A} (n : nat) : M A := raise (EStuck n).

Definition get_table (i : oid) : M table := do! o <- lookup i ;; match o with OTable t => ret t | _ => stuck 2 end.
Definition get_column (i : oid) : M column := do! o <- lookup i ;; match o with OColumn t => ret t | _ => stuck 3 end.
Definition get_index (i : oid) : M index := do! o <- lookup i ;; match o with OIndex t => ret t | _ => stuck 4 end.
Definition get_reference (i : oid) : M reference := do! o <- lookup i ;; match o with OReference t => ret t | _ => stuck 5 end.
Definition get_enum (i : oid) : M enum := do! o <- lookup i ;; match o with OEnum t => ret t | _ => stuck 6 end.
Definition get_enumitem (i : oid) : M enumitem := do! o <- lookup i ;; match o with OEnumItem t => ret t | _ => stuck 7 end.
Definition get_note (i : oid) : M note := do! o <- lookup i ;; match o with ONote t => ret t | _ => stuck 8 end.
Definition get_sticky (i : oid) : M stickynote := do! o <- lookup i ;; match o with OSticky t => ret t | _ => stuck 9 end.
Definition get_expr (i : oid) : M expression := do! o <- lookup i ;; match o with OExpr t => ret t | _ => stuck 10 end.
Definition get_project (i : oid) : M project := do! o <- lookup i ;; match o with OProject t => ret t | _ => stuck 11 end.
Definition get_group (i : oid) : M tablegroup := do! o <- lookup i ;; match o with OGroup t => ret t | _ => stuck 12 end.
Definition get_database (i : oid) : M database := do! o <- lookup i ;; match o with ODatabase t => ret t | _ => stuck 13 end.

(* pure readers (no monad) used by equality and rendering; None when ill-typed *)
Definition h_table (h : heap) (i : oid) : option table := match nth_error h i with Some (OTable t) => Some t | _ => None end.
Definition h_column (h : heap) (i : oid) : option column := match nth_error h i with Some (OColumn t) => Some t | _ => None end.
Definition h_index (h : heap) (i : oid) : option index := match nth_error h i with Some (OIndex t) => Some t | _ => None end.
Definition h_reference (h : heap) (i : oid) : option reference := match nth_error h i with Some (OReference t) => Some t | _ => None end.
Definition h_enum (h : heap) (i : oid) : option enum := match nth_error h i with Some (OEnum t) => Some t | _ => None end.
Definition h_enumitem (h : heap) (i : oid) : option enumitem := match nth_error h i with Some (OEnumItem t) => Some t | _ => None end.
Definition h_note (h : heap) (i : oid) : option note := match nth_error h i with Some (ONote t) => Some t | _ => None end.
Definition h_sticky (h : heap) (i : oid) : option stickynote := match nth_error h i with Some (OSticky t) => Some t | _ => None end.
Definition h_expr (h : heap) (i : oid) : option expression := match nth_error h i with Some (OExpr t) => Some t | _ => None end.
Definition h_project (h : heap) (i : oid) : option project := match nth_error h i with Some (OProject t) => Some t | _ => None end.
Definition h_group (h : heap) (i : oid) : option tablegroup := match nth_error h i with Some (OGroup t) => Some t | _ => None end.
Definition h_database (h : heap) (i : oid) : option database := match nth_error h i with Some (ODatabase t) => Some t | _ => None end.

Fixpoint mapMM {A B} (f : A -> M B) (l : list A) : M (list B) :=
  match l with
  | [] => ret []
  | x :: r => do! y <- f x ;; do! ys <- mapMM f r ;; ret (y :: ys)
  end.

Fixpoint iterM {A} (f : A -> M unit) (l : list A) : M unit :=
  match l with
  | [] => ret tt
  | x :: r => do!! f x ;; iterM f r
  end.

(* ---- insertion-ordered dict with Python semantics ---- *)
Fixpoint dict_get {V} (k : pystr) (d : list (pystr * V)) : option V :=
  match d with
  | [] => None
  | (k', v) :: r => if str_eqb k k' then Some v else dict_get k r
  end.
Fixpoint dict_set {V} (k : pystr) (v : V) (d : list (pystr * V)) : list (pystr * V) :=
  match d with
  | [] => [(k, v)]
  | (k', v') :: r => if str_eqb k k' then (k', v) :: r else (k', v') :: dict_set k v r
  end.
Fixpoint dict_remove {V} (k : pystr) (d : list (pystr * V)) : list (pystr * V) :=
  match d with
  | [] => []
  | (k', v') :: r => if str_eqb k k' then r else (k', v') :: dict_remove k r
  end.
Definition dict_has {V} (k : pystr) (d : list (pystr * V)) : bool :=
  match dict_get k d with Some _ => true | None => false end.

(* dict == dict : order-insensitive *)
Definition pdict_eqb (a b : pdict) : bool :=
  Nat.eqb (length a) (length b) &&
  forallb (fun kv => match dict_get (fst kv) b with Some v => str_eqb v (snd kv) | None => false end) a.

Definition ostr_eqb := opt_eqb str_eqb.
Definition ooid_eqb := opt_eqb Nat.eqb.

(* Python truthiness of an optional string *)
Definition truthy (o : option pystr) : bool := match o with Some (_ :: _) => true | _ => false end.
(* x if x else None *)
Definition or_none (o : option pystr) : option pystr := if truthy o then o else None.
(* f-string interpolation of an attribute that may be None *)
Definition fstr (o : option pystr) : pystr := match o with Some s => s | None => s2l "None" end.

Fixpoint index_of {A} (p : A -> bool) (l : list A) : option nat :=
  match l with
  | [] => None
  | x :: r => if p x then Some 0 else match index_of p r with Some n => Some (S n) | None => None end
  end.
