(* Entry.v — pydbml/parser/parser.py : PyDBMLParser.parse and the PyDBML entry points. *)
From PyDBML Require Import PyStr Py Heap Classes Database Tools PP Actions Build GenClasses GenGrammar.
Import ListNotations.

Definition parse_fuel (s : pystr) : nat := 2 * length s + 400.

(* PyDBMLParser.parse: every blueprint the grammar produced is registered, in order *)
Fixpoint register_all (l : list pyv) (st : pstate) : res pstate :=
  match l with
  | [] => Ok st
  | bp :: r => do st' <- register st bp; register_all r st'
  end.

(* the blueprints of a source text: pyparsing run + parse_blueprint *)
Definition blueprints_of (source : pystr) (allow : bool) : M pstate :=
  let s := expandtabs source in                      (* parse_string calls str.expandtabs() *)
  let top := if allow then gen_top_on else gen_top_off in
  let pall := if allow then gen_parse_all_on else gen_parse_all_off in
  match parse_string gen_env act s (parse_fuel s) top gen_default_whitespace pall with
  | POk _ _ eff => lift (register_all eff ps_empty)
  | PFail => raise EParse
  | PFatal => raise EParseSyntax
  | PRaise e => raise e
  | POutOfFuel => stuck 500
  end.

(* PyDBMLParser(source, allow_properties, renderers).parse() *)
Definition parser_parse (source : pystr) (allow : bool) (sqlr dbmlr : nat) : M oid :=
  do! st <- blueprints_of source allow ;;
  build_database st allow sqlr dbmlr.

(* the documented ways of supplying the source *)
Inductive source :=
| SStr (s : pystr)            (* a str *)
| SPath (p : pystr)           (* a pathlib.Path / a path string for parse_file *)
| SFile (content : pystr)     (* an open text file; content = what .read() returns *)
| SOther.                     (* any other type *)

Section FS.
  Variable fs : pystr -> option pystr.      (* open(p, encoding='utf8').read() *)

  (* PyDBML.parse(text, **options) *)
  Definition pydbml_parse (text : pystr) (allow : bool) (sqlr dbmlr : nat) : M oid :=
    parser_parse (remove_bom text) allow sqlr dbmlr.

  (* PyDBML(source, **options) *)
  Definition pydbml_new (src : source) (allow : bool) (sqlr dbmlr : nat) : M oid :=
    match src with
    | SStr s => pydbml_parse (remove_bom s) allow sqlr dbmlr
    | SPath p => match fs p with
                 | Some s => pydbml_parse (remove_bom s) allow sqlr dbmlr
                 | None => raise (EStuck 501)                 (* OSError: outside the model *)
                 end
    | SFile c => pydbml_parse (remove_bom c) allow sqlr dbmlr
    | SOther => raise ETypeError
    end.

  (* PyDBML.parse_file(file): no options *)
  Definition pydbml_parse_file (src : source) : M oid :=
    match src with
    | SFile c => parser_parse (remove_bom c) false 0 1
    | SPath p | SStr p => match fs p with
                          | Some s => parser_parse (remove_bom s) false 0 1
                          | None => raise (EStuck 501)
                          end
    | SOther => raise ETypeError                              (* open(<other>) *)
    end.
End FS.
