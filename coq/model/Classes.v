(* Classes.v — pydbml/_classes/*.py : structural __eq__, constructors with their defaulting
   rules, and the methods of Table / Column / Reference / Enum. *)
From PyDBML Require Import PyStr Py Heap.
Import ListNotations.

(* ------------------------------------------------------------------ equality *)
(* SQLObject.__eq__ compares __dict__ minus dont_compare_fields; lists and dicts compare
   element-wise with the identity shortcut.  Class nesting is acyclic, so no fuel. *)
Definition note_eqb (h : heap) (a b : oid) : bool :=
  Nat.eqb a b ||
  match h_note h a, h_note h b with
  | Some x, Some y => str_eqb (n_text x) (n_text y)
  | _, _ => false
  end.

Definition expr_eqb (h : heap) (a b : oid) : bool :=
  Nat.eqb a b ||
  match h_expr h a, h_expr h b with
  | Some x, Some y => str_eqb (x_text x) (x_text y)
  | _, _ => false
  end.

Definition enumitem_eqb (h : heap) (a b : oid) : bool :=
  Nat.eqb a b ||
  match h_enumitem h a, h_enumitem h b with
  | Some x, Some y => ostr_eqb (ei_name x) (ei_name y) && note_eqb h (ei_note x) (ei_note y)
                      && ostr_eqb (ei_comment x) (ei_comment y)
  | _, _ => false
  end.

(* Enum has no dont_compare_fields: `database` is compared too (by identity) *)
Definition enum_eqb (h : heap) (a b : oid) : bool :=
  Nat.eqb a b ||
  match h_enum h a, h_enum h b with
  | Some x, Some y => ooid_eqb (e_database x) (e_database y) && ostr_eqb (e_name x) (e_name y)
                      && ostr_eqb (e_schema x) (e_schema y) && ostr_eqb (e_comment x) (e_comment y)
                      && opt_eqb (list_eqb (enumitem_eqb h)) (e_items x) (e_items y)
  | _, _ => false
  end.

Definition coltype_eqb (h : heap) (a b : coltype) : bool :=
  match a, b with
  | CTNone, CTNone => true
  | CTStr s, CTStr t => str_eqb s t
  | CTEnum e, CTEnum f => enum_eqb h e f
  | _, _ => false
  end.

(* Python == between default values: bool is an int; 1 == 1.0 *)
Definition float_of_int_text (z : Z) : pystr := str_of_Z z ++ s2l ".0".
Definition defval_eqb (h : heap) (a b : defval) : bool :=
  let num d := match d with
               | DInt z => Some z
               | DBool true => Some 1%Z
               | DBool false => Some 0%Z
               | _ => None
               end in
  match a, b with
  | DNone, DNone => true
  | DStr s, DStr t => str_eqb s t
  | DExpr x, DExpr y => expr_eqb h x y
  | DFloat s, DFloat t => str_eqb s t
  | DFloat s, (DInt _ | DBool _) => match num b with Some z => str_eqb s (float_of_int_text z) | None => false end
  | (DInt _ | DBool _), DFloat t => match num a with Some z => str_eqb t (float_of_int_text z) | None => false end
  | (DInt _ | DBool _), (DInt _ | DBool _) =>
      match num a, num b with Some x, Some y => Z.eqb x y | _, _ => false end
  | _, _ => false
  end.

Definition table_full_name (t : table) : pystr := fstr (t_schema t) ++ 46%N :: fstr (t_name t).

(* self.table.full_name if self.table else None *)
Definition column_table_name (h : heap) (c : column) : option pystr :=
  match c_table c with
  | Some t => match h_table h t with Some tb => Some (table_full_name tb) | None => None end
  | None => None
  end.

Definition column_eqb (h : heap) (a b : oid) : bool :=
  Nat.eqb a b ||
  match h_column h a, h_column h b with
  | Some x, Some y =>
      ostr_eqb (column_table_name h x) (column_table_name h y)
      && ostr_eqb (c_name x) (c_name y) && coltype_eqb h (c_type x) (c_type y)
      && Bool.eqb (c_unique x) (c_unique y) && Bool.eqb (c_not_null x) (c_not_null y)
      && Bool.eqb (c_pk x) (c_pk y) && Bool.eqb (c_autoinc x) (c_autoinc y)
      && ostr_eqb (c_comment x) (c_comment y) && note_eqb h (c_note x) (c_note y)
      && pdict_eqb (c_properties x) (c_properties y) && defval_eqb h (c_default x) (c_default y)
  | _, _ => false
  end.

Definition subject_eqb (h : heap) (a b : subject) : bool :=
  match a, b with
  | SubStr s, SubStr t => str_eqb s t
  | SubCol c, SubCol d => column_eqb h c d
  | SubExpr x, SubExpr y => expr_eqb h x y
  | _, _ => false
  end.

Definition index_eqb (h : heap) (a b : oid) : bool :=
  Nat.eqb a b ||
  match h_index h a, h_index h b with
  | Some x, Some y =>
      opt_eqb (list_eqb (subject_eqb h)) (i_subjects x) (i_subjects y)
      && ostr_eqb (i_name x) (i_name y) && Bool.eqb (i_unique x) (i_unique y)
      && ostr_eqb (i_type x) (i_type y) && Bool.eqb (i_pk x) (i_pk y)
      && note_eqb h (i_note x) (i_note y) && ostr_eqb (i_comment x) (i_comment y)
  | _, _ => false
  end.

Definition table_eqb (h : heap) (a b : oid) : bool :=
  Nat.eqb a b ||
  match h_table h a, h_table h b with
  | Some x, Some y =>
      ostr_eqb (t_name x) (t_name y) && ostr_eqb (t_schema x) (t_schema y)
      && list_eqb (column_eqb h) (t_columns x) (t_columns y)
      && list_eqb (index_eqb h) (t_indexes x) (t_indexes y)
      && ostr_eqb (t_alias x) (t_alias y) && note_eqb h (t_note x) (t_note y)
      && ostr_eqb (t_header_color x) (t_header_color y) && ostr_eqb (t_comment x) (t_comment y)
      && Bool.eqb (t_abstract x) (t_abstract y) && pdict_eqb (t_properties x) (t_properties y)
  | _, _ => false
  end.

(* Optional[Table] == / != as Python evaluates it (None == None; Table == None is False) *)
Definition otable_eqb (h : heap) (a b : option oid) : bool := opt_eqb (table_eqb h) a b.

Definition ref_eqb (h : heap) (a b : oid) : bool :=
  Nat.eqb a b ||
  match h_reference h a, h_reference h b with
  | Some x, Some y =>
      ostr_eqb (r_type x) (r_type y)
      && opt_eqb (list_eqb (column_eqb h)) (r_col1 x) (r_col1 y)
      && opt_eqb (list_eqb (column_eqb h)) (r_col2 x) (r_col2 y)
      && ostr_eqb (r_name x) (r_name y) && ostr_eqb (r_comment x) (r_comment y)
      && ostr_eqb (r_on_update x) (r_on_update y) && ostr_eqb (r_on_delete x) (r_on_delete y)
  | _, _ => false
  end.

(* obj in list  /  list.index(obj) *)
Definition list_has (eq : oid -> oid -> bool) (x : oid) (l : list oid) : bool := existsb (eq x) l.
Definition list_index (eq : oid -> oid -> bool) (x : oid) (l : list oid) : option nat := index_of (eq x) l.

(* Python list indexing with negative indexes *)
Definition py_index (len : nat) (k : Z) : option nat :=
  if (0 <=? k)%Z then (if (k <? Z.of_nat len)%Z then Some (Z.to_nat k) else None)
  else (if (0 <=? Z.of_nat len + k)%Z then Some (Z.to_nat (Z.of_nat len + k)) else None).

(* ------------------------------------------------------------------ constructors *)
Inductive note_arg := NAnone | NAstr (s : pystr) | NAobj (n : oid).

(* Note(x): str(x) if x is not None else ''  — a Note argument is copied into a new Note *)
Definition new_note_from (a : note_arg) : M oid :=
  match a with
  | NAnone => alloc (ONote (mkNote [] None))
  | NAstr s => alloc (ONote (mkNote s None))
  | NAobj n => do! x <- get_note n ;; alloc (ONote (mkNote (n_text x) None))
  end.

Definition set_note_parent (n : oid) (p : oid) : M unit :=
  do! x <- get_note n ;; store n (ONote (mkNote (n_text x) (Some p))).

Definition new_expr (text : pystr) : M oid := alloc (OExpr (mkExpr text)).

Definition new_column (name : option pystr) (ty : coltype) (unique not_null pk autoinc : bool)
           (default : defval) (nt : note_arg) (comment : option pystr) (props : pdict) : M oid :=
  do! n <- new_note_from nt ;;
  do! c <- alloc (OColumn (mkColumn name ty unique not_null pk autoinc comment n props default None)) ;;
  do!! set_note_parent n c ;;
  ret c.

Definition new_index (subjects : option (list subject)) (name : option pystr) (unique : bool)
           (ty : option pystr) (pk : bool) (nt : note_arg) (comment : option pystr) : M oid :=
  do! n <- new_note_from nt ;;
  do! i <- alloc (OIndex (mkIndex subjects None (or_none name) unique ty pk n comment)) ;;
  do!! set_note_parent n i ;;
  ret i.

Definition new_enumitem (name : option pystr) (nt : note_arg) (comment : option pystr) : M oid :=
  do! n <- new_note_from nt ;;
  do! i <- alloc (OEnumItem (mkEnumItem name n comment)) ;;
  do!! set_note_parent n i ;;
  ret i.

(* Enum.add_item: EnumItem objects are appended, strings are wrapped, anything else ignored *)
Inductive item_arg := IAobj (o : oid) | IAstr (s : pystr).

Definition enum_add_item (e : oid) (a : item_arg) : M unit :=
  match a with
  | IAstr s =>
      do! i <- new_enumitem (Some s) NAnone None ;;
      do! x <- get_enum e ;;
      match e_items x with
      | Some its => store e (OEnum (mkEnum (e_database x) (e_name x) (e_schema x) (e_comment x) (Some (its ++ [i]))))
      | None => raise EAttributeError
      end
  | IAobj o =>
      do! ob <- lookup o ;;
      match ob with
      | OEnumItem _ =>
          do! x <- get_enum e ;;
          match e_items x with
          | Some its => store e (OEnum (mkEnum (e_database x) (e_name x) (e_schema x) (e_comment x) (Some (its ++ [o]))))
          | None => raise EAttributeError
          end
      | _ => ret tt
      end
  end.

Definition new_enum (name : option pystr) (items : list item_arg) (schema : option pystr)
           (comment : option pystr) : M oid :=
  do! e <- alloc (OEnum (mkEnum None name schema comment (Some []))) ;;
  do!! iterM (enum_add_item e) items ;;
  ret e.

Definition new_sticky (name text : pystr) : M oid := alloc (OSticky (mkSticky name text None)).

Definition new_project (name : pystr) (items : pdict) (nt : note_arg) (comment : option pystr) : M oid :=
  do! n <- new_note_from nt ;;
  do! p <- alloc (OProject (mkProject None name items n comment)) ;;
  do!! set_note_parent n p ;;
  ret p.

(* TableGroup stores its note argument as given (no wrapping, no parent) *)
Definition new_group (name : pystr) (items : list oid) (comment : option pystr)
           (nt : option oid) (color : option pystr) : M oid :=
  alloc (OGroup (mkGroup None name items comment nt color)).

Definition new_reference (ty : option pystr) (col1 col2 : option (list oid)) (name comment on_update
           on_delete : option pystr) (inline : bool) : M oid :=
  alloc (OReference (mkReference None ty col1 col2 (or_none name) comment on_update on_delete inline)).

Definition new_database (sqlr dbmlr : nat) (allow : bool) : M oid :=
  alloc (ODatabase (mkDatabase [] [] [] [] [] [] None allow sqlr dbmlr)).

(* ------------------------------------------------------------------ Table methods *)
Definition upd_table (t : oid) (f : table -> table) : M unit :=
  do! x <- get_table t ;; store t (OTable (f x)).
Definition upd_column (c : oid) (f : column -> column) : M unit :=
  do! x <- get_column c ;; store c (OColumn (f x)).
Definition upd_index (i : oid) (f : index -> index) : M unit :=
  do! x <- get_index i ;; store i (OIndex (f x)).

Definition set_columns (l : list oid) (x : table) : table :=
  mkTable (t_database x) (t_name x) (t_schema x) l (t_indexes x) (t_alias x) (t_note x)
          (t_header_color x) (t_comment x) (t_abstract x) (t_properties x).
Definition set_indexes (l : list oid) (x : table) : table :=
  mkTable (t_database x) (t_name x) (t_schema x) (t_columns x) l (t_alias x) (t_note x)
          (t_header_color x) (t_comment x) (t_abstract x) (t_properties x).
Definition set_t_database (d : option oid) (x : table) : table :=
  mkTable d (t_name x) (t_schema x) (t_columns x) (t_indexes x) (t_alias x) (t_note x)
          (t_header_color x) (t_comment x) (t_abstract x) (t_properties x).
Definition set_c_table (t : option oid) (x : column) : column :=
  mkColumn (c_name x) (c_type x) (c_unique x) (c_not_null x) (c_pk x) (c_autoinc x) (c_comment x)
           (c_note x) (c_properties x) (c_default x) t.
Definition set_i_table (t : option oid) (x : index) : index :=
  mkIndex (i_subjects x) t (i_name x) (i_unique x) (i_type x) (i_pk x) (i_note x) (i_comment x).

Definition table_add_column (t c : oid) : M unit :=
  do! o <- lookup c ;;
  match o with
  | OColumn _ =>
      do!! upd_column c (set_c_table (Some t)) ;;
      upd_table t (fun x => set_columns (t_columns x ++ [c]) x)
  | _ => raise ETypeError
  end.

Inductive del_arg := DAobj (o : oid) | DAint (k : Z).

Definition table_delete_column (t : oid) (a : del_arg) : M (option oid) :=
  match a with
  | DAobj c =>
      do! o <- lookup c ;;
      match o with
      | OColumn _ =>
          do! x <- get_table t ;; do! h <- get_heap ;;
          if list_has (column_eqb h) c (t_columns x) then
            do!! upd_column c (set_c_table None) ;;
            do! h' <- get_heap ;;
            match list_index (column_eqb h') c (t_columns x) with
            | Some n => do!! upd_table t (set_columns (remove_nth n (t_columns x))) ;;
                        ret (nth_error (t_columns x) n)
            | None => raise EValueError        (* list.index after detaching the argument: D23 *)
            end
          else raise EColumnNotFound
      | _ => ret None
      end
  | DAint k =>
      do! x <- get_table t ;;
      match py_index (length (t_columns x)) k with
      | Some n =>
          match nth_error (t_columns x) n with
          | Some c => do!! upd_column c (set_c_table None) ;;
                      do!! upd_table t (set_columns (remove_nth n (t_columns x))) ;;
                      ret (Some c)
          | None => raise EIndexError
          end
      | None => raise EIndexError
      end
  end.

Definition table_add_index (t i : oid) : M unit :=
  do! o <- lookup i ;;
  match o with
  | OIndex ix =>
      match i_subjects ix with
      | None => raise ETypeError
      | Some subs =>
          do! h <- get_heap ;;
          if forallb (fun s => match s with
                               | SubCol c => match h_column h c with
                                             | Some cc => ooid_eqb (c_table cc) (Some t)
                                             | None => false
                                             end
                               | _ => true
                               end) subs
          then do!! upd_index i (set_i_table (Some t)) ;;
               upd_table t (fun x => set_indexes (t_indexes x ++ [i]) x)
          else raise EColumnNotFound
      end
  | _ => raise ETypeError
  end.

Definition table_delete_index (t : oid) (a : del_arg) : M (option oid) :=
  match a with
  | DAobj i =>
      do! o <- lookup i ;;
      match o with
      | OIndex _ =>
          do! x <- get_table t ;; do! h <- get_heap ;;
          if list_has (index_eqb h) i (t_indexes x) then
            do!! upd_index i (set_i_table None) ;;
            do! h' <- get_heap ;;
            match list_index (index_eqb h') i (t_indexes x) with
            | Some n => do!! upd_table t (set_indexes (remove_nth n (t_indexes x))) ;;
                        ret (nth_error (t_indexes x) n)
            | None => raise EValueError
            end
          else raise EIndexNotFound
      | _ => ret None
      end
  | DAint k =>
      do! x <- get_table t ;;
      match py_index (length (t_indexes x)) k with
      | Some n =>
          match nth_error (t_indexes x) n with
          | Some i => do!! upd_index i (set_i_table None) ;;
                      do!! upd_table t (set_indexes (remove_nth n (t_indexes x))) ;;
                      ret (Some i)
          | None => raise EIndexError
          end
      | None => raise EIndexError
      end
  end.

Definition new_table (name schema alias : option pystr) (cols idxs : list oid) (nt : note_arg)
           (header_color comment : option pystr) (abstract : bool) (props : pdict) : M oid :=
  do! n <- new_note_from nt ;;
  do! t <- alloc (OTable (mkTable None name schema [] [] (or_none alias) n header_color comment abstract props)) ;;
  do!! iterM (table_add_column t) cols ;;
  do!! iterM (table_add_index t) idxs ;;
  do!! set_note_parent n t ;;
  ret t.

(* ------------------------------------------------------------------ Reference methods *)
Definition MANY_TO_MANY : pystr := s2l "<>".
Definition MANY_TO_ONE : pystr := s2l ">".
Definition ONE_TO_MANY : pystr := s2l "<".
Definition ONE_TO_ONE : pystr := s2l "-".

Definition ref_inline (r : reference) : bool :=
  r_inline r && negb (ostr_eqb (r_type r) (Some MANY_TO_MANY)).

Definition col_table (h : heap) (c : oid) : res (option oid) :=
  match h_column h c with Some cc => Ok (c_table cc) | None => Raise (EStuck 20) end.

(* Reference._validate *)
Definition ref_validate (h : heap) (r : reference) : res unit :=
  let side (cols : option (list oid)) : res unit :=
    match cols with
    | None => Raise ETypeError
    | Some [] => Raise EIndexError
    | Some (c0 :: rest) =>
        do t0 <- col_table h c0;
        do ts <- mapM (col_table h) (c0 :: rest);
        if existsb (fun t => negb (otable_eqb h t t0)) ts then Raise EDBML else Ok tt
    end in
  do _ <- side (r_col1 r); side (r_col2 r).

Definition ref_table1 (h : heap) (r : reference) : res (option oid) :=
  do _ <- ref_validate h r;
  match r_col1 r with
  | Some (c :: _) => col_table h c
  | _ => Ok None
  end.

Definition ref_table2 (h : heap) (r : reference) : res (option oid) :=
  do _ <- ref_validate h r;
  match r_col2 r with
  | Some (c :: _) => col_table h c
  | _ => Ok None
  end.

(* Reference.join_table: a fresh abstract Table (allocated on every access) *)
Definition ref_join_table (rid : oid) : M (option oid) :=
  do! r <- get_reference rid ;;
  if negb (ostr_eqb (r_type r) (Some MANY_TO_MANY)) then ret None else
  do! h <- get_heap ;;
  do! t1 <- lift (ref_table1 h r) ;;
  match t1 with
  | None => raise ETableNotFound
  | Some t1id =>
    do! t2 <- lift (ref_table2 h r) ;;
    match t2 with
    | None => raise ETableNotFound
    | Some t2id =>
      do! tt1 <- get_table t1id ;; do! tt2 <- get_table t2id ;;
      let mk (c : oid) : M oid :=
        do! cc <- get_column c ;;
        match c_table cc with
        | Some tc => do! tcc <- get_table tc ;;
                     new_column (Some (fstr (t_name tcc) ++ 95%N :: fstr (c_name cc))) (c_type cc)
                                false true true false DNone NAnone None []
        | None => raise EAttributeError
        end in
      (* the generator expression is consumed inside Table.__init__, after the note-less
         part of the constructor; allocation order is not observable *)
      do! cols <- mapMM mk (match r_col1 r, r_col2 r with Some a, Some b => a ++ b | _, _ => [] end) ;;
      do! t <- new_table (Some (fstr (t_name tt1) ++ 95%N :: fstr (t_name tt2))) (t_schema tt1) None
                     cols [] NAnone None None true [] ;;
      ret (Some t)
    end
  end.

(* Table.get_refs *)
Definition table_get_refs (t : oid) : M (list oid) :=
  do! x <- get_table t ;;
  match t_database x with
  | None => raise EUnknownDatabase
  | Some d =>
      do! db <- get_database d ;; do! h <- get_heap ;;
      let fix go (l : list oid) : res (list oid) :=
        match l with
        | [] => Ok []
        | rid :: rest =>
            match h_reference h rid with
            | None => Raise (EStuck 21)
            | Some r =>
                do t1 <- ref_table1 h r;
                do tl <- go rest;
                Ok (if otable_eqb h t1 (Some t) then rid :: tl else tl)
            end
        end in
      lift (go (d_refs db))
  end.

(* Column.get_refs *)
Definition column_get_refs (c : oid) : M (list oid) :=
  do! x <- get_column c ;;
  match c_table x with
  | None => raise ETableNotFound
  | Some t =>
      do! rs <- table_get_refs t ;; do! h <- get_heap ;;
      ret (filter (fun rid => match h_reference h rid with
                              | Some r => match r_col1 r with
                                          | Some cs => list_has (column_eqb h) c cs
                                          | None => false
                                          end
                              | None => false
                              end) rs)
  end.

(* Table.__getitem__ / get *)
Inductive key_arg := KInt (k : Z) | KStr (s : pystr).

Definition table_getitem (t : oid) (k : key_arg) : M oid :=
  do! x <- get_table t ;;
  match k with
  | KInt z => match py_index (length (t_columns x)) z with
              | Some n => match nth_error (t_columns x) n with Some c => ret c | None => raise EIndexError end
              | None => raise EIndexError
              end
  | KStr s =>
      do! h <- get_heap ;;
      match find (fun c => match h_column h c with
                           | Some cc => ostr_eqb (c_name cc) (Some s)
                           | None => false
                           end) (t_columns x) with
      | Some c => ret c
      | None => raise EColumnNotFound
      end
  end.

Definition table_get (t : oid) (k : key_arg) : M (option oid) :=
  fun h => match table_getitem t k h with
           | (h', Ok c) => (h', Ok (Some c))
           | (h', Raise EIndexError) | (h', Raise EColumnNotFound) => (h', Ok None)
           | (h', Raise e) => (h', Raise e)
           end.

(* Table._has_composite_pk *)
Definition has_composite_pk (h : heap) (t : table) : bool :=
  Nat.ltb 1 (length (filter (fun c => match h_column h c with Some cc => c_pk cc | None => false end)
                            (t_columns t))).
