(* Tools.v — pydbml/tools.py, renderer/dbml/default/utils.py, renderer/sql/default/note.py
   (text part) and the comment helpers of renderer/sql/default/utils.py. *)
From Coq Require Import List NArith Bool.
From PyDBML Require Import PyStr Py.
Import ListNotations.

(* tools.comment: '\n'.join(f'{comb} {cl}' for cl in val.split('\n')) + '\n' *)
Definition comment (val comb : pystr) : pystr :=
  join [cLF] (map (fun cl => comb ++ cSP :: cl) (split_on cLF val)) ++ [cLF].

(* tools.indent *)
Definition indent (val : pystr) (spaces : nat) : pystr :=
  match val with
  | [] => []
  | _ => repeat cSP spaces ++ replace_c cLF (cLF :: repeat cSP spaces) val
  end.

(* tools.remove_bom *)
Definition remove_bom (s : pystr) : pystr :=
  match s with
  | c :: r => if N.eqb c cBOM then r else s
  | [] => []
  end.

(* ---- tools.strip_empty_lines: one re.sub of the pattern in GenRegex.pattern_strip_empty_lines
   by its content group.  Closed form derived in DESIGN 3.1, checked exhaustively by stream text. ---- *)
Definition is_blank (c : ch) : bool := N.eqb c cSP || N.eqb c cTAB.

(* s is in the language of the trailing group: empty, or starts with LF and holds only LF, blank, TAB *)
Definition in_tail (s : pystr) : bool :=
  match s with
  | [] => true
  | c :: _ => N.eqb c cLF && forallb (fun x => N.eqb x cLF || is_blank x) s
  end.

(* shortest non-empty prefix whose remainder is in_tail *)
Fixpoint lazy_content (s : pystr) : pystr :=
  match s with
  | [] => []
  | c :: r => c :: (if in_tail r then [] else lazy_content r)
  end.

(* if s starts with a blank line , return what follows it *)
Fixpoint after_blank_line (s : pystr) : option pystr :=
  match s with
  | [] => None
  | c :: r => if N.eqb c cLF then Some r
              else if is_blank c then after_blank_line r
              else None
  end.

(* position after the maximal run of leading blank lines; if that run is the whole
   string, the start of its last line (the regex engine gives one iteration back) *)
Fixpoint skip_blank_lines (fuel : nat) (s : pystr) : pystr :=
  match fuel with
  | O => s
  | S f =>
      match after_blank_line s with
      | Some r => match r with
                  | [] => s
                  | _ => match after_blank_line r with
                         | Some _ => skip_blank_lines f r
                         | None => r
                         end
                  end
      | None => s
      end
  end.

Definition strip_empty_lines (s : pystr) : pystr :=
  match s with
  | [] => []
  | _ => lazy_content (skip_blank_lines (length s) s)
  end.

(* tools.doublequote_string *)
Definition doublequote_string (s : pystr) : res pystr :=
  if mem cLF s then Raise EValueError
  else Ok (cDQ :: replace_c cDQ [cBSL; cDQ] (strip_chars [cDQ] s) ++ [cDQ]).

(* tools.remove_indentation *)
Fixpoint leading_space_len (s : pystr) : nat :=
  match s with
  | [] => 0
  | c :: r => if py_isspace c then S (leading_space_len r) else 0
  end.

Definition remove_indentation (s : pystr) : res pystr :=
  match s with
  | [] => Ok []
  | _ =>
      let lines := split_on cLF s in
      let spaces := map leading_space_len
                        (filter (fun l => negb (is_nil l) && negb (str_isspace l)) lines) in
      match list_min spaces with
      | None => Ok s                        (* no non-blank line: indentation 0 (after the fix of D3) *)
      | Some n => Ok (join [cLF] (map (drop n) lines))
      end
  end.

(* NoteBlueprint._preformat_text / StickyNoteBlueprint._preformat_text *)
Definition preformat (s : pystr) : res pystr := remove_indentation (strip_empty_lines s).

(* dbml utils.prepare_text_for_dbml : every triple quote or single quote gets a backslash in front *)
Fixpoint prepare_text_for_dbml (s : pystr) : pystr :=
  match s with
  | [] => []
  | c :: r =>
      if N.eqb c cSQ then
        match r with
        | c2 :: c3 :: r3 =>
            if N.eqb c2 cSQ && N.eqb c3 cSQ
            then cBSL :: cSQ :: cSQ :: cSQ :: prepare_text_for_dbml r3
            else cBSL :: cSQ :: prepare_text_for_dbml r
        | _ => cBSL :: cSQ :: prepare_text_for_dbml r
        end
      else c :: prepare_text_for_dbml r
  end.

Definition sq3 : pystr := [cSQ; cSQ; cSQ].

(* dbml utils.quote_string *)
Definition quote_string (t : pystr) : pystr :=
  if mem cLF t then sq3 ++ cLF :: prepare_text_for_dbml t ++ sq3
  else cSQ :: prepare_text_for_dbml t ++ [cSQ].

(* dbml utils.note_option_to_dbml (on the note's text) *)
Definition note_option_to_dbml (t : pystr) : pystr :=
  if mem cLF t then s2l "note: " ++ sq3 ++ prepare_text_for_dbml t ++ sq3
  else s2l "note: " ++ cSQ :: prepare_text_for_dbml t ++ [cSQ].

Definition comment_to_dbml (v : pystr) : pystr := comment v (s2l "//").
Definition comment_to_sql (v : pystr) : pystr := comment v (s2l "--").

(* sql note.prepare_text_for_sql : delete backslash-newline pairs, then replace single by double quotes *)
Fixpoint remove_bsl_lf (s : pystr) : pystr :=
  match s with
  | [] => []
  | c :: r =>
      match r with
      | c2 :: r2 => if N.eqb c cBSL && N.eqb c2 cLF then remove_bsl_lf r2 else c :: remove_bsl_lf r
      | [] => [c]
      end
  end.
Definition prepare_text_for_sql (t : pystr) : pystr := replace_c cSQ [cDQ] (remove_bsl_lf t).
