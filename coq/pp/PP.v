(* PP.v — executable semantics of the part of pyparsing 3.3.2 that PyDBML uses (and that plausible
   edits of its grammar would use): elements, ParseResults, the _parseNoCache driver.
   Transliterated from pyparsing/core.py and results.py; validated on every run by the streams
   pp-elem and parse.  Fuel bounds the recursion depth; OutOfFuel is a distinct outcome. *)
From PyDBML Require Import PyStr Py.
Import ListNotations.

(* ------------------------------------------------------------------ python values made by actions *)
Inductive pyv :=
| PVStr (s : pystr) | PVBool (b : bool) | PVInt (z : Z) | PVFloat (s : pystr) | PVNone
| PVDict (d : list (pystr * pyv)) | PVList (l : list pyv)
| PVBlue (kind : N) (fields : list (pystr * pyv)).      (* a Blueprint dataclass instance *)

(* ------------------------------------------------------------------ ParseResults *)
Inductive pr := PR (toks : list ptok) (named : list (pystr * list (ptok * Z))) (alln : list pystr)
with ptok := PTStr (s : pystr) | PTRes (r : pr) | PTVal (v : pyv).

Definition pr_toks (r : pr) := match r with PR t _ _ => t end.
Definition pr_named (r : pr) := match r with PR _ n _ => n end.
Definition pr_alln (r : pr) := match r with PR _ _ a => a end.
Definition pr_empty : pr := PR [] [] [].

Definition str_mem (k : pystr) (l : list pystr) : bool := existsb (str_eqb k) l.
Definition str_union (a b : list pystr) : list pystr :=
  a ++ filter (fun k => negb (str_mem k a)) b.

Fixpoint named_get (k : pystr) (n : list (pystr * list (ptok * Z))) : option (list (ptok * Z)) :=
  match n with
  | [] => None
  | (k', v) :: r => if str_eqb k k' then Some v else named_get k r
  end.
(* self._tokdict[k] = self._tokdict.get(k, []) + [v] ; new keys go last *)
Fixpoint named_add (k : pystr) (v : ptok * Z) (n : list (pystr * list (ptok * Z))) :=
  match n with
  | [] => [(k, [v])]
  | (k', vs) :: r => if str_eqb k k' then (k', vs ++ [v]) :: r else (k', vs) :: named_add k v r
  end.

(* bool(results) *)
Definition pr_truthy (r : pr) : bool := negb (is_nil (pr_toks r)) || negb (is_nil (pr_named r)).

(* r += o *)
Definition pr_iadd (r o : pr) : pr :=
  if negb (pr_truthy o) then r else
  let off := Z.of_nat (length (pr_toks r)) in
  let addoff (a : Z) := if (a <? 0)%Z then off else (a + off)%Z in
  let named' :=
    fold_left (fun acc kv => fold_left (fun acc2 v => named_add (fst kv) (fst v, addoff (snd v)) acc2) (snd kv) acc)
              (pr_named o) (pr_named r) in
  PR (pr_toks r ++ pr_toks o) named' (str_union (pr_alln r) (pr_alln o)).

(* what parseImpl / postParse / an action hands to ParseResults(...) *)
Inductive raw :=
| RStr (s : pystr)            (* a str *)
| REmptyList                  (* the list [] *)
| RRes (r : pr)               (* a ParseResults (kept as the same object) *)
| RListOfRes (r : pr)         (* [results] : Group / named Combine *)
| RVal (v : pyv).             (* any other python object (action result) *)

(* ParseResults(tokens, name, aslist, modal) *)
Definition wrap (x : raw) (name : option pystr) (aslist modal : bool) : pr :=
  let base := match x with
              | RStr s => PR [PTStr s] [] []
              | REmptyList => pr_empty
              | RRes r => r
              | RListOfRes r => PR [PTRes r] [] []
              | RVal (PVList l) => PR (map (fun v => match v with PVStr s => PTStr s | _ => PTVal v end) l) [] []
              | RVal (PVStr s) => PR [PTStr s] [] []
              | RVal v => PR [PTVal v] [] []
              end in
  match name with
  | None => base
  | Some nm =>
      match nm with
      | [] => base
      | _ =>
        let alln := if modal then pr_alln base else [nm] in
        let with_entry (e : ptok) := PR (pr_toks base) (named_add nm (e, 0%Z) (pr_named base)) alln in
        let no_entry := PR (pr_toks base) (pr_named base) alln in
        match x with
        | REmptyList => no_entry
        | RStr s => if aslist then with_entry (PTRes (PR [PTStr s] [] [])) else with_entry (PTStr s)
        | RRes r =>
            if aslist then with_entry (PTRes (PR (pr_toks r) [] []))
            else match pr_toks r with
                 | t :: _ => with_entry t
                 | [] => no_entry
                 end
        | RListOfRes r => if aslist then with_entry (PTRes r) else with_entry (PTRes r)
        | RVal (PVStr s) => with_entry (PTStr s)
        | RVal (PVList l) =>
            match l with
            | [] => no_entry
            | v0 :: _ =>
                let t0 := match v0 with PVStr s => PTStr s | _ => PTVal v0 end in
                if aslist then with_entry (PTRes (PR [t0] [] [])) else with_entry t0
            end
        | RVal v => with_entry (PTVal v)
        end
      end
  end.

(* results[k] for a string key *)
Definition pr_getitem (r : pr) (k : pystr) : option ptok :=
  match named_get k (pr_named r) with
  | None => None
  | Some vs =>
      if str_mem k (pr_alln r) then Some (PTRes (PR (map fst vs) [] []))
      else match rev vs with
           | (v, _) :: _ => Some v
           | [] => None
           end
  end.
Definition pr_contains (r : pr) (k : pystr) : bool :=
  match named_get k (pr_named r) with Some _ => true | None => false end.

(* _asStringList / "".join for Combine; fuel-free nested recursion over token lists *)
Fixpoint tok_strings (t : ptok) : option (list pystr) :=
  match t with
  | PTStr s => Some [s]
  | PTRes (PR toks _ _) =>
      (fix go (l : list ptok) : option (list pystr) :=
         match l with
         | [] => Some []
         | x :: r => match tok_strings x, go r with
                     | Some a, Some b => Some (a ++ b)
                     | _, _ => None
                     end
         end) toks
  | PTVal _ => None
  end.

Definition as_string_list (r : pr) (sep : pystr) : option pystr :=
  let fix go (l : list ptok) (first : bool) : option pystr :=
    match l with
    | [] => Some []
    | x :: rest =>
        match tok_strings x, go rest false with
        | Some a, Some b => Some ((if first || is_nil sep then [] else sep) ++ concat a ++ b)
        | _, _ => None
        end
    end in
  go (pr_toks r) true.

(* ------------------------------------------------------------------ elements *)
Record pattrs := mkAttrs {
  a_skip_ws : bool; a_ws : list ch; a_call_preparse : bool; a_save_as_list : bool;
  a_modal : bool; a_rname : option pystr; a_actions : list N }.

Inductive pcore :=
| PLit (s : pystr)
| PCaseless (upper_match ret : pystr)
| PWord (init body : list ch) (mn mx : nat) (max_spec as_kw regex_mode : bool)
| PQuoted (q endq : pystr) (esc : option ch) (multiline unquote convws : bool)
| PCharsNotIn (cs : list ch) (mn mx : nat)
| PWhite (cs : list ch) (mn mx : nat)
| PAltLits (alts : list pystr)
| PLineEnd | PStringEnd | PWordStart (cs : list ch) | PWordEnd (cs : list ch) | PEmpty | PNoMatch
| PAnd (es : list pitem)
| PMatchFirst (es : list pexpr) | POr (es : list pexpr)
| PZeroOrMore (e : pexpr) | POneOrMore (e : pexpr) | POpt (e : pexpr)
| PSkipTo (e : pexpr) (incl : bool)
| PCombine (e : pexpr) (joinstr : pystr) | PSuppress (e : pexpr) | PGroup (e : pexpr)
| PForward (id : N)
| POrigText (e : pexpr)
| PNotAny (e : pexpr) | PFollowedBy (e : pexpr)
with pitem := IElem (e : pexpr) | IErrorStop
with pexpr := PE (core : pcore) (attrs : pattrs).

Definition e_core (e : pexpr) := match e with PE c _ => c end.
Definition e_attrs (e : pexpr) := match e with PE _ a => a end.

(* ------------------------------------------------------------------ input positions *)
Record pos := mkPos { p_loc : nat; p_rest : pystr; p_prev : option ch; p_past : bool }.

Definition pos_start (s : pystr) : pos := mkPos 0 s None false.

Fixpoint advance (n : nat) (p : pos) : pos :=
  match n with
  | O => p
  | S k => match p_rest p with
           | c :: r => advance k (mkPos (S (p_loc p)) r (Some c) false)
           | [] => p
           end
  end.

(* loc + 1 at end of text (LineEnd / StringEnd) *)
Definition step_past (p : pos) : pos := mkPos (S (p_loc p)) [] (p_prev p) true.

Fixpoint skip_ws (ws : list ch) (fuel : nat) (p : pos) : pos :=
  match fuel with
  | O => p
  | S f => match p_rest p with
           | c :: r => if mem c ws then skip_ws ws f (mkPos (S (p_loc p)) r (Some c) false) else p
           | [] => p
           end
  end.
Definition preparse (a : pattrs) (p : pos) : pos :=
  if a_skip_ws a then skip_ws (a_ws a) (length (p_rest p)) p else p.

(* ------------------------------------------------------------------ outcomes *)
Inductive outcome :=
| POk (p : pos) (r : pr) (eff : list pyv)
| PFail
| PFatal                      (* ParseSyntaxException *)
| PRaise (e : exc)            (* a non-pyparsing exception from a parse action *)
| POutOfFuel.

(* parseImpl-level outcome: raw tokens *)
Inductive ioutcome :=
| IOk (p : pos) (x : raw) (eff : list pyv)
| IFail | IFatal | IRaise (e : exc) | IOutOfFuel.

(* parse actions, interpreted by Actions.v *)
Inductive action_result := ARNone | ARVal (v : pyv) | AREffect (v : pyv) | ARRaise (e : exc) | ARParseFail.

Section Run.
  Variable env : N -> option pexpr.                              (* Forward definitions *)
  Variable act : N -> pystr -> nat -> pr -> action_result.      (* action id, source, loc, tokens *)
  Variable src : pystr.

  (* ---- terminals ---- *)
  Fixpoint match_prefix (lit s : pystr) : option pystr :=
    match lit, s with
    | [], _ => Some s
    | a :: l', b :: s' => if N.eqb a b then match_prefix l' s' else None
    | _, [] => None
    end.

  Fixpoint take_while (f : ch -> bool) (mx : nat) (s : pystr) : pystr * pystr :=
    match mx with
    | O => ([], s)
    | S m => match s with
             | c :: r => if f c then let '(a, b) := take_while f m r in (c :: a, b) else ([], s)
             | [] => ([], [])
             end
    end.

  (* QuotedString: body scanner (A.5 of DESIGN; the compiled pattern is deterministic) *)
  Fixpoint quoted_body (fuel : nat) (endq : pystr) (esc : option ch) (multiline : bool) (s : pystr)
    : option (pystr * pystr) :=          (* (raw body, rest after end quote) *)
    match fuel with
    | O => None
    | S f =>
      match s with
      | [] => None
      | c :: r =>
          let is_esc := match esc with Some e => N.eqb c e | None => false end in
          if is_esc then
            match r with
            | c2 :: r2 =>
                (* escChar + any char; '.' does not match \n unless DOTALL (multiline) *)
                if N.eqb c2 cLF && negb multiline then None
                else match quoted_body f endq esc multiline r2 with
                     | Some (b, rest) => Some (c :: c2 :: b, rest)
                     | None => None
                     end
            | [] => None
            end
          else
            match endq with
            | [] => None
            | e0 :: _ =>
                if N.eqb c e0 then
                  (* either the end quote, or (multi-char end quote) a proper prefix not followed by the rest *)
                  match match_prefix endq s with
                  | Some rest => Some ([], rest)
                  | None =>
                      (* longest proper prefix alternative first: for ''' these are '' then ' *)
                      let fix try_prefix (k : nat) : option (pystr * pystr) :=
                        match k with
                        | O => None
                        | S k' =>
                            let pre := firstn k endq in
                            let post := skipn k endq in
                            match match_prefix pre s with
                            | Some after =>
                                match match_prefix post after with
                                | Some _ => try_prefix k'
                                | None =>
                                    match quoted_body f endq esc multiline after with
                                    | Some (b, rest) => Some (pre ++ b, rest)
                                    | None => try_prefix k'
                                    end
                                end
                            | None => try_prefix k'
                            end
                        end in
                      try_prefix (length endq - 1)
                  end
                else if (N.eqb c cLF || N.eqb c cCR) && negb multiline then None
                else match quoted_body f endq esc multiline r with
                     | Some (b, rest) => Some (c :: b, rest)
                     | None => None
                     end
            end
      end
    end.

  (* unquoting: ws escapes, numeric escapes (with the f-string slip), escChar + c, any char *)
  Fixpoint unquote (fuel : nat) (esc : option ch) (convws : bool) (s : pystr) : pystr :=
    match fuel with
    | O => s
    | S f =>
      match s with
      | [] => []
      | c :: r =>
          if N.eqb c cBSL && convws then
            match r with
            | c2 :: r2 =>
                if N.eqb c2 116 then cTAB :: unquote f esc convws r2
                else if N.eqb c2 110 then cLF :: unquote f esc convws r2
                else if N.eqb c2 102 then 12%N :: unquote f esc convws r2
                else if N.eqb c2 114 then cCR :: unquote f esc convws r2
                else
                  (* \\[0-7]3 | \\0 | \\x[0-9a-fA-F]2 | \\u[0-9a-fA-F]4  (literal 3, 2, 4) *)
                  let numeric : option (pystr * pystr) :=
                    match r2 with
                    | c3 :: r3 =>
                        if is_octdigit c2 && N.eqb c3 51 then Some ([c2; c3], r3)
                        else if N.eqb c2 48 then Some ([c2], r2)
                        else if N.eqb c2 120 && is_hexdigit c3 then
                          match r3 with c4 :: r4 => if N.eqb c4 50 then Some ([c2; c3; c4], r4) else None | [] => None end
                        else if N.eqb c2 117 && is_hexdigit c3 then
                          match r3 with c4 :: r4 => if N.eqb c4 52 then Some ([c2; c3; c4], r4) else None | [] => None end
                        else None
                    | [] => if N.eqb c2 48 then Some ([c2], r2) else None
                    end in
                  match numeric with
                  | Some (g, rest) =>
                      (* _convert_escaped_numerics_to_char(g) *)
                      let conv : pystr :=
                        match g with
                        | [a] => [0%N]
                        | [a; b] => g
                        | [a; b; d] =>
                            let hv (x : ch) : N := if is_digit x then (x - 48)%N else if (x <? 97)%N then (x - 55)%N else (x - 87)%N in
                            [(hv b * 16 + hv d)%N]
                        | _ => cBSL :: g
                        end in
                      conv ++ unquote f esc convws rest
                  | None =>
                      match esc with
                      | Some e => if N.eqb e cBSL then c2 :: unquote f esc convws r2 else c :: unquote f esc convws r
                      | None => c :: unquote f esc convws r
                      end
                  end
            | [] => [c]
            end
          else
            match esc with
            | Some e =>
                if N.eqb c e then
                  match r with
                  | c2 :: r2 => c2 :: unquote f esc convws r2
                  | [] => [c]
                  end
                else c :: unquote f esc convws r
            | None => c :: unquote f esc convws r
            end
      end
    end.

  (* QuotedString.parseImpl on the text at the current position: (token text, rest after the end quote) *)
  Definition quoted_scan (q endq : pystr) (esc : option ch) (multiline unq convws : bool) (rest : pystr)
    : option (pystr * pystr) :=
    match match_prefix q rest with
    | Some after_q =>
        match quoted_body (S (length after_q)) endq esc multiline after_q with
        | Some (body, after) =>
            Some (if unq then unquote (S (length body)) esc convws body else q ++ body ++ endq, after)
        | None => None
        end
    | None => None
    end.

  Definition run_terminal (c : pcore) (p : pos) : ioutcome :=
    let rest := p_rest p in
    let ok (n : nat) (x : raw) := IOk (advance n p) x [] in
    match c with
    | PLit s =>
        match match_prefix s rest with
        | Some _ => match s with [] => IFail | _ => ok (length s) (RStr s) end
        | None => IFail
        end
    | PCaseless um ret =>
        let n := length um in
        if str_eqb (upper (firstn n rest)) um then ok n (RStr ret) else IFail
    | PWord init body mn mx max_spec as_kw regex_mode =>
        match rest with
        | c0 :: r =>
            if mem c0 init then
              let lim := match mx with O => length r | S m => m end in
              let '(b, after) := take_while (fun x => mem x body) lim r in
              let n := S (length b) in
              if Nat.ltb n mn then IFail
              else if negb regex_mode && max_spec && (match after with x :: _ => mem x body | [] => false end) then IFail
              else if as_kw && ((match p_prev p with Some x => mem x body | None => false end)
                                || (match after with x :: _ => mem x body | [] => false end)) then IFail
              else ok n (RStr (c0 :: b))
            else IFail
        | [] => IFail
        end
    | PQuoted q endq esc multiline unq convws =>
        match quoted_scan q endq esc multiline unq convws rest with
        | Some (text, after) => ok (length rest - length after) (RStr text)
        | None => IFail
        end
    | PCharsNotIn cs mn mx =>
        match rest with
        | c0 :: r =>
            if mem c0 cs then IFail else
            let lim := match mx with O => length r | S m => m end in
            let '(b, _) := take_while (fun x => negb (mem x cs)) lim r in
            let n := S (length b) in
            if Nat.ltb n mn then IFail else ok n (RStr (c0 :: b))
        | [] => IFail
        end
    | PWhite cs mn mx =>
        match rest with
        | c0 :: r =>
            if negb (mem c0 cs) then IFail else
            let lim := match mx with O => length r | S m => m end in
            let '(b, _) := take_while (fun x => mem x cs) lim r in
            let n := S (length b) in
            if Nat.ltb n mn then IFail else ok n (RStr (c0 :: b))
        | [] => IFail
        end
    | PAltLits alts =>
        let fix go (l : list pystr) :=
          match l with
          | [] => IFail
          | a :: r => match match_prefix a rest with
                      | Some _ => ok (length a) (RStr a)
                      | None => go r
                      end
          end in
        if p_past p then IFail else go alts
    | PLineEnd =>
        if p_past p then IFail else
        match rest with
        | c0 :: _ => if N.eqb c0 cLF then ok 1 (RStr [cLF]) else IFail
        | [] => IOk (step_past p) REmptyList []
        end
    | PStringEnd =>
        if p_past p then IOk p REmptyList [] else
        match rest with
        | _ :: _ => IFail
        | [] => IOk (step_past p) REmptyList []
        end
    | PWordStart cs =>
        if Nat.eqb (p_loc p) 0 then IOk p REmptyList [] else
        let prev_in := match p_prev p with Some x => mem x cs | None => false end in
        match rest with
        | c0 :: _ => if prev_in || negb (mem c0 cs) then IFail else IOk p REmptyList []
        | [] => if prev_in then IFail else IFail      (* instring[loc] raises IndexError -> failure *)
        end
    | PWordEnd cs =>
        match rest with
        | c0 :: _ =>
            let prev_in := match p_prev p with Some x => mem x cs | None => false end in
            (* instring[loc - 1] with loc = 0 is the last character of the text (python index -1) *)
            let prev_in := if Nat.eqb (p_loc p) 0 then (match rev rest with x :: _ => mem x cs | [] => false end) else prev_in in
            if mem c0 cs || negb prev_in then IFail else IOk p REmptyList []
        | [] => IOk p REmptyList []
        end
    | PEmpty => IOk p REmptyList []
    | PNoMatch => IFail
    | _ => IFail
    end.

  (* ---- the driver and the combinators ---- *)
  Definition outcome_of (i : ioutcome) (k : pos -> raw -> list pyv -> outcome) : outcome :=
    match i with
    | IOk p x eff => k p x eff
    | IFail => PFail | IFatal => PFatal | IRaise e => PRaise e | IOutOfFuel => POutOfFuel
    end.

  (* the parse actions of an element, in order; the position is p' whatever they do *)
  Fixpoint act_loop (a : pattrs) (loc : nat) (p' : pos) (l : list N) (r : pr) (eff : list pyv) : outcome :=
    match l with
    | [] => POk p' r eff
    | fn :: rest =>
        match act fn src loc r with
        | ARNone => act_loop a loc p' rest r eff
        | AREffect v => act_loop a loc p' rest r (eff ++ [v])
        | ARVal v =>
            let aslist := a_save_as_list a && match v with PVList _ => true | _ => false end in
            act_loop a loc p' rest (wrap (RVal v) (a_rname a) aslist (a_modal a)) eff
        | ARRaise ex => PRaise ex
        | ARParseFail => PFail         (* IndexError inside an action becomes a ParseException *)
        end
    end.

  (* what happens after parseImpl succeeded: wrap the tokens, run the parse actions *)
  Definition finish_with (doact : bool) (a : pattrs) (loc : nat) (p' : pos) (x : raw) (eff : list pyv) : outcome :=
    let r := wrap x (a_rname a) (a_save_as_list a) (a_modal a) in
    if doact then act_loop a loc p' (a_actions a) r eff else POk p' r eff.

  (* the loops of the combinators, parametrised by the recursive call [sub e p callpre] and by [finish] *)
  Fixpoint and_loop (sub : pexpr -> pos -> bool -> outcome) (finish : pos -> raw -> list pyv -> outcome)
           (l : list pitem) (pc : pos) (acc : pr) (eff : list pyv) (stop : bool) : outcome :=
    match l with
    | [] => finish pc (RRes acc) eff
    | IErrorStop :: l' => and_loop sub finish l' pc acc eff true
    | IElem ei :: l' =>
        match sub ei pc true with
        | POk p2 r2 eff2 => and_loop sub finish l' p2 (pr_iadd acc r2) (eff ++ eff2) stop
        | PFail => if stop then PFatal else PFail
        | o => o
        end
    end.

  Fixpoint first_loop (sub : pexpr -> pos -> bool -> outcome) (finish : pos -> raw -> list pyv -> outcome)
           (pre : pos) (l : list pexpr) : outcome :=
    match l with
    | [] => PFail
    | ei :: l' =>
        match sub ei pre true with
        | POk p2 r2 eff2 => finish p2 (RRes r2) eff2
        | PFail => first_loop sub finish pre l'
        | o => o
        end
    end.

  Fixpoint rep_loop (sub : pexpr -> pos -> bool -> outcome) (finish : pos -> raw -> list pyv -> outcome)
           (e1 : pexpr) (n : nat) (pc : pos) (acc : pr) (eff : list pyv) : outcome :=
    match n with
    | O => POutOfFuel
    | S n' =>
        match sub e1 pc true with
        | POk p2 r2 eff2 => rep_loop sub finish e1 n' p2 (pr_iadd acc r2) (eff ++ eff2)
        | PFail => finish pc (RRes acc) eff
        | o => o
        end
    end.

  Fixpoint skip_scan (sub subq : pexpr -> pos -> bool -> outcome) (finish : pos -> raw -> list pyv -> outcome)
           (e1 : pexpr) (incl : bool) (pre : pos) (k : nat) (pc : pos) (n : nat) : outcome :=
    match n with
    | O => POutOfFuel
    | S n' =>
        if p_past pc then PFail else
        match subq e1 pc false with
        | POk _ _ _ =>
            let text := firstn k (p_rest pre) in
            if incl then
              match sub e1 pc false with
              | POk p2 r2 eff2 => finish p2 (RRes (pr_iadd (PR [PTStr text] [] []) r2)) eff2
              | o => o
              end
            else finish pc (RRes (PR [PTStr text] [] [])) []
        | PFail =>
            match p_rest pc with
            | _ :: _ => skip_scan sub subq finish e1 incl pre (S k) (advance 1 pc) n'
            | [] => PFail
            end
        | PFatal => PFatal
        | o => o
        end
    end.

  (* Or: after the trial pass, the alternatives sorted by the length they matched are run again with actions *)
  Fixpoint or_loop (suba : pexpr -> pos -> bool -> outcome) (finish : pos -> raw -> list pyv -> outcome) (has_fatal : bool)
           (pre2 : pos) (l : list (nat * pexpr)) (longest : option (pos * pr * list pyv)) : outcome :=
    match l with
    | [] => match longest with
            | Some (p2, r2, eff2) => finish p2 (RRes r2) eff2
            | None => if has_fatal then PFatal else PFail
            end
    | (loc1, e1) :: l' =>
        let stop_here := match longest with
                         | Some (pl, _, _) => Nat.leb loc1 (p_loc pl)
                         | None => false
                         end in
        if stop_here then
          match longest with
          | Some (p2, r2, eff2) => finish p2 (RRes r2) eff2
          | None => PFail
          end
        else
          match suba e1 pre2 true with
          | POk p2 r2 eff2 =>
              if Nat.leb loc1 (p_loc p2) then finish p2 (RRes r2) eff2
              else match longest with
                   | Some (pl, _, _) => if Nat.ltb (p_loc pl) (p_loc p2) then or_loop suba finish has_fatal pre2 l' (Some (p2, r2, eff2))
                                        else or_loop suba finish has_fatal pre2 l' longest
                   | None => or_loop suba finish has_fatal pre2 l' (Some (p2, r2, eff2))
                   end
          | PFail => or_loop suba finish has_fatal pre2 l' longest
          | o => o
          end
    end.

  Definition sort_matches (matches : list (nat * pexpr)) : list (nat * pexpr) :=
    fold_right (fun x acc =>
                  (fix ins (l : list (nat * pexpr)) :=
                     match l with
                     | [] => [x]
                     | y :: r => if Nat.leb (fst y) (fst x) then x :: l else y :: ins r
                     end) acc) [] matches.

  Fixpoint run (fuel : nat) (doact : bool) (e : pexpr) (p : pos) (callpre : bool) {struct fuel} : outcome :=
    match fuel with
    | O => POutOfFuel
    | S f =>
      let a := e_attrs e in
      let pre := if callpre && a_call_preparse a then preparse a p else p in
      let finish := finish_with doact a (p_loc pre) in
      let sub := run f doact in
      match e_core e with
      | PAnd items =>
          match items with
          | IElem e0 :: rest =>
              match sub e0 pre false with
              | POk p1 r1 eff1 => and_loop sub finish rest p1 r1 eff1 false
              | o => o
              end
          | _ => PFail
          end
      | PMatchFirst es => first_loop sub finish pre es
      | POr es =>
          let pre2 := if forallb (fun ei => a_call_preparse (e_attrs ei)) es then preparse a pre else pre in
          (* try every alternative without actions *)
          let tries := map (fun ei => (ei, run f false ei pre2 true)) es in
          if existsb (fun t => match snd t with POutOfFuel => true | _ => false end) tries then POutOfFuel else
          match find (fun t => match snd t with PRaise _ => true | _ => false end) tries with
          | Some (_, o) => o
          | None =>
            let matches := flat_map (fun t => match snd t with POk p2 _ _ => [(p_loc p2, fst t)] | _ => [] end) tries in
            let has_fatal := existsb (fun t => match snd t with PFatal => true | _ => false end) tries in
            match sort_matches matches with
            | [] => if has_fatal then PFatal else PFail
            | (_, best) :: _ =>
                if negb doact then
                  match run f false best pre2 true with
                  | POk p2 r2 eff2 => finish p2 (RRes r2) eff2
                  | o => o
                  end
                else or_loop (run f true) finish has_fatal pre2 (sort_matches matches) None
            end
          end
      | PZeroOrMore e1 | POneOrMore e1 =>
          let zero := match e_core e with PZeroOrMore _ => true | _ => false end in
          match sub e1 pre true with
          | POk p1 r1 eff1 => rep_loop sub finish e1 f p1 r1 eff1
          | PFail => if zero then finish pre (RRes (wrap REmptyList (a_rname a) true true)) [] else PFail
          | o => o
          end
      | POpt e1 =>
          match sub e1 pre false with
          | POk p1 r1 eff1 => finish p1 (RRes r1) eff1
          | PFail => finish pre REmptyList []
          | o => o
          end
      | PSkipTo e1 incl => skip_scan sub (run f false) finish e1 incl pre 0 pre (S (S (length (p_rest pre))))
      | PCombine e1 js =>
          match sub e1 pre false with
          | POk p1 r1 eff1 =>
              match as_string_list r1 js with
              | Some s =>
                  let ret := PR [PTStr s] (pr_named r1) (pr_alln r1) in
                  match a_rname a with
                  | Some _ => if negb (is_nil (pr_named ret)) then finish p1 (RListOfRes ret) eff1 else finish p1 (RRes ret) eff1
                  | None => finish p1 (RRes ret) eff1
                  end
              | None => PRaise (EStuck 300)
              end
          | o => o
          end
      | PSuppress e1 =>
          match sub e1 pre false with
          | POk p1 _ eff1 => finish p1 REmptyList eff1
          | o => o
          end
      | PGroup e1 =>
          match sub e1 pre false with
          | POk p1 r1 eff1 => finish p1 (RListOfRes r1) eff1
          | o => o
          end
      | PForward id =>
          match env id with
          | Some e1 => match sub e1 pre false with
                       | POk p1 r1 eff1 => finish p1 (RRes r1) eff1
                       | o => o
                       end
          | None => PFail
          end
      | POrigText e1 =>
          (* And [locMarker; expr; endlocMarker (no preparse)] with the extractText action *)
          match sub e1 pre true with
          | POk p1 _ eff1 =>
              let n := p_loc p1 - p_loc pre in
              finish p1 (RVal (PVStr (firstn n (p_rest pre)))) eff1
          | o => o
          end
      | PNotAny e1 =>
          match run f false e1 pre true with
          | POk _ _ _ => PFail
          | PFail | PFatal => finish pre REmptyList []
          | o => o
          end
      | PFollowedBy e1 =>
          match sub e1 pre true with
          | POk _ r1 eff1 => finish pre (RRes (PR [] (pr_named r1) (pr_alln r1))) eff1
          | o => o
          end
      | c => outcome_of (run_terminal c pre) finish
      end
    end.

  (* parse_string(s, parse_all=True): s is already expandtabs()'d *)
  Definition parse_string (fuel : nat) (top : pexpr) (default_ws : list ch) (parse_all : bool) : outcome :=
    match run fuel true top (pos_start src) true with
    | POk p r eff =>
        if parse_all then
          let p1 := preparse (e_attrs top) p in
          let p2 := skip_ws default_ws (length (p_rest p1)) p1 in
          match p_rest p2 with
          | [] => POk p2 r eff
          | _ :: _ => PFail
          end
        else POk p r eff
    | o => o
    end.
End Run.
