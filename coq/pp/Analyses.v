(* Analyses.v — computable analyses of (regenerated) grammars: literal vocabularies, occurrences of
   parse actions.  Structural recursion is replaced by fuel (the grammar type is nested-mutual);
   the fuel used in theorems is far above the depth of the generated terms. *)
From PyDBML Require Import PyStr Py PP.
Import ListNotations.

Definition children_of (c : pcore) : list pexpr :=
  match c with
  | PAnd items => flat_map (fun i => match i with IElem e => [e] | IErrorStop => [] end) items
  | PMatchFirst es | POr es => es
  | PZeroOrMore e | POneOrMore e | POpt e | PSkipTo e _ | PCombine e _ | PSuppress e | PGroup e
  | POrigText e | PNotAny e | PFollowedBy e => [e]
  | _ => []
  end.

Definition own_literals (c : pcore) : list pystr :=
  match c with
  | PLit s => [s]
  | PCaseless _ ret => [ret]
  | PAltLits a => a
  | _ => []
  end.

(* keep the first occurrence of every string *)
Definition dedup (l : list pystr) : list pystr :=
  rev (fold_left (fun acc x => if existsb (str_eqb x) acc then acc else x :: acc) l []).

Section WithEnv.
  Variable env : N -> option pexpr.

  (* every literal string that occurs under e (Forward references are not followed) *)
  Fixpoint literals (fuel : nat) (e : pexpr) : list pystr :=
    match fuel with
    | O => []
    | S f => own_literals (e_core e) ++ flat_map (literals f) (children_of (e_core e))
    end.

  Definition vocabulary (e : pexpr) : list pystr := dedup (literals 40 e).

  (* how often an action id is attached below e *)
  Fixpoint count_action (fuel : nat) (a : N) (e : pexpr) : nat :=
    match fuel with
    | O => 0
    | S f => length (filter (N.eqb a) (a_actions (e_attrs e)))
             + fold_right (fun c acc => count_action f a c + acc) 0 (children_of (e_core e))
    end.

  (* maximal nesting depth, to justify the fuel used above *)
  Fixpoint depth (fuel : nat) (e : pexpr) : nat :=
    match fuel with
    | O => 0
    | S f => S (fold_right (fun c acc => Nat.max (depth f c) acc) 0 (children_of (e_core e)))
    end.
End WithEnv.
