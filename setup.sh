#!/bin/bash
# MANIFEST.setup_cmd: full clean build of the Coq development, extraction and the OCaml driver. Offline.
set -e
cd "$(dirname "$0")"
export PYTHONPATH="${VERIF_REPO:-/repo}:$PWD/tools" PYTHONHASHSEED=0 PYTHONDONTWRITEBYTECODE=1
( cd coq && rm -f Makefile Makefile.conf .Makefile.d extract/driver extract/driver.stamp && find . -name '*.vo' -o -name '*.glob' -o -name '*.vok' -o -name '*.vos' -o -name '.*.aux' | xargs rm -f )
/venv/bin/python - <<'PY'
import buildsys, sys
st = buildsys.ensure_built()
print('translator_ok', st['translator_ok'], 'make_ok', st['make_ok'], 'driver_ok', st.get('driver_ok'), 'build_s', st['build_s'])
if st['failed']:
    print('NOT COMPILED:', st['failed']); print(buildsys.error_excerpt(st['make_log']))
sys.exit(0 if st.get('driver_ok') else 1)
PY
